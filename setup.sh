#!/bin/bash
# setup_cmd: make sure hypothesis is importable in /venv (offline, idempotent)
set -e
cd "$(dirname "$0")"
if ! /venv/bin/python -c "import hypothesis" 2>/dev/null; then
  PIP_NO_INDEX=1 /venv/bin/pip install --no-index --find-links /opt/veriftools/wheels hypothesis
fi
/venv/bin/python -c "import hypothesis, numpy, scipy, pandas, sympy, mpmath; print('hypothesis', hypothesis.__version__)"
mkdir -p out/tmp evidence
