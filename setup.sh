#!/bin/bash
# setup_cmd: make sure hypothesis is importable in /venv and atheris in /verif/.deps (offline, idempotent)
set -e
cd "$(dirname "$0")"
if ! /venv/bin/python -c "import hypothesis" 2>/dev/null; then
  PIP_NO_INDEX=1 /venv/bin/pip install --no-index --find-links /opt/veriftools/wheels hypothesis
fi
if ! PYTHONPATH=.deps /venv/bin/python -c "import atheris" 2>/dev/null; then
  PIP_NO_INDEX=1 /venv/bin/pip install --no-index --find-links /opt/veriftools/wheels --target .deps atheris \
    || echo "NOTE: atheris could not be installed; the coverage-guided shards will be skipped"
fi
/venv/bin/python -c "import hypothesis, numpy, scipy, pandas, sympy, mpmath; print('hypothesis', hypothesis.__version__)"
PYTHONPATH=.deps /venv/bin/python -c "import atheris; print('atheris ok')" || true
mkdir -p out/tmp evidence
