#!/venv/bin/python
"""Run the registered checks against the seeded breaking changes kept under /verif/seeded/<name>/.

usage: tools/seeded.py [name-substring] [--tier quick] [--jobs 3] [--inplace]
Each seeded/<name>/ holds patch.diff, the demonstration, and meta.json {"property": "C01", ...}.
Default mode copies /repo/PyMatterSim to a scratch dir under /tmp, applies the patch there and runs the check with
VERIF_REPO (so /repo is never touched).  --inplace does what the task brief describes literally:
git -C /repo apply patch; run; git -C /repo checkout -- .   (only use when nothing else is using /repo).
Exit 0 when every seeded change is caught (exit 1 + VIOLATION line from the property's check)."""
import glob, json, os, shutil, subprocess, sys, tempfile
from concurrent.futures import ThreadPoolExecutor

VERIF = os.path.dirname(os.path.dirname(os.path.abspath(__file__)))


def run_one(d, tier, procs, inplace):
    meta = json.load(open(os.path.join(d, "meta.json")))
    name = os.path.basename(d)
    props = meta["property"] if isinstance(meta["property"], list) else [meta["property"]]
    patch = os.path.join(d, "patch.diff")
    out = []
    if inplace:
        r = subprocess.run(["git", "-C", "/repo", "apply", patch], capture_output=True, text=True)
        if r.returncode:
            return name, "PATCH-FAILED", r.stderr
        env = dict(os.environ, VERIF_PROCS=str(procs), VERIF_EVIDENCE_DIR=tempfile.mkdtemp(prefix="pmsev-", dir="/tmp"))
        tmp = None
    else:
        tmp = tempfile.mkdtemp(prefix="pmsseed-", dir="/tmp")
        shutil.copytree("/repo/PyMatterSim", os.path.join(tmp, "PyMatterSim"), ignore=shutil.ignore_patterns("__pycache__"))
        # only the library sources are copied; hunks for docs/ or tests/ are irrelevant to the check
        r = subprocess.run(["git", "apply", "--include=PyMatterSim/*", patch], cwd=tmp, capture_output=True, text=True)
        if r.returncode:
            shutil.rmtree(tmp, ignore_errors=True)
            return name, "PATCH-FAILED", r.stdout + r.stderr
        env = dict(os.environ, VERIF_REPO=tmp, VERIF_PROCS=str(procs), VERIF_EVIDENCE_DIR=os.path.join(tmp, "evidence"))
    try:
        status = []
        for prop in props:
            r = subprocess.run([os.path.join(VERIF, "check"), prop, tier], capture_output=True, text=True, env=env)
            st = {0: "MISSED", 1: "caught", 2: "HARNESS-ERROR"}.get(r.returncode, f"exit{r.returncode}")
            if r.returncode == 1 and "VIOLATION property=" not in r.stdout:
                st = "exit1-no-line"
            status.append(f"{prop}:{st}")
            out.append(r.stdout[-1200:] + r.stderr[-300:])
        return name, " ".join(status), "\n".join(out)
    finally:
        if inplace:
            subprocess.run(["git", "-C", "/repo", "checkout", "--", "."])
            shutil.rmtree(env["VERIF_EVIDENCE_DIR"], ignore_errors=True)
        elif tmp:
            shutil.rmtree(tmp, ignore_errors=True)


def main():
    args = sys.argv[1:]
    tier, jobs, sub, inplace, verbose = "quick", 3, None, False, False
    i = 0
    while i < len(args):
        if args[i] == "--tier": tier = args[i + 1]; i += 1
        elif args[i] == "--jobs": jobs = int(args[i + 1]); i += 1
        elif args[i] == "--inplace": inplace = True; jobs = 1
        elif args[i] == "-v": verbose = True
        else: sub = args[i]
        i += 1
    dirs = sorted(d for d in glob.glob(os.path.join(VERIF, "seeded", "*")) if os.path.exists(os.path.join(d, "meta.json")))
    if sub:
        dirs = [d for d in dirs if sub in os.path.basename(d)]
    procs = max(2, 16 // max(1, min(jobs, len(dirs) or 1)))
    with ThreadPoolExecutor(jobs) as ex:
        res = list(ex.map(lambda d: run_one(d, tier, procs, inplace), dirs))
    bad = 0
    for name, status, out in res:
        print(f"{name:28s} {status}")
        ok = status and all(s.endswith(":caught") for s in status.split())
        if not ok or verbose:
            print("    " + out.replace("\n", "\n    "))
        bad += not ok
    print(f"seeded: {len(res) - bad}/{len(res)} caught")
    return 1 if bad else 0


if __name__ == "__main__":
    sys.exit(main())
