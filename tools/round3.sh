#!/bin/bash
# tools/round3.sh <ID> [tag=3] [labels="E F"] : run the property's quick check against the round-3 changes delivered in
# /tmp/atk<tag>-<ID>-out/<label> (scratch copy of the library, VERIF_REPO).  Confirmation (tools/confirm_seeded.sh) is
# started separately: CONFIRM=1 starts it in the background.
id=$1; tag=${2:-3}; labels=${3:-"E F"}; root=/tmp/atk$tag-$id-out
for x in $labels; do
  [ -f $root/$x/patch.diff ] || { echo "== $id-$x: no patch"; continue; }
  [ -n "$CONFIRM" ] && (nohup /verif/tools/confirm_seeded.sh $id $x $root/$x > /tmp/confirm-$id-$x.out 2>&1 &)
  out=$(TRY_LINES=2 VERIF_PROCS=${VERIF_PROCS:-6} /verif/tools/try_patch.sh $root/$x/patch.diff $id quick 2>&1)
  rc=$(echo "$out" | grep -o "rc=[0-9]*")
  echo "== $id-$x $rc $(echo "$out" | grep -m1 -A1 '^VIOLATION' | tail -1 | cut -c1-220)"
done
