#!/bin/bash
# tools/confirm_seeded.sh <ID> <A|B> [srcdir]
# Independent confirmation of a seeded breaking change delivered by a sub-agent in <srcdir> (default
# /tmp/wt-<ID>/seeded_out/<A|B>): in a fresh scratch worktree of /repo (outside /repo and /verif)
#   1. demo.py exits 0 on the clean tree,
#   2. patch.diff applies, the package imports, demo.py exits 1 on the changed tree,
#   3. the repository's whole test suite (serial) gives the same outcome as on the unchanged tree
#      (94 passed; only the 2 voro++ and 2 gsd tests fail),
# then copies patch.diff, demo.py, meta.json (+NOTES) to /verif/seeded/<ID>-<X>/ with confirm.txt, and removes the
# worktree.  Exit 0 = confirmed.
id=$1; x=$2; src=${3:-/tmp/wt-$id/seeded_out/$x}
name=$id-$x
wt=/tmp/cf-$name
dst=/verif/seeded/$name
log=/tmp/confirm-$name.log
PY=/venv/bin/python
set -u
{
  echo "confirm $name from $src at $(date -u +%FT%TZ), repo HEAD $(git -C /repo rev-parse --short HEAD)"
  [ -f "$src/patch.diff" ] && [ -f "$src/demo.py" ] && [ -f "$src/meta.json" ] || { echo "FAIL: missing files"; exit 3; }
  git -C /repo worktree remove --force $wt 2>/dev/null
  git -C /repo worktree add --detach -q $wt HEAD || exit 3
  cd $wt
  echo "--- demo on clean tree"
  PYTHONPATH=$wt $PY $src/demo.py > $log.demo0 2>&1; rc0=$?; tail -3 $log.demo0; echo "exit=$rc0"
  echo "--- apply"
  git apply --include='PyMatterSim/*' $src/patch.diff || { echo "FAIL: patch does not apply"; cd /; git -C /repo worktree remove --force $wt; exit 3; }
  git diff --stat | tail -3
  PYTHONPATH=$wt $PY -c "import PyMatterSim, PyMatterSim.static.boo, PyMatterSim.static.gr, PyMatterSim.static.sq, PyMatterSim.dynamic.dynamics, PyMatterSim.neighbors.calculate_neighbors, PyMatterSim.static.hessians; print('imports ok', PyMatterSim.__file__)" || { echo "FAIL: import"; }
  echo "--- demo on changed tree"
  PYTHONPATH=$wt $PY $src/demo.py > $log.demo1 2>&1; rc1=$?; tail -3 $log.demo1; echo "exit=$rc1"
  echo "--- full suite on changed tree (serial)"
  PYTHONPATH=$wt $PY -m pytest -q -p no:cacheprovider --timeout=900 --continue-on-collection-errors -x --co -q >/dev/null 2>&1
  PYTHONPATH=$wt $PY -m pytest -q -p no:cacheprovider --timeout=900 --continue-on-collection-errors > $log.suite 2>&1
  tail -8 $log.suite
  # on a heavily loaded machine long tests hit pytest-timeout (900 s): re-run exactly those tests alone, without a limit
  retried=0
  for t in $(grep -E "^FAILED .*Timeout" $log.suite | sed 's/^FAILED //; s/ - .*//'); do
    echo "--- re-running timed-out test alone: $t"
    # (the whole test file: some tests read files written by earlier tests of the same file)
    PYTHONPATH=$wt $PY -m pytest -q -p no:cacheprovider --timeout=0 "${t%%::*}" > $log.retry 2>&1
    if ! grep -qE "^(FAILED|ERROR) $t( |$)" $log.retry && grep -qE "[0-9]+ passed" $log.retry; then
      echo "    passes without the time limit"; retried=$((retried+1))
      sed -i "s#^FAILED $t .*#RETRIED-PASSED $t#" $log.suite
    else
      tail -5 $log.retry
    fi
  done
  failed=$(grep -E "^(FAILED|ERROR)" $log.suite | sed 's/ - .*//' | sort | tr '\n' ' ')
  npass=$(grep -Eo "[0-9]+ passed" $log.suite | tail -1)
  [ $retried -gt 0 ] && npass="$(( ${npass% passed} + retried )) passed" && echo "($retried timed-out tests pass when run alone without the limit)"
  echo "failed: $failed"
  echo "passed: $npass"
  ok=1
  [ $rc0 -eq 0 ] || { echo "NOT CONFIRMED: demo fails on the clean tree"; ok=0; }
  [ $rc1 -ne 0 ] || { echo "NOT CONFIRMED: demo passes on the changed tree"; ok=0; }
  [ "$npass" == "94 passed" ] || { echo "NOT CONFIRMED: suite outcome differs ($npass)"; ok=0; }
  nfail=$(grep -cE "^(FAILED|ERROR)" $log.suite)
  [ "$nfail" == "4" ] || { echo "NOT CONFIRMED: $nfail failures (expected the 4 voro++/gsd ones)"; ok=0; }
  cd /
  git -C /repo worktree remove --force $wt
  rm -rf $wt
  if [ $ok -eq 1 ]; then echo "CONFIRMED $name"; else echo "REJECTED $name"; fi
} > $log 2>&1
if grep -q "^CONFIRMED" $log; then
  mkdir -p $dst
  cp $src/patch.diff $src/demo.py $src/meta.json $dst/
  [ -f $src/NOTES.md ] && cp $src/NOTES.md $dst/
  cp $log $dst/confirm.txt
  rm -f $log.demo0 $log.demo1 $log.suite
  echo "CONFIRMED $name"
  exit 0
fi
echo "REJECTED $name (see $log)"
exit 1
