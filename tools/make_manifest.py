#!/venv/bin/python
"""Regenerate MANIFEST.json from pbt/props/*.py (each module declares MANIFEST = {...})."""
import importlib, json, os, sys
VERIF = os.path.dirname(os.path.dirname(os.path.abspath(__file__)))
sys.path.insert(0, VERIF)
os.chdir(VERIF)
ids = [json.loads(l)["id"] for l in open("properties.jsonl")]
checks, na = [], []
enabled = set(open("tools/enabled.txt").read().split())
for pid in ids:
    path = f"pbt/props/{pid.lower()}.py"
    if pid not in enabled or not os.path.exists(path):
        na.append({"property_id": pid, "reason": "check not built yet (work in progress; planned in DESIGN.md section 3)"})
        continue
    mod = importlib.import_module(f"pbt.props.{pid.lower()}")
    m = getattr(mod, "MANIFEST", {})
    checks.append({
        "property_id": pid,
        "quick_cmd": f"./check {pid} quick",
        "thorough_cmd": f"./check {pid} thorough",
        "evidence_file": f"/verif/evidence/{pid}.json",
        "replay_cmd_template": f"./check {pid} --replay {{path}}",
        "engine": "pbt",
        "level_claimed": {"category": "exploration",
                          "text": m.get("text", "Hypothesis generated-input search against an independent executable oracle; facets: " + ", ".join(f.name for f in mod.FACETS)),
                          "design_ref": f"DESIGN.md section 3 ({pid})"},
        "level_note": m.get("note", "; ".join(getattr(mod, "ASSUMPTIONS", [])) or "oracle = independent reference implementation in pbt/ref; numpy/scipy trusted"),
        "technique": m.get("technique", "property-based testing (Hypothesis): reference-model differential + metamorphic relations"),
    })
manifest = {
    "version": 1,
    "setup_cmd": "./setup.sh",
    "hooks": {"guard": "PYMATTERSIM_VERIF", "enable": "no hooks are needed: every observable is a return value or an output file; checks import PyMatterSim from /repo's working tree (VERIF_REPO overrides)",
              "baseline_off_cmd": "cd /repo && /venv/bin/python -m pytest -ra -q -p no:cacheprovider --timeout=900 --continue-on-collection-errors",
              "source_commits": [], "add_only": True},
    "engines": [{"name": "pbt", "path": "/verif/pbt", "serves_properties": [c["property_id"] for c in checks],
                 "kind_free_text": "Hypothesis 6.168 property-based tests + rule-based state machines, independent numpy reference models, replay corpus"}],
    "checks": checks,
    "not_applicable": na,
    "notes": "One check per property; each check = committed replay corpus + generated search over several facets (see evidence coverage.facets). Exit 2 = harness error.",
}
json.dump(manifest, open("MANIFEST.json", "w"), indent=1)
print(f"{len(checks)} checks, {len(na)} not_applicable")
