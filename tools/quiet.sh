#!/bin/bash
# tools/quiet.sh "<seeds>" [ids...]  : run the quick tier of every registered check at several seeds on the unchanged
# tree (evidence goes to a scratch dir); any exit != 0 is printed.  Used before trusting a check.
cd "$(dirname "$0")/.." || exit 2
seeds=${1:-"2 3 4"}; shift
ids=${@:-$(cat tools/enabled.txt)}
ev=$(mktemp -d /tmp/pmsquiet-XXXX)
bad=0
for s in $seeds; do for id in $ids; do
  out=$(VERIF_SEED=$s VERIF_EVIDENCE_DIR=$ev ./check $id quick 2>&1); rc=$?
  line=$(echo "$out" | grep -E "^OK|^VIOLATION|HARNESS" | head -2 | tr '\n' ' ')
  echo "seed=$s $id rc=$rc $line"
  [ $rc -ne 0 ] && { bad=1; echo "$out" | tail -15; }
done; done
rm -rf $ev
exit $bad
