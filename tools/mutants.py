#!/venv/bin/python
"""Sensitivity protocol: apply each listed mutant to a scratch copy of /repo/PyMatterSim (outside /repo and
/verif), run the property's quick check against it with VERIF_REPO, expect exit 1, delete the copy.

usage: tools/mutants.py <ID> [name-substring] [--tier quick] [--jobs 4]
mutants/<ID>.json: [{"name":..., "file": "PyMatterSim/...", "old": "...", "new": "...", "count": 1}]
or {"name":..., "patch": "mutants/x.patch"}
"""
import json, os, shutil, subprocess, sys, tempfile
from concurrent.futures import ThreadPoolExecutor

VERIF = os.path.dirname(os.path.dirname(os.path.abspath(__file__)))
REPO = os.environ.get("MUT_BASE", "/repo")


def run_one(prop, m, tier, procs, extra):
    tmp = tempfile.mkdtemp(prefix="pmsmut-", dir="/tmp")
    try:
        shutil.copytree(os.path.join(REPO, "PyMatterSim"), os.path.join(tmp, "PyMatterSim"),
                        ignore=shutil.ignore_patterns("__pycache__"))
        if "patch" in m:
            r = subprocess.run(["patch", "-p1", "-d", tmp, "-i", os.path.join(VERIF, m["patch"])], capture_output=True, text=True)
            if r.returncode != 0:
                return m["name"], "PATCH-FAILED", r.stdout + r.stderr
        else:
            edits = m["edits"] if "edits" in m else [m]
            for e in edits:
                path = os.path.join(tmp, e["file"])
                s = open(path).read()
                cnt = s.count(e["old"])
                if cnt == 0 or (e.get("count", 1) and cnt != e.get("count", 1)):
                    return m["name"], "PATCH-FAILED", f"{e['old']!r} occurs {cnt} times in {e['file']}"
                open(path, "w").write(s.replace(e["old"], e["new"]))
        env = dict(os.environ, VERIF_REPO=tmp, VERIF_PROCS=str(procs), VERIF_EVIDENCE_DIR=os.path.join(tmp, "evidence"))
        r = subprocess.run([os.path.join(VERIF, "check"), prop, tier] + extra, capture_output=True, text=True, env=env)
        status = {0: "MISSED", 1: "caught", 2: "HARNESS-ERROR"}.get(r.returncode, f"exit{r.returncode}")
        if r.returncode == 1 and "VIOLATION property=" not in r.stdout:
            status = "exit1-no-line"
        return m["name"], status, r.stdout[-1500:] + r.stderr[-500:]
    finally:
        shutil.rmtree(tmp, ignore_errors=True)


def main():
    args = sys.argv[1:]
    prop = args[0].upper()
    tier, jobs, sub, extra = "quick", 4, None, []
    i = 1
    while i < len(args):
        if args[i] == "--tier": tier = args[i + 1]; i += 1
        elif args[i] == "--jobs": jobs = int(args[i + 1]); i += 1
        elif args[i] == "--facet": extra += ["--facet", args[i + 1]]; i += 1
        elif args[i] == "-v": os.environ["MUT_VERBOSE"] = "1"
        else: sub = args[i]
        i += 1
    muts = json.load(open(os.path.join(VERIF, "mutants", f"{prop}.json")))
    if sub:
        muts = [m for m in muts if sub in m["name"]]
    procs = max(2, 16 // max(1, min(jobs, len(muts))))
    with ThreadPoolExecutor(jobs) as ex:
        res = list(ex.map(lambda m: run_one(prop, m, tier, procs, extra), muts))
    bad = 0
    for name, status, out in res:
        print(f"{prop} {name:40s} {status}")
        if status != "caught" or os.environ.get("MUT_VERBOSE"):
            print("    " + out.replace("\n", "\n    "))
        bad += status != "caught"
    print(f"{prop}: {len(res) - bad}/{len(res)} mutants caught")
    return 1 if bad else 0


if __name__ == "__main__":
    sys.exit(main())
