#!/bin/bash
# tools/round2.sh <ID> [srcroot=/tmp/w2-<ID>] : run the property's quick check against round-2 changes A,B (kept as C,D) and start their confirmation
id=$1; root=${2:-/tmp/w2-$id}
for pair in "A C" "B D"; do set -- $pair
  (nohup /verif/tools/confirm_seeded.sh $id $2 $root/seeded_out/$1 > /tmp/confirm-$id-$2.out 2>&1 &)
  out=$(TRY_LINES=2 /verif/tools/try_patch.sh $root/seeded_out/$1/patch.diff $id quick 2>&1)
  rc=$(echo "$out" | grep -o "rc=[0-9]*")
  echo "== $id-$2 $rc $(echo "$out" | grep -m1 -A1 '^VIOLATION' | tail -1 | cut -c1-220)"
done
