#!/usr/bin/env python3
"""tools/attacker_prompt.py <ID> <tag>  : create the scratch worktree /tmp/atk<tag>-<ID> of /repo (detached HEAD) and
print the prompt handed to a fresh sub-agent that is asked for two independent breaking changes.  The prompt contains
the property record and a generic list of idea kinds already used in earlier rounds - nothing about the checks."""
import json, os, subprocess, sys

ID, tag = sys.argv[1], sys.argv[2]
labels = sys.argv[3].split(",") if len(sys.argv) > 3 else ["E", "F"]
wt = f"/tmp/atk{tag}-{ID}"
out = f"{wt}-out"
rec = next(json.loads(l) for l in open(os.path.join(os.path.dirname(__file__), "..", "properties.jsonl"))
           if json.loads(l)["id"] == ID)
subprocess.run(["git", "-C", "/repo", "worktree", "remove", "--force", wt], capture_output=True)
subprocess.run(["git", "-C", "/repo", "worktree", "add", "--detach", "-q", wt, "HEAD"], check=True)
os.makedirs(out, exist_ok=True)
A, B = labels
print(f"""You are helping to evaluate a verification harness by writing realistic *breaking changes* (seeded defects) for the
Python library PyMatterSim (analysis of molecular-simulation trajectories). You work ONLY inside your own scratch git
worktree `{wt}` (a detached checkout of the library's repository at its current HEAD) and your output directory
`{out}`. Never read or write anything under `/repo` or `/verif` - they are off limits. No network.

## The property you attack
```json
{json.dumps(rec, indent=1)}
```
(Line numbers in the anchors may have drifted by a few lines.)

## Task
Produce TWO independent changes, `{A}` and `{B}`, to the library source under `{wt}/PyMatterSim/` such that each one
* breaks the property above for some valid inputs / call histories (the library returns or writes a wrong value, or
  raises where the property promises a value),
* leaves the package importable and the repository's existing test suite at its baseline outcome: **94 passed, 4 failed**
  (the 4 failures are `voropp_neighbors_test` x2 and the two gsd reader tests, which fail on the unchanged tree for
  missing optional dependencies),
* looks like something a maintainer could plausibly commit - a refactoring, vectorisation, performance short-cut,
  "clean-up", robustness guard, new convenience feature with a side effect - not random-looking sabotage,
* needs something SPECIFIC to manifest: an unusual but valid input class, a particular combination of options, a
  multi-step sequence of calls on one object, a particular size or parity, or two cooperating sites that each look
  fine alone. Not something ordinary use (or a reader of the golden numbers in the tests) would expose at once.
The two changes must be of different kinds and touch different mechanisms.

Idea kinds that earlier rounds have USED UP (do not repeat them): stale memo / cache keyed by object identity, path or
name; cell matrix or its inverse hoisted out of the frame loop (frame-0 cell); species labels cached from frame 0;
in-place modification of caller inputs; orthogonal box-length wrap instead of the triclinic cell; `<` vs `<=` at a
cut-off; zero-atom frame handling; one-shot iterators (zip / islice / generator) exhausted on the second evaluation;
integer dtype inherited through zeros_like; `np.isclose`-based integer / constant-field tests; dictionary insertion
order or rank-of-key indexing; skipping frames with duplicate timesteps; `usecols` file order; transposed type-pair
cut-off matrix; cumulative-sum sliding window; packed uint32 keys for large N; Wigner-symbol symmetry reuse;
polar angle via arctan; |sum w| vs sum |w|; abs() in the Hertz overlap; one-pass variance / gyration formula;
Friedel-pair folding of wave vectors; grouping wave vectors by integer shell.
Fresh directions you might consider (pick what fits the code you read; invent your own): a branch that only the 2D or
only the 3D path takes; behaviour that coincides for square / cubic / symmetric / sorted / equal-size input and differs
otherwise; broadcasting along the wrong axis that is invisible when two sizes are equal; premature rounding or a
float32 intermediate; unusual but valid text formats (scientific notation, tabs, extra blanks, column order, trailing
blank lines, Windows line ends); partially periodic masks; negative coordinates / non-zero origin; chunked or blocked
processing with a wrong remainder; boundary sizes (N exactly k, k+1; one bin; one wave vector; one frame; K = 1 or the
largest supported K); a rarely used option combination; per-axis quantities (2 pi / L_x vs L_y) mixed up; sort /
unique side effects on ordering; mutable default arguments; an "optimisation" valid only under a symmetry the input
need not have; parity of a degree / exponent / count; accumulated state across methods of one object in a particular
order; numerically "equivalent" reformulations that lose accuracy or change results in edge regimes.

## How to work
* Python is `/venv/bin/python` (numpy 2.x, scipy, pandas, freud, sympy, mpmath present). Always run with
  `PYTHONPATH={wt}` so that your worktree's package is imported (check `PyMatterSim.__file__`), from cwd `{wt}`.
* Read the code behind the property (anchors), its docs under `{wt}/docs` and its tests under `{wt}/tests` first.
* Tests: `cd {wt} && PYTHONPATH={wt} OMP_NUM_THREADS=1 /venv/bin/python -m pytest -q -p no:cacheprovider --timeout=900 tests`
  - run the relevant test files first, then the WHOLE suite once per change, serially (10-12 minutes; never `-n`: the
  tests share scratch file names in the cwd). Remove stray output files the tests leave in the worktree afterwards
  (`git clean -fdq`).
* For each change write into `{out}/{A}/` and `{out}/{B}/`:
  - `patch.diff`: `git -C {wt} diff` against HEAD, only files under `PyMatterSim/`;
  - `demo.py`: a stand-alone program, run as `cd {wt} && PYTHONPATH={wt} /venv/bin/python {out}/<X>/demo.py`, that
    builds its own input, computes the expected answer INDEPENDENTLY (own numpy code, not the library routine under
    attack), prints PASS and exits 0 on the unchanged tree, prints FAIL and exits 1 when the change is applied. It
    may use the repository's sample data through paths relative to the cwd, and must write any files into a temp dir;
  - `meta.json`: {{"property": "{ID}", "summary": "<what was changed and why it is wrong>", "needs": "<what is needed
    for it to manifest, and what stays unaffected>", "tests_run": "<commands and outcomes>"}}.
* Between the two changes and at the end: `git -C {wt} checkout -- . && git -C {wt} clean -fdq` (leave the worktree
  clean; do not delete it, do not commit).
* Verify yourself: demo exits 0 on the clean worktree, 1 with the patch applied; suite outcome as above.

Final message (short, factual): for each change - file/function, what it does, what it needs to manifest, demo and
suite outcomes.""")
