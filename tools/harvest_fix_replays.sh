#!/bin/bash
# tools/harvest_fix_replays.sh <commit> <ID> [facet,...]
# Regression replay for a repaired defect: revert ONE fix: commit in a scratch worktree (outside /repo and /verif),
# run the property's quick check against it, keep the first shrunk counterexample of each failing facet as
# replays/<ID>/revert-<commit>-<facet>.json after confirming that it fails on the reverted tree and passes on /repo.
commit=$1; id=$2; facets=${3:-}
wt=/tmp/rv-$commit
git -C /repo worktree remove --force $wt 2>/dev/null
git -C /repo worktree add --detach -q $wt HEAD || exit 3
( cd $wt && git revert -n $commit >/dev/null 2>&1 ) || { echo "REVERT-CONFLICT $commit"; git -C /repo worktree remove --force $wt; exit 3; }
ev=$(mktemp -d /tmp/rvev-XXXX)
args=""; [ -n "$facets" ] && args="--facet $facets"
out=$(VERIF_REPO=$wt VERIF_EVIDENCE_DIR=$ev VERIF_NO_FUZZ=1 VERIF_PROCS=8 /verif/check $id quick $args 2>&1)
n=0
for rp in $(echo "$out" | grep -E "^VIOLATION" | sed 's/.*replay=//' | sort -u); do
  facet=$(jq -r .facet $rp)
  [ "$facet" == "<import>" ] && { echo "$commit $id: import failure (no facet replay)"; continue; }
  dst=/verif/replays/$id/revert-$commit-$facet.json
  [ -f $dst ] && continue
  VERIF_REPO=$wt /verif/check $id --replay $rp >/dev/null 2>&1; r1=$?
  /verif/check $id --replay $rp >/dev/null 2>&1; r0=$?
  if [ $r1 -eq 1 ] && [ $r0 -eq 0 ]; then mkdir -p /verif/replays/$id; cp $rp $dst; echo "kept $dst"; n=$((n+1)); else echo "skip $rp (reverted rc=$r1, repo rc=$r0)"; fi
done
[ $n -eq 0 ] && echo "$commit $id: nothing kept" && echo "$out" | tail -5
git -C /repo worktree remove --force $wt; rm -rf $ev $wt
