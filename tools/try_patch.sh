#!/bin/bash
# tools/try_patch.sh <patch.diff> <ID> [tier] [extra check args]: run one check against a scratch copy of PyMatterSim with the patch applied
patch=$1; id=$2; tier=${3:-quick}; shift 3 2>/dev/null
tmp=$(mktemp -d /tmp/pmstry-XXXX)
cp -r /repo/PyMatterSim $tmp/PyMatterSim
( cd $tmp && git apply --include='PyMatterSim/*' $patch ) || { echo PATCH-FAILED; rm -rf $tmp; exit 3; }
VERIF_REPO=$tmp VERIF_EVIDENCE_DIR=$tmp/evidence VERIF_PROCS=${VERIF_PROCS:-8} /verif/check $id $tier "$@" > $tmp/out.txt 2>&1; rc=$?
grep -E "^VIOLATION|^OK|HARNESS" $tmp/out.txt | head -5
grep -A6 "^VIOLATION" $tmp/out.txt | head -${TRY_LINES:-14}
echo "rc=$rc"
rm -rf $tmp
exit $rc
