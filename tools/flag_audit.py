#!/venv/bin/python
"""Generator-reach audit: which option values of the library's routines do the checks ever exercise?

usage: tools/flag_audit.py <ID> [n-per-facet]     (prints a table; writes out/flag_audit/<ID>.json)

Runs every facet of a property for a few cases in-process under sys.setprofile and records, for every function
defined in PyMatterSim/ that gets called, the distinct values seen for each parameter that looks like an option
(bool / None / str / small int default, or a bool/str value at run time).  Parameters for which only ONE value was
ever seen although the signature documents a default of a different kind are the holes a seeded change can hide in
(a non-default flag, an alternative mode).  This is a measurement of the generators, not a check.
"""
import importlib
import inspect
import json
import os
import shutil
import sys
import tempfile

VERIF = os.path.dirname(os.path.dirname(os.path.abspath(__file__)))
sys.path.insert(0, VERIF)
os.environ.setdefault("VERIF_TRACE_CASES", "0")
from pbt import harness as H  # noqa: E402

PREFIX = os.path.join(H.REPO, "PyMatterSim") + os.sep
seen = {}      # (file, qualname) -> {param: set(repr)}
codes = {}


def short(v):
    import numpy as np
    if isinstance(v, (bool, np.bool_)):
        return repr(bool(v))
    if v is None:
        return "None"
    if isinstance(v, str):
        return repr(v) if len(v) < 24 else "'<str>'"
    if isinstance(v, (int, np.integer)) and not isinstance(v, bool):
        return f"int:{int(v)}" if -3 <= int(v) <= 12 else "int:*"
    if isinstance(v, float):
        return "float"
    if isinstance(v, np.ndarray):
        return f"ndarray[{v.dtype},{v.ndim}d]"
    if isinstance(v, dict):
        return "dict"
    if isinstance(v, (list, tuple)):
        return type(v).__name__
    return type(v).__name__


def prof(frame, event, arg):
    if event != "call":
        return
    co = frame.f_code
    fn = co.co_filename
    if not fn.startswith(PREFIX):
        return
    key = (os.path.relpath(fn, H.REPO), co.co_qualname if hasattr(co, "co_qualname") else co.co_name)
    d = seen.setdefault(key, {})
    nargs = co.co_argcount + co.co_kwonlyargcount
    for name in co.co_varnames[:nargs]:
        if name in ("self", "cls"):
            continue
        try:
            v = frame.f_locals[name]
        except KeyError:
            continue
        s = d.setdefault(name, set())
        if len(s) < 12:
            s.add(short(v))


def main():
    prop = sys.argv[1].upper()
    n = int(sys.argv[2]) if len(sys.argv) > 2 else 60
    mod = importlib.import_module(f"pbt.props.{prop.lower()}")
    base = os.path.join(VERIF, "out", "tmp")
    os.makedirs(base, exist_ok=True)
    tmp = tempfile.mkdtemp(prefix=f"{prop}-audit-", dir=base)
    os.chdir(tmp)
    try:
        for facet in mod.FACETS:
            sys.setprofile(prof)
            try:
                if facet.kind == "enum":
                    H.run_enum_facet(facet, "quick")
                elif facet.kind == "machine":
                    H.run_machine_facet(facet, max(10, n // 4), 12345, 600, shrink=False)
                else:
                    H.run_fn_facet(facet, n, 12345, 600, shrink=False)
            finally:
                sys.setprofile(None)
    finally:
        os.chdir(VERIF)
        shutil.rmtree(tmp, ignore_errors=True)

    # signatures: defaults
    import PyMatterSim  # noqa: F401
    rows = []
    for (fn, qual), params in sorted(seen.items()):
        if fn.endswith("utils/logging.py"):
            continue
        modname = fn[:-3].replace("/", ".")
        try:
            m = importlib.import_module(modname)
            obj = m
            for part in qual.split("."):
                if part == "<locals>":
                    raise AttributeError
                obj = getattr(obj, part)
            sig = inspect.signature(obj)
        except Exception:  # noqa: BLE001
            sig = None
        for p, vals in sorted(params.items()):
            default = None
            has_default = False
            if sig is not None and p in sig.parameters and sig.parameters[p].default is not inspect._empty:
                default = sig.parameters[p].default
                has_default = True
            optionlike = (has_default and (isinstance(default, (bool, str)) or default is None)) or \
                any(v in ("True", "False") or v.startswith("'") for v in vals)
            if not optionlike:
                continue
            rows.append({"function": f"{fn}:{qual}", "param": p, "default": repr(default) if has_default else "<required>",
                         "seen": sorted(vals), "single": len(vals) == 1})
    os.makedirs(os.path.join(VERIF, "out", "flag_audit"), exist_ok=True)
    with open(os.path.join(VERIF, "out", "flag_audit", f"{prop}.json"), "w") as f:
        json.dump(rows, f, indent=1)
    print(f"== {prop}: option-like parameters of the PyMatterSim functions reached ({len(rows)}); '!' = only one value seen")
    for r in rows:
        mark = "!" if r["single"] else " "
        print(f" {mark} {r['function']}({r['param']}={r['default']}): {', '.join(r['seen'])}")


if __name__ == "__main__":
    main()
