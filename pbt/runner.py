"""CLI:  python -m pbt.runner <ID> <quick|thorough> [--replay FILE] [--facet NAME] [--n N]

Exit 0: property held on everything explored.  Exit 1 + `VIOLATION property=<ID> replay=<path>`:
a generated (or committed replay) case contradicts the oracle.  Exit 2: harness error.
"""
from __future__ import annotations

import glob
import importlib
import json
import multiprocessing as mp
import os
import shutil
import sys
import tempfile
import time
import traceback

from . import harness as H

OUT = os.path.join(H.VERIF, "out")
EVID = os.environ.get("VERIF_EVIDENCE_DIR") or os.path.join(H.VERIF, "evidence")
KNOWN = os.path.join(H.VERIF, "KNOWN_FINDINGS.json")


def load_facets(prop):
    mod = importlib.import_module(f"pbt.props.{prop.lower()}")
    return mod, {f.name: f for f in mod.FACETS}


def _worker(args):
    prop, facet_name, tier, shard, nshards, base_seed, n_override = args
    t0 = time.time()
    tmp = tempfile.mkdtemp(prefix=f"{prop}-{facet_name}-{shard}-", dir=os.path.join(OUT, "tmp"))
    old = os.getcwd()
    os.chdir(tmp)
    res = {"facet": facet_name, "shard": shard}
    try:
        mod, facets = load_facets(prop)
        facet = facets[facet_name]
        hseed = H.seed_for(base_seed, prop, facet_name, shard)
        if facet.kind == "enum":
            rec = H.run_enum_facet(facet, tier) if shard == 0 else None
            if rec is None:
                return {"facet": facet_name, "shard": shard, "skipped": True}
        else:
            total = facet.quick if tier == "quick" else facet.thorough
            if n_override:
                total = n_override
            n = max(1, total // nshards)
            budget = facet.quick_budget_s if tier == "quick" else facet.thorough_budget_s
            run = H.run_machine_facet if facet.kind == "machine" else H.run_fn_facet
            rec = run(facet, n, hseed, budget, shrink=True)
        res.update(evaluations=rec.evaluations, nontrivial=sorted(rec.nontrivial), tags=rec.tags,
                   samples=rec.samples, truncated=rec.truncated, extra=rec.extra,
                   wall=time.time() - t0, hseed=hseed, lines=rec.tracer.summary())
        if rec.failure is not None:
            case, msg, bucket = rec.failure
            path = os.path.join(OUT, "replays", f"{prop}-{facet_name}-s{base_seed}-{shard}.json")
            H.dump_replay(path, prop, facet, case, msg, base_seed)
            res["failure"] = {"replay": path, "message": msg, "bucket": bucket}
    except H.HarnessError as e:
        res["harness_error"] = str(e)
    except Exception as e:  # noqa: BLE001
        res["harness_error"] = f"{type(e).__name__}: {e}\n{traceback.format_exc()}"
    finally:
        os.chdir(old)
        shutil.rmtree(tmp, ignore_errors=True)
    return res


def _fuzz_worker(args):
    """Coverage-guided shard: a fresh interpreter running pbt.fuzz (atheris takes over the process and never
    returns), summarised through a JSON file."""
    import re
    import subprocess
    _, prop, facet_name, tier, shard, nshards, base_seed, runs = args
    t0 = time.time()
    name = f"fuzz:{facet_name}"
    os.makedirs(os.path.join(OUT, "tmp"), exist_ok=True)
    fd, outp = tempfile.mkstemp(prefix=f"{prop}-{facet_name}-fuzz-{shard}-", suffix=".json", dir=os.path.join(OUT, "tmp"))
    os.close(fd)
    os.unlink(outp)
    fseed = H.seed_for(base_seed, prop, name, shard) % (2 ** 31 - 1) + 1
    res = {"facet": name, "shard": shard}
    try:
        r = subprocess.run([sys.executable, "-m", "pbt.fuzz", prop, facet_name, "--runs", str(max(50, runs // nshards)),
                            "--seed", str(fseed), "--out", outp], cwd=H.VERIF, capture_output=True, text=True)
        doc = None
        if os.path.exists(outp):
            with open(outp) as f:
                doc = json.load(f)
        if doc is None or r.returncode not in (0, 1) or (r.returncode == 1 and not doc.get("replay")):
            res["harness_error"] = (f"pbt.fuzz exit {r.returncode}: " + ((doc or {}).get("message") or "") +
                                    r.stdout[-800:] + r.stderr[-1500:])
            return res
        cov = re.findall(r"cov: (\d+) ft: (\d+)", r.stderr)
        extra = dict(doc.get("extra") or {})
        extra.update(fuzz_buffers=doc["buffers"], fuzz_undecodable=max(0, doc["undecodable"]))
        if cov:
            extra["fuzz_edges_covered_max_over_shards"] = int(cov[-1][0])
            extra["fuzz_features_max_over_shards"] = int(cov[-1][1])
        res.update(evaluations=doc["evaluations"], nontrivial=doc["nontrivial"], tags=doc["tags"], samples=doc["samples"],
                   truncated=False, extra=extra, wall=time.time() - t0, hseed=fseed, lines={})
        if r.returncode == 1:
            # keep one replay file per shard
            path = os.path.join(OUT, "replays", f"{prop}-{facet_name}-fuzz-s{base_seed}-{shard}.json")
            os.replace(doc["replay"], path)
            res["failure"] = {"replay": path, "message": doc.get("message") or "", "bucket": "fuzz"}
    except Exception as e:  # noqa: BLE001
        res["harness_error"] = f"{type(e).__name__}: {e}\n{traceback.format_exc()}"
    finally:
        if os.path.exists(outp):
            os.unlink(outp)
    return res


def _dispatch(task):
    return _fuzz_worker(task) if task[0] == "fuzz" else _worker(task)


def _child(task, outpath, journal_path):
    """One task = one fresh forked process (so a crash of the interpreter inside the code under test - a C library
    calling exit(), a segmentation fault - costs one shard, is noticed, and cannot hang the run)."""
    import pickle
    H.JOURNAL = journal_path
    res = _dispatch(task)
    with open(outpath + ".tmp", "wb") as f:
        pickle.dump(res, f, protocol=4)
    os.replace(outpath + ".tmp", outpath)
    sys.stdout.flush()
    os._exit(0)


def _isolated_replay(facet, case, tmp):
    """--replay runs the case in a forked child: a case that makes the code under test terminate the interpreter
    (the 'process died' violations of run_tasks) is reported as a violation again instead of killing the CLI."""
    import pickle
    ctx = mp.get_context("fork")
    outpath = os.path.join(tmp, "replay-result.pkl")

    def child():
        try:
            r = ("ok", H.run_replay(facet, case))
        except H.HarnessError as e:
            r = ("harness", str(e))
        with open(outpath, "wb") as f:
            pickle.dump(r, f)
        sys.stdout.flush()
        os._exit(0)

    p = ctx.Process(target=child)
    p.start()
    p.join()
    if not os.path.exists(outpath):
        return (f"the process died ({_describe_exit(p.exitcode)}) while the code under test evaluated this case: the "
                f"interpreter was terminated (C-level exit / crash) instead of returning a value or raising")
    with open(outpath, "rb") as f:
        kind, val = pickle.load(f)
    if kind == "harness":
        raise H.HarnessError(val)
    return val


def _describe_exit(code):
    if code is None:
        return "still running"
    if code < 0:
        import signal
        try:
            return f"killed by signal {signal.Signals(-code).name}"
        except ValueError:
            return f"killed by signal {-code}"
    return f"exit status {code}"


def run_tasks(tasks, nproc, prop, facets, base_seed, tier):
    """Process scheduler replacing multiprocessing.Pool.map (which waits forever when a worker dies mid-task).

    A worker that dies without delivering a result is re-run once in journal mode (harness.JOURNAL: every case is
    written to a file before it is evaluated).  If it dies again, the journalled case is the input on which the code
    under test terminated the interpreter: it is saved as a replay file and reported as a violation (every listed
    property promises a value or a clean exception for the inputs generated).  If the re-run survives, the death was not
    reproducible (e.g. an out-of-memory kill on a loaded machine): harness error, never a violation.  A task that
    exceeds VERIF_TASK_TIMEOUT seconds of wall clock (default: quick 3600, thorough 8 h) is killed and reported as a
    harness error ("inconclusive"), never as a violation."""
    import pickle
    from multiprocessing.connection import wait as mp_wait
    ctx = mp.get_context("fork")
    limit = float(os.environ.get("VERIF_TASK_TIMEOUT", "3600" if tier == "quick" else "28800"))
    scratch = tempfile.mkdtemp(prefix=f"{prop}-sched-", dir=os.path.join(OUT, "tmp"))
    results = [None] * len(tasks)
    pending = [(i, False) for i in range(len(tasks))]
    running = {}       # sentinel -> (proc, index, journal?, outpath, journal_path, t_start)

    def name_of(task):
        return (f"fuzz:{task[2]}", task[4]) if task[0] == "fuzz" else (task[1], task[3])

    try:
        while pending or running:
            while pending and len(running) < nproc:
                i, jmode = pending.pop(0)
                outpath = os.path.join(scratch, f"res-{i}-{int(jmode)}.pkl")
                jpath = os.path.join(scratch, f"journal-{i}.pkl") if jmode else None
                p = ctx.Process(target=_child, args=(tasks[i], outpath, jpath))
                p.start()
                running[p.sentinel] = (p, i, jmode, outpath, jpath, time.time())
            ready = mp_wait(list(running), timeout=5.0)
            now = time.time()
            for sent, (p, i, jmode, outpath, jpath, t_start) in list(running.items()):
                if sent not in ready:
                    if now - t_start > limit:
                        p.kill()
                        p.join()
                        del running[sent]
                        fname, shard = name_of(tasks[i])
                        results[i] = {"facet": fname, "shard": shard,
                                      "harness_error": f"inconclusive: shard exceeded the wall-clock limit of {limit:.0f} s "
                                                       f"(VERIF_TASK_TIMEOUT) and was stopped"}
                    continue
                p.join()
                del running[sent]
                fname, shard = name_of(tasks[i])
                if os.path.exists(outpath):
                    with open(outpath, "rb") as f:
                        results[i] = pickle.load(f)
                    continue
                how = _describe_exit(p.exitcode)
                if tasks[i][0] == "fuzz":
                    results[i] = {"facet": fname, "shard": shard, "harness_error": f"fuzz shard died ({how})"}
                elif not jmode:
                    print(f"NOTE property={prop} facet={fname} shard={shard}: worker process died ({how}); "
                          f"re-running the shard in journal mode", flush=True)
                    pending.insert(0, (i, True))
                elif jpath and os.path.exists(jpath):
                    with open(jpath, "rb") as f:
                        case = pickle.load(f)
                    facet = facets[fname]
                    path = os.path.join(OUT, "replays", f"{prop}-{fname}-s{base_seed}-{shard}-died.json")
                    msg = (f"the process died ({how}) while the code under test evaluated this case: the interpreter "
                           f"was terminated (C-level exit / crash) instead of returning a value or raising")
                    H.dump_replay(path, prop, facet, case, msg, base_seed)
                    results[i] = {"facet": fname, "shard": shard, "evaluations": 0, "nontrivial": [], "tags": {},
                                  "samples": [], "truncated": False, "extra": {"worker_died": 1}, "wall": now - t_start,
                                  "lines": {}, "failure": {"replay": path, "message": msg, "bucket": "process-died"}}
                else:
                    results[i] = {"facet": fname, "shard": shard,
                                  "harness_error": f"worker died twice ({how}) before evaluating any case"}
            # a journal re-run that SURVIVED delivered an ordinary result; note the non-reproducible death
        for i, r in enumerate(results):
            if r is None:
                fname, shard = name_of(tasks[i])
                results[i] = {"facet": fname, "shard": shard, "harness_error": "no result"}
    finally:
        for p, *_ in running.values():
            try:
                p.kill()
            except Exception:  # noqa: BLE001
                pass
        shutil.rmtree(scratch, ignore_errors=True)
    return results


MAX_KEYS = ("fuzz_edges_covered_max_over_shards", "fuzz_features_max_over_shards")


def load_known(prop):
    if not os.path.exists(KNOWN):
        return []
    with open(KNOWN) as f:
        doc = json.load(f)
    return [e for e in doc.get("findings", []) if e.get("property") == prop]


def run_committed_replays(prop, facets):
    """Seconds-long regression tier: every committed replay must pass."""
    results = []
    for path in sorted(glob.glob(os.path.join(H.VERIF, "replays", prop, "*.json"))):
        doc = H.load_replay(path)
        facet = facets.get(doc["facet"])
        if facet is None:
            raise H.HarnessError(f"replay {path} names unknown facet {doc['facet']}")
        tmp = tempfile.mkdtemp(prefix=f"{prop}-replay-", dir=os.path.join(OUT, "tmp"))
        old = os.getcwd()
        os.chdir(tmp)
        try:
            msg = H.run_replay(facet, doc["case"])
        finally:
            os.chdir(old)
            shutil.rmtree(tmp, ignore_errors=True)
        results.append((path, msg))
    return results


def main(argv=None):
    argv = list(sys.argv[1:] if argv is None else argv)
    if len(argv) < 2 and "--replay" not in argv:
        print(__doc__)
        return 2
    prop = argv[0].upper()
    tier = "quick"
    replay = None
    only = None
    n_override = None
    i = 1
    while i < len(argv):
        a = argv[i]
        if a in ("quick", "thorough"):
            tier = a
        elif a == "--replay":
            replay = argv[i + 1]
            i += 1
        elif a == "--facet":
            only = argv[i + 1].split(",")
            i += 1
        elif a == "--n":
            n_override = int(argv[i + 1])
            i += 1
        i += 1
    tier = os.environ.get("VERIF_TIER", tier) if tier not in ("quick", "thorough") else tier
    base_seed = int(os.environ.get("VERIF_SEED", "1") or "1")
    os.makedirs(os.path.join(OUT, "tmp"), exist_ok=True)
    os.makedirs(EVID, exist_ok=True)
    t0 = time.time()

    try:
        mod, facets = load_facets(prop)
    except Exception as e:  # noqa: BLE001
        if H.exception_from_cut(e) or (isinstance(e, ImportError) and "PyMatterSim" in str(e)):
            # the code under test cannot even be imported: the property cannot hold
            path = os.path.join(OUT, "replays", f"{prop}-import.json")
            os.makedirs(os.path.dirname(path), exist_ok=True)
            with open(path, "w") as f:
                json.dump({"property": prop, "facet": "<import>", "message": traceback.format_exc()}, f)
            print(f"VIOLATION property={prop} replay={path}")
            print(traceback.format_exc())
            return 1
        print(f"HARNESS-ERROR property={prop}: cannot load facets\n{traceback.format_exc()}")
        return 2

    if replay:
        doc = H.load_replay(replay)
        facet = facets[doc["facet"]]
        tmp = tempfile.mkdtemp(prefix=f"{prop}-replay-", dir=os.path.join(OUT, "tmp"))
        os.chdir(tmp)
        try:
            msg = _isolated_replay(facet, doc["case"], tmp)
        except H.HarnessError as e:
            print(f"HARNESS-ERROR property={prop}: {e}")
            return 2
        finally:
            os.chdir(H.VERIF)
            shutil.rmtree(tmp, ignore_errors=True)
        if msg is None:
            print(f"replay passes: property={prop} facet={doc['facet']}")
            return 0
        print(f"VIOLATION property={prop} replay={os.path.abspath(replay)}")
        print(msg)
        return 1

    violations = []
    harness_errors = []
    # 1. committed regression replays
    try:
        rep = run_committed_replays(prop, facets)
    except H.HarnessError as e:
        print(f"HARNESS-ERROR property={prop}: {e}")
        return 2
    for path, msg in rep:
        if msg is not None:
            violations.append((path, f"[committed replay] {msg}"))

    # 2. generated search
    nproc = int(os.environ.get("VERIF_PROCS", "16"))
    tasks = []
    for name, facet in facets.items():
        if only and name not in only:
            continue
        if facet.kind != "enum" and (facet.quick if tier == "quick" else facet.thorough) <= 0:
            continue        # facet not part of this tier (e.g. a very large configuration: thorough only)
        if tier == "thorough" and facet.kind != "enum":
            ns = facet.shards_thorough or 16
        elif facet.kind != "enum":
            ns = facet.shards_quick
        else:
            ns = 1
        for s in range(ns):
            tasks.append((prop, name, tier, s, ns, base_seed, n_override))
    # coverage-guided shards (atheris) for the facets a module lists in FUZZ = {facet: {"quick": runs, "thorough": runs}}
    fuzz_cfg = getattr(mod, "FUZZ", {}) if os.environ.get("VERIF_NO_FUZZ", "0") != "1" else {}
    if fuzz_cfg and not os.path.isdir(os.path.join(H.VERIF, ".deps", "atheris")):
        print(f"NOTE property={prop}: atheris is not installed under /verif/.deps (./setup.sh); coverage-guided shards skipped")
        fuzz_cfg = {}
    for name, cfg in fuzz_cfg.items():
        if only and name not in only and f"fuzz:{name}" not in only:
            continue
        runs = cfg.get(tier, 0)
        if n_override:
            runs = min(runs, n_override)
        if runs <= 0:
            continue
        ns = cfg.get("shards_" + tier, 1 if tier == "quick" else 4)
        for s in range(ns):
            tasks.append(("fuzz", prop, name, tier, s, ns, base_seed, runs))
    # longest first is unknown; interleave facets so shards of one facet do not serialise
    results = run_tasks(tasks, min(nproc, max(1, len(tasks))), prop, facets, base_seed, tier)

    per_facet = {}
    for r in results:
        if r.get("skipped"):
            continue
        if "harness_error" in r:
            harness_errors.append((r["facet"], r["harness_error"]))
            continue
        pf = per_facet.setdefault(r["facet"], {"evaluations": 0, "nontrivial": set(), "tags": {}, "samples": [],
                                                "truncated": False, "extra": {}, "wall": 0.0, "lines": {}})
        for fn, lns in r.get("lines", {}).items():
            pf["lines"].setdefault(fn, set()).update(lns)
        pf["evaluations"] += r["evaluations"]
        pf["nontrivial"].update(r["nontrivial"])
        for k, v in r["tags"].items():
            pf["tags"][k] = pf["tags"].get(k, 0) + v
        for k, v in r["extra"].items():
            pf["extra"][k] = max(pf["extra"].get(k, 0), v) if k in MAX_KEYS else pf["extra"].get(k, 0) + v
        if len(pf["samples"]) < 3:
            pf["samples"].extend(r["samples"][: 3 - len(pf["samples"])])
        pf["truncated"] = pf["truncated"] or r["truncated"]
        pf["wall"] = max(pf["wall"], r["wall"])
        if "failure" in r:
            violations.append((r["failure"]["replay"], f"[{r['facet']}] {r['failure']['message']}"))

    # 3. known findings: status "known" entries name one pinned failing input (replay) and the failure it shows.
    #    The pinned input is re-run with the exclusion switched off (H.STRICT): it must still fail in the listed way
    #    (-> KNOWN-FINDING line, exit code unaffected); a different failure on it is a VIOLATION.  Entries with status
    #    "fixed" suppress nothing.
    import re
    known = [k for k in load_known(prop) if k.get("status") == "known"]
    known_report = []
    for k in known:
        rp = os.path.join(H.VERIF, k["replay"])
        try:
            doc = H.load_replay(rp)
            facet = facets[doc["facet"]]
            tmp = tempfile.mkdtemp(prefix=f"{prop}-known-", dir=os.path.join(OUT, "tmp"))
            old_cwd = os.getcwd()
            os.chdir(tmp)
            H.STRICT = True
            try:
                msg = H.run_replay(facet, doc["case"])
            finally:
                H.STRICT = False
                os.chdir(old_cwd)
                shutil.rmtree(tmp, ignore_errors=True)
        except H.HarnessError as e:
            harness_errors.append((f"known:{k.get('id')}", str(e)))
            continue
        if msg is None:
            print(f"NOTE property={prop} known finding {k.get('id')} no longer reproduces on its pinned input ({k['replay']})")
            known_report.append({"id": k.get("id"), "reproduced": False})
        elif re.search(k["expect"], msg):
            print(f"KNOWN-FINDING: property={prop} {k.get('id')}: {k.get('what', '')} [pinned input {k['replay']}]")
            known_report.append({"id": k.get("id"), "reproduced": True})
        else:
            violations.append((rp, f"[known finding {k.get('id')}: pinned input fails differently] {msg}"))

    wall = time.time() - t0
    evaluations = sum(p["evaluations"] for p in per_facet.values())
    nontrivial = sum(len(p["nontrivial"]) for p in per_facet.values())
    samples = []
    for name, p in per_facet.items():
        for s in p["samples"][:2]:
            samples.append({"facet": name, "case": s})
    def base_facet(name):
        return facets[name[5:]] if name.startswith("fuzz:") else facets[name]

    def kind_of(name):
        return "fuzz (atheris/libFuzzer coverage-guided bytes -> same strategy and oracle)" if name.startswith("fuzz:") \
            else facets[name].kind

    rules = "; ".join(f"{name}: {base_facet(name).rule}" for name in per_facet if base_facet(name).rule)
    evidence = {
        "property_id": prop,
        "tier": tier,
        "seed": base_seed,
        "level": "exploration",
        "coverage": {
            "evaluations": evaluations,
            "distinct_nontrivial": nontrivial,
            "rule": (getattr(mod, "RULE", "") + " | per facet: " + rules)[:6000],
            "samples": samples[:40],
            "exhaustive": False,
            "facets": {
                name: {
                    "kind": kind_of(name),
                    "evaluations": p["evaluations"],
                    "distinct_nontrivial": len(p["nontrivial"]),
                    "classes": dict(sorted(p["tags"].items())),
                    "extra": p["extra"],
                    "truncated": p["truncated"],
                    "exhaustive": kind_of(name) == "enum",
                    "wall_s": round(p["wall"], 2),
                    "cut_lines_executed_in_first_cases": {fn: H.compress_lines(l) for fn, l in sorted(p["lines"].items())
                                                          if not fn.endswith(("logging.py", "__init__.py"))},
                }
                for name, p in per_facet.items()
            },
            "committed_replays_run": len(rep),
            "known_findings": known_report,
            "truncated": any(p["truncated"] for p in per_facet.values()),
        },
        "assumptions": list(getattr(mod, "ASSUMPTIONS", [])),
        "wall_s": round(wall, 2),
        "violations": len(violations),
    }
    with open(os.path.join(EVID, f"{prop}.json"), "w") as f:
        json.dump(evidence, f, indent=1, default=str)

    for name, p in per_facet.items():
        print(f"  {prop}.{name}: {p['evaluations']} cases, {len(p['nontrivial'])} distinct non-trivial"
              f"{' (truncated by wall-clock budget)' if p['truncated'] else ''} [{p['wall']:.1f}s]")
    if harness_errors:
        for name, msg in harness_errors:
            print(f"HARNESS-ERROR property={prop} facet={name}: {msg}")
    if violations:
        for path, msg in violations:
            print(f"VIOLATION property={prop} replay={path}")
            print("    " + msg.replace("\n", "\n    ")[:3000])
        return 1
    if harness_errors:
        return 2
    print(f"OK property={prop} tier={tier} seed={base_seed} cases={evaluations} nontrivial={nontrivial} wall={wall:.1f}s")
    return 0


if __name__ == "__main__":
    sys.exit(main())
