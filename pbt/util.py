"""Comparison helpers that turn malformed / wrong outputs into Violations (never harness errors)."""
from __future__ import annotations

import numpy as np

from .harness import Violation


def require(cond, msg):
    if not cond:
        raise Violation(msg() if callable(msg) else msg)


def arr(name, x, shape=None, ndim=None):
    """Coerce a CUT output to ndarray; wrong type/shape is a Violation."""
    try:
        a = np.asarray(x)
    except Exception as e:  # noqa: BLE001
        raise Violation(f"{name}: cannot be viewed as an array ({e})")
    if a.dtype == object:
        raise Violation(f"{name}: object-dtype / ragged output {x!r:.200}")
    if ndim is not None and a.ndim != ndim:
        raise Violation(f"{name}: expected {ndim}-d array, got shape {a.shape}")
    if shape is not None and tuple(a.shape) != tuple(shape):
        raise Violation(f"{name}: expected shape {tuple(shape)}, got {a.shape}")
    return a


def close(name, got, want, rtol=1e-9, atol=1e-12, equal_nan=False):
    want = np.asarray(want)
    g = arr(name, got, shape=want.shape)
    if g.size == 0:
        return
    bad = ~np.isclose(g, want, rtol=rtol, atol=atol, equal_nan=equal_nan)
    if bad.any():
        idx = np.argwhere(bad)[0]
        ti = tuple(int(i) for i in idx)
        err = np.abs(np.asarray(g, dtype=complex) - np.asarray(want, dtype=complex))
        raise Violation(
            f"{name}: {int(bad.sum())}/{g.size} entries differ (rtol={rtol}, atol={atol}); first at {ti}: "
            f"got {g[ti]!r}, want {want[ti]!r}; max |diff| = {np.nanmax(err):.3e}")


def equal(name, got, want):
    want = np.asarray(want)
    g = arr(name, got, shape=want.shape)
    if not np.array_equal(g, want):
        bad = np.argwhere(g != want)
        ti = tuple(int(i) for i in bad[0])
        raise Violation(f"{name}: {len(bad)}/{g.size} entries differ; first at {ti}: got {g[ti]!r}, want {want[ti]!r}")


def between(name, got, lo, hi, slack=0.0):
    lo = np.asarray(lo, dtype=float)
    hi = np.asarray(hi, dtype=float)
    g = arr(name, got, shape=lo.shape)
    tol_lo = slack * (1 + np.abs(lo))
    tol_hi = slack * (1 + np.abs(hi))
    bad = (g < lo - tol_lo) | (g > hi + tol_hi) | ~np.isfinite(g)
    if bad.any():
        ti = tuple(int(i) for i in np.argwhere(bad)[0])
        raise Violation(f"{name}: {int(bad.sum())}/{g.size} entries outside the reference interval; first at {ti}: "
                        f"got {g[ti]!r}, allowed [{lo[ti]!r}, {hi[ti]!r}]")


def columns(name, df, want):
    try:
        got = [str(c) for c in df.columns]
    except Exception as e:  # noqa: BLE001
        raise Violation(f"{name}: result has no columns ({type(df).__name__}: {e})")
    if got != list(want):
        raise Violation(f"{name}: columns {got} != expected {list(want)}")


def col(name, df, c):
    try:
        return np.asarray(df[c].values)
    except Exception as e:  # noqa: BLE001
        raise Violation(f"{name}: column {c!r} missing ({e})")
