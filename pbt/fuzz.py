"""Coverage-guided tier:  python -m pbt.fuzz <ID> <facet> --runs N --seed S --out FILE

atheris (libFuzzer for Python) mutates the byte stream that feeds the facet's Hypothesis strategy
(`test.hypothesis.fuzz_one_input`), with every module of the code under test instrumented for edge coverage, so
the search is steered towards inputs that execute new branches of PyMatterSim.  The oracle is the facet's own
`check` (the same reference-model / round-trip comparison as in the random tier): a fuzz target that only waits
for crashes would check nothing the properties state.

A buffer that does not decode into a complete case (Hypothesis runs out of bytes / rejects) is counted as
`undecodable`, not as a case.  On the first Violation the concrete case is written as a normal replay file (so
`./check <ID> --replay <file>` re-runs it without atheris or Hypothesis) and the process exits 1; harness errors
exit 2.  libFuzzer's `-seed` pins a campaign only approximately; the saved case is the reproducible unit.
"""
from __future__ import annotations

import importlib
import json
import os
import shutil
import sys
import tempfile
import time

VERIF = os.path.dirname(os.path.dirname(os.path.abspath(__file__)))
DEPS = os.path.join(VERIF, ".deps")
if DEPS not in sys.path:
    sys.path.insert(0, DEPS)

from . import harness as H  # noqa: E402  (puts the code under test first on sys.path)


def main(argv=None):
    argv = list(sys.argv[1:] if argv is None else argv)
    prop, facet_name = argv[0].upper(), argv[1]
    runs, seed, out, max_len, nseeds = 2000, 1, None, 16384, 48
    i = 2
    while i < len(argv):
        if argv[i] == "--runs":
            runs = int(argv[i + 1]); i += 1
        elif argv[i] == "--seed":
            seed = int(argv[i + 1]); i += 1
        elif argv[i] == "--out":
            out = argv[i + 1]; i += 1
        elif argv[i] == "--seeds":
            nseeds = int(argv[i + 1]); i += 1
        elif argv[i] == "--max-len":
            max_len = int(argv[i + 1]); i += 1
        i += 1
    try:
        import atheris
    except Exception as e:  # noqa: BLE001
        print(f"HARNESS-ERROR property={prop}: atheris not importable ({e}); run ./setup.sh")
        return 2

    with atheris.instrument_imports(include=["PyMatterSim"], enable_loader_override=False):
        mod = importlib.import_module(f"pbt.props.{prop.lower()}")
    facet = {f.name: f for f in mod.FACETS}[facet_name]
    if facet.kind != "fn":
        print(f"HARNESS-ERROR property={prop}: facet {facet_name} is not a strategy/check facet")
        return 2

    from hypothesis import HealthCheck, given, settings

    rec = H.Recorder(1e9)
    state = {"buffers": 0, "t0": time.time(), "status": "running", "replay": None, "message": None}
    base = os.path.join(VERIF, "out", "tmp")
    os.makedirs(base, exist_ok=True)
    work = tempfile.mkdtemp(prefix=f"{prop}-{facet_name}-fuzz-", dir=base)
    corpus = os.path.join(work, "corpus")
    cwd = os.path.join(work, "cwd")
    os.makedirs(corpus)
    os.makedirs(cwd)
    # Seed corpus: an empty corpus gives libFuzzer no coverage signal until some buffer decodes into a complete case,
    # and short buffers never do for the larger strategies.  Long pseudo-random buffers (a pure function of --seed)
    # decode into ordinary random cases; libFuzzer then mutates / crosses them under coverage feedback.
    import random
    prng = random.Random(seed)
    for k in range(nseeds):
        with open(os.path.join(corpus, f"seed{k:03d}"), "wb") as f:
            f.write(prng.randbytes(prng.choice([256, 1024, 4096, max_len])))
    os.chdir(cwd)

    @settings(database=None, deadline=None, suppress_health_check=list(HealthCheck))
    @given(facet.strategy)
    def test(case):
        try:
            info = H.guarded_check(facet.check, case)
        except H.Violation as v:
            rec.note_failure(case, str(v), getattr(v, "bucket", "oracle"))
            raise
        rec.record(case, info, facet.describe)

    fuzz_one = test.hypothesis.fuzz_one_input

    def summary():
        if out is None:
            return
        doc = {"facet": facet_name, "buffers": state["buffers"], "evaluations": rec.evaluations,
               "undecodable": state["buffers"] - rec.evaluations - (1 if rec.failure else 0),
               "nontrivial": sorted(rec.nontrivial), "tags": rec.tags, "samples": rec.samples, "extra": rec.extra,
               "wall": time.time() - state["t0"], "status": state["status"], "replay": state["replay"],
               "message": state["message"], "seed": seed, "runs_requested": runs}
        tmp = out + ".tmp"
        with open(tmp, "w") as f:
            json.dump(doc, f, default=str)
        os.replace(tmp, out)

    def finish(code):
        summary()
        sys.stdout.flush()
        sys.stderr.flush()
        os.chdir(VERIF)
        shutil.rmtree(work, ignore_errors=True)
        os._exit(code)

    def one(data):
        state["buffers"] += 1
        try:
            fuzz_one(data)
        except H.Violation as v:
            case, msg, _ = rec.failure if rec.failure else (None, str(v), None)
            path = os.path.join(VERIF, "out", "replays", f"{prop}-{facet_name}-fuzz-s{seed}.json")
            H.dump_replay(path, prop, facet, case, msg, seed)
            state.update(status="violation", replay=path, message=msg)
            finish(1)
        except H.HarnessError as e:
            state.update(status="harness_error", message=str(e))
            finish(2)
        except BaseException as e:  # noqa: BLE001 - hypothesis internals etc.
            state.update(status="harness_error", message=f"{type(e).__name__}: {e}")
            finish(2)
        if state["buffers"] >= runs:
            state["status"] = "done"
            finish(0)
        if state["buffers"] % 250 == 0:
            summary()

    args = [sys.argv[0], f"-runs={runs + 1000}", f"-seed={seed}", f"-max_len={max_len}", "-len_control=0",
            "-print_final_stats=1", "-rss_limit_mb=4096", corpus]
    atheris.Setup(args, one)
    atheris.Fuzz()
    state["status"] = "done"
    finish(0)


if __name__ == "__main__":
    sys.exit(main())
