"""C15 — vector-field measures and the longitudinal/transverse split.

Facets
  field_measures   participation ratio (formula, bounds [1/N,1], scale invariance, uniform -> 1, one particle -> 1/N),
                   local alignment (mean neighbour dot product), phase quotient (formula, [-1,1], uniform -> 1);
                   d 1..3, N 1..60, cn up to 30; second round on the same field array / file name (round 3)
  divergence_curl  neighbour averages of r_ij.u_ij and r_ij x u_ij with the reference minimum image (C02 contract) on
                   generated cells (orthogonal, tilted, axis-permuted tilted = general matrix) / masks / synthetic lists;
                   matrix-form value tr(A M_i) for linear fields u = A r + b in open boundaries
  linear_lattice   rectangular lattices with the 2d axis neighbours, open boundaries, u = A r + b: interior particles
                   give div = (1/d) sum_k a_k^2 A_kk and curl_a = (1/d) eps_abc a_b^2 A_cb (closed form)
  vibrability      eigenvalue-weighted mode sum; for the full spectrum of a symmetric positive definite matrix the
                   result is the per-particle block trace of its inverse; integer-typed frequencies / vectors, N to 40
  decomposition    vector_decomposition_sq: Fourier sums against an independent reference, L || q, q.T = 0, L + T = F,
                   Sq = Sq_L + Sq_T, per-|q| averages, csv side file; tolerances derived from the rounding at 8 decimals;
                   1..12 wave vectors, and lists of 60..300 (round 3), N to 200
  fft_corr         vector_fft_corr: frame-averaged spectra (csv), per-q correlations of FFT / T_FFT / L_FFT against a
                   compact reference of property C14, time axis, `.npy` side files equal to the returned tables; 1..5
                   frames; even / uneven schedules, one frame written twice, one step back (round 3)
  fft_corr_long    the same with 6..12 frames (thorough tier mostly)

CLAUSES (statement + quantifier, split; tags are the class tags of evidence/C15.json, coverage.facets.*.classes)
  clause / axis                              decided by                                     populated classes
  1 any vector field                         every facet draws the field                    field-uniform -one -localised -random -integer
                                                                                            -linear -wave-L -wave-T; dtype-int64 /
                                                                                            field-dtype-int64; layout-C -F -strided; d1 d2 d3
  2 any configuration                        divergence_curl / decomposition                ortho tri general; tilt-negative -positive
                                                                                            -mixed-sign; mask-full -partial -open; inside
                                                                                            outside; image-needed; cubic unequal-edges;
                                                                                            origin-*; N<=20 N25-60 N>=60
  3 any neighbour list                       field_measures / divergence_curl               cn-varies cn-constant cn=1-present cn-max>6; lists-directed;
                                                                                            rows-shuffled; p0-padded-row; file-style-plain
                                                                                            -padded -tight; two-frame-file /
                                                                                            file-has-a-later-frame (lists are directed)
  4 PR = (sum|e|^2)^2/(N sum|e|^4)           close(rtol 1e-10) vs reference                 N1 N<=4 N<=10 N<=20 N25-60
    in [1/N, 1]; scale invariant             bounds; PR(c e) = PR(e), c of either sign
  5 alignment = mean neighbour dot product   close vs reference, every particle             second-round-same-file-name (WAS: one call per
                                                                                            file name; NOW lists rewritten under the name)
  6 phase quotient in [-1, 1]                bounds + formula sum / sum|.|                  pq-checked pq-mixed-signs pq-undefined
  7 divergence / curl = neighbour averages   both outputs vs reference (2D: array only,     d2 d3; analytic-linear; second-call-retilt
                                             3D: pair), closed forms for u = A r            -rescale; WAS lower-triangular cells only
  8 vibrability = eigenvalue-weighted sum    close vs reference; SPD block-trace identity   all-modes subset-of-modes neg-freq; freq-int64
                                                                                            vecs-int64; N1 N>1 N20-40
  9 L parallel q, T orthogonal q, L + T = F  identities on the returned columns + each      nq1 nq<=12 nq>=60 (WAS <= 12); q-int32;
    S = S_L + S_T for every wave vector      column vs independent Fourier sum              multi-q-groups; L-dominated-q T-dominated-q;
                                                                                            name-ends-with-.csv (WAS never)
 10 multi-frame series (correlation variant) per-q correlations vs C14 reference, time axis frames1..5, frames6-12 (WAS 2..5); schedule-even
                                             from the timestep lines, spectra = frame mean  -uneven -repeated-frame -step-back -single-frame;
                                                                                            keywords-omitted-dt -outputfile -both (WAS
                                                                                            always passed)
  Not asserted: more than 200 neighbours per particle (documented cap, which 200 is unspecified); triclinic cells in
  the Fourier part (the routine uses boxlength only); float32 fields; a box that changes between the frames of a series.
"""
from __future__ import annotations

import os
import warnings

import numpy as np
import pandas as pd
from hypothesis import strategies as st
from hypothesis.extra import numpy as hnp

from ..gen import cell_st, config_st, fl, frac_st, nice_float, snapshot_from
from ..harness import Facet, Violation
from ..ref import cgref, vecref
from ..util import arr, close, col, equal, require

from PyMatterSim.reader.reader_utils import Snapshots
from PyMatterSim.static.vector import (divergence_curl, local_vector_alignment, participation_ratio, phase_quotient,
                                       vector_decomposition_sq, vector_fft_corr, vibrability)

RULE = ("fields {uniform, one-particle, localised, random, integer-valued, linear u = A r + b, plane waves along / across q} "
        "as float64 or int64, C / Fortran / strided layout x N 1-60 (lattices up to 45, Fourier part up to 200) x d {1,2,3} x "
        "synthetic directed neighbour files (cn 1..30 varying within the frame, rows in any order, three text styles, "
        "optional later frame) x cells {ortho, tri, axis-permuted tri} x masks x non-zero integer wave vectors (1..12, or "
        "60..300 rows; int64 / int32) x 1-12 frames with even / uneven timesteps, a frame written twice, a step back. "
        "Coordination number varying within a frame (padded rows); second call of the measures / divergence_curl / "
        "vector_decomposition_sq on the same snapshot, field and file objects after an in-place change (re-tilted or "
        "rescaled cell, new positions, field, lists rewritten under the same name); keywords omitted. Non-trivial rules "
        "per facet.")
ASSUMPTIONS = [
    "every particle has >= 1 listed neighbour (the measures divide by the coordination number); lists hold distinct "
    "particles other than the centre; at most 30 neighbours (documented cap: 200)",
    "fields are real (float64, or integer-valued int64) and not identically zero; the phase quotient is only asserted "
    "when sum |e_i.e_j| > 0",
    "memory layout carries no meaning: a Fortran-ordered field or a strided view into a wider table is the same field",
    "divergence/curl: particles with a neighbour on a half-cell minimum-image tie are not compared; the cell is "
    "snapshot.hmatrix, any invertible matrix (generated: LAMMPS lower-triangular cells and their axis permutations)",
    "neighbour file: the FIRST frame of the file is the list (the routines open the file themselves)",
    "Fourier part: orthogonal cells (q = 2 pi n / L), identical box in all frames of a series; either sign convention "
    "of the transform is accepted (docs/sq.md: exp(-iq.r), docs/vectors.md: exp(+iq.r)) as long as all columns agree",
    "the library rounds its tables at 8 decimals (twice for the split): tolerances are the propagated bounds "
    "eta = sqrt(2d) 5e-9 and eps_q = (sqrt(d)+1) 5e-9/|q| (unit vector built from rounded q columns), not tuned numbers",
    "per-|q| averages are only compared when distinct |q| values are separated by more than 1e-7",
    "correlations with a lag-zero value not safely above its rounding error are skipped (counted as ill-conditioned)",
    "series: one snapshot per frame in the order given; 'evenly spaced' = all timestep differences equal (property C14), "
    "so a repeated or decreasing timestep makes the series uneven (first frame = only origin); time axis = "
    "(timestep - first timestep) dt with the documented default dt = 0.002",
]
MANIFEST = {
    "text": "participation ratio, local alignment, phase quotient, divergence/curl, vibrability obey their formulas, "
            "bounds and analytic values for linear fields; the Fourier split returns L parallel and T orthogonal to q "
            "with L + T = F and Sq = Sq_L + Sq_T and agrees with an independent Fourier sum; vector_fft_corr spectra "
            "and per-q correlations agree with a reference of the origin-averaged normalised autocorrelation; side "
            "files equal the returned tables; integer-typed / Fortran-ordered / strided fields, general cell matrices, "
            "long wave-vector lists, repeated calls on the same objects and irregular frame schedules included",
    "note": "references in pbt/ref/vecref.py (numpy only), minimum image = contract of C02; N <= 60 (lattices <= 45, "
            "Fourier part <= 200), <= 300 wave vectors, T <= 12; tolerances propagated from the library's rounding at 8 "
            "decimals",
    "technique": "property-based testing (Hypothesis): reference-model differential plus metamorphic / algebraic "
                 "identities (bounds, scale invariance, Pythagorean split, closed forms for linear fields)",
}

VAL = st.one_of(st.integers(-40, 40).map(lambda k: k / 4.0), fl(-10.0, 10.0))


# ----------------------------------------------------------------------------- shared small strategies


@st.composite
def lists_st(draw, N, cnmax=6):
    """Directed synthetic lists: cn in 1..cnmax drawn per particle (so it varies within the frame), distinct neighbours
    other than the centre, rows of the file in any order.  For more than 24 particles the bulk of the lists comes from
    a drawn seed (not shrunk)."""
    if N > 24:
        rng = np.random.default_rng(draw(st.integers(0, 2**32 - 1)))
        fr = []
        for i in range(N):
            cn = int(rng.integers(1, min(cnmax, N - 1) + 1))
            others = np.delete(np.arange(N), i)
            fr.append([int(j) for j in rng.permutation(others)[:cn]])
        order = [int(k) for k in (rng.permutation(N) if draw(st.booleans()) else range(N))]
        return fr, order
    fr = []
    for i in range(N):
        others = [j for j in range(N) if j != i]
        cn = draw(st.integers(1, min(cnmax, len(others))))
        perm = draw(st.permutations(others))
        fr.append([int(j) for j in perm[:cn]])
    order = [int(k) for k in (draw(st.permutations(range(N))) if draw(st.booleans()) else range(N))]
    return fr, order


LAYOUTS = ["C", "C", "C", "F", "strided"]


def with_layout(a, layout):
    """The same values in another memory layout: Fortran order (a transposed (d, N) table), or a strided view into a
    wider table (`data[:, 2:2+d]` of a dump with more columns).  Returns (array, keep-alive base)."""
    a = np.asarray(a)
    if layout == "F" and a.ndim >= 2:
        return np.asfortranarray(a), None
    if layout == "strided" and a.ndim >= 2:
        wide = np.full(a.shape[:-1] + (a.shape[-1] + 3,), 7, dtype=a.dtype)
        wide[..., 2:2 + a.shape[-1]] = a
        return wide[..., 2:2 + a.shape[-1]], wide
    return a.copy(), None


@st.composite
def field_st(draw, N, d, kinds=("uniform", "one", "localised", "random", "integer")):
    kind = draw(st.sampled_from(list(kinds)))
    if kind == "integer":
        # lattice spins / clock-model vectors / integer lattice displacements: integer-VALUED fields, which callers may
        # well hold in an integer-dtype array (seeded C15-D allocated the outputs with zeros_like(field): the neighbour
        # averages were truncated towards zero)
        e = draw(hnp.arrays(np.int64, (N, d), elements=st.integers(-3, 3), fill=st.nothing())).astype(float)
        if not e.any():
            e[0, 0] = 1.0
        return e, kind
    if kind == "uniform":
        v = draw(hnp.arrays(np.float64, (d,), elements=VAL, fill=st.nothing()))
        if not np.any(np.abs(v) >= 0.25):
            v[0] = 1.0
        e = np.tile(v, (N, 1))
    elif kind == "one":
        e = np.zeros((N, d))
        v = draw(hnp.arrays(np.float64, (d,), elements=VAL, fill=st.nothing()))
        if not np.any(np.abs(v) >= 0.25):
            v[-1] = -2.0
        e[draw(st.integers(0, N - 1))] = v
    else:
        e = draw(hnp.arrays(np.float64, (N, d), elements=VAL, fill=st.nothing()))
        if kind == "localised":
            e = e * 1e-3
            k = draw(st.integers(0, N - 1))
            e[k] = e[k] * 1e3 + 1.0
        if not np.any(np.abs(e) >= 1e-3):
            e[0, 0] = 1.0
    return e, kind


def write_lists(lists, order, extra_frame=None, name="nb.dat", style="plain", relative=False):
    frames, orders = [lists], [order]
    if extra_frame is not None:
        frames.append(extra_frame)
        orders.append(list(range(len(lists))))
    fn = os.path.join(os.getcwd(), name)
    with open(fn, "w") as f:
        f.write(cgref.neighbor_file_text(frames, orders, style=style))
    return name if relative else fn         # the routines open the file themselves: relative or absolute path


def _directed(lists):
    pairs = {(i, int(j)) for i, nb in enumerate(lists) for j in nb}
    return "lists-directed" if any((j, i) not in pairs for (i, j) in pairs) else "lists-symmetric"


FILE_STYLES = ["plain", "plain", "padded", "tight"]


# ============================================================================= PR / alignment / phase quotient


@st.composite
def measures_st(draw):
    d = draw(st.sampled_from([2, 3, 2, 3, 1]))
    size = draw(st.sampled_from(["small"] * 6 + ["one", "large"]))
    N = 1 if size == "one" else (draw(st.integers(25, 60)) if size == "large" else draw(st.integers(2, 20)))
    e, kind = draw(field_st(N, d))
    cnmax = 30 if size == "large" else 6
    lists, order = draw(lists_st(N, cnmax)) if N > 1 else ([[]], [0])
    second = draw(lists_st(N, cnmax))[0] if N > 1 and draw(st.integers(0, 3)) == 0 else None
    c = draw(st.one_of(st.sampled_from([-1.0, 2.0, 0.5, -3.0, 1e-3, 1e3]), nice_float(0.01, 100.0)))
    again = None
    if N > 1 and draw(st.integers(0, 2)) == 0:
        # second round on the SAME field array and the SAME file name: new lists written under the old name, new field
        # values assigned in place (the measures of the next mode / next frame)
        l2, o2 = draw(lists_st(N, cnmax))
        again = {"e": draw(field_st(N, d, kinds=(kind,)))[0], "lists": l2, "order": o2}
    return {"d": d, "e": e, "kind": kind, "lists": lists, "order": order, "second": second, "c": float(c),
            "as_int": bool(kind == "integer" and draw(st.integers(0, 2)) > 0), "again": again,
            "layout": draw(st.sampled_from(LAYOUTS)), "style": draw(st.sampled_from(FILE_STYLES))}


def _verify_measures(e, inp, lists, fn, kind, c, label=""):
    N, d = e.shape
    pr = participation_ratio(inp)
    require(np.ndim(pr) == 0 and np.isfinite(pr), f"participation_ratio returned {pr!r}{label}")
    pr = float(pr)
    want = vecref.participation_ratio(e)
    close("participation_ratio" + label, pr, want, rtol=1e-10, atol=0)
    require(1.0 / N - 1e-12 <= pr <= 1.0 + 1e-12, f"participation ratio {pr!r} outside [1/N, 1] for N = {N}{label}")
    prc = float(participation_ratio(c * e))
    close(f"participation_ratio({c} * e) vs participation_ratio(e){label}", prc, pr, rtol=1e-10, atol=0)
    if kind == "uniform" or N == 1:
        close("participation ratio of a uniform field" + label, pr, 1.0, rtol=1e-12, atol=0)
    if kind == "one":
        close("participation ratio of a one-particle field" + label, pr, 1.0 / N, rtol=1e-12, atol=0)
    if N == 1:
        return False, 0.0, 0.0
    scale = float(np.abs(e).max()) ** 2 * d
    al = arr("local_vector_alignment" + label, local_vector_alignment(inp, fn), shape=(N,))
    close("local_vector_alignment" + label, al, vecref.alignment(e, lists), rtol=1e-10, atol=1e-13 * scale)
    s0, s1 = vecref.phase_quotient(e, lists)
    pq_checked = s1 > 1e-9 * scale
    if pq_checked:
        pq = phase_quotient(inp, fn)
        require(np.ndim(pq) == 0 and np.isfinite(pq), f"phase_quotient returned {pq!r}{label}")
        close("phase_quotient" + label, float(pq), s0 / s1, rtol=1e-10, atol=1e-12)
        require(-1.0 - 1e-12 <= float(pq) <= 1.0 + 1e-12, f"phase quotient {pq!r} outside [-1, 1]{label}")
        if kind == "uniform":
            close("phase quotient of a uniform field" + label, float(pq), 1.0, rtol=1e-12, atol=0)
    require(np.array_equal(inp, e), "a vector measure modified its input field" + label)
    return pq_checked, s0, s1


def check_measures(case):
    e, lists = case["e"], case["lists"]
    N, d = e.shape
    style = case.get("style", "plain")
    rel = case.get("layout", "C") != "C" or style == "tight"      # derived from drawn fields: about half of the cases
    fn = write_lists(lists, case["order"], case["second"], style=style, relative=rel) if N > 1 else None
    inp, _keep = with_layout(e.astype(np.int64) if case.get("as_int") else e, case.get("layout", "C"))
    pq_checked, s0, s1 = _verify_measures(e, inp, lists, fn, case["kind"], case["c"])
    ag = case.get("again")
    if ag:
        write_lists(ag["lists"], ag["order"], style=style)        # same file name, other lists
        inp[...] = ag["e"]                                        # same array object, other values
        _verify_measures(ag["e"], inp, ag["lists"], fn, "again", case["c"],
                         " (second round: lists rewritten under the same file name, field changed in place)")
    tags = [f"d{d}", "field-" + case["kind"], "dtype-int64" if case.get("as_int") else "dtype-float64", "pq-checked" if pq_checked else "pq-undefined",
            "two-frame-file" if case["second"] is not None else "one-frame-file",
            "rows-shuffled" if case["order"] != list(range(N)) else "rows-ordered",
            "N1" if N == 1 else ("N<=4" if N <= 4 else ("N<=10" if N <= 10 else ("N<=20" if N <= 20 else "N25-60"))),
            "layout-" + case.get("layout", "C"), "file-style-" + style, "path-relative" if rel else "path-absolute"]
    if ag:
        tags.append("second-round-same-file-name")
    if pq_checked and abs(s0) < s1 * (1 - 1e-9):
        tags.append("pq-mixed-signs")
    cns = [len(nb) for nb in lists]
    tags.append("cn-varies" if len(set(cns)) > 1 else "cn-constant")
    tags.append("cn-max>6" if max(cns) > 6 else "cn-max<=6")
    if N > 1:
        tags.append(_directed(lists))
    if np.abs(e[0]).max() > 0.1 and any(c < max(cns) for c in cns):
        tags.append("p0-nonzero-with-padded-rows")
    nontrivial = bool(case["kind"] in ("random", "localised") and pq_checked)
    return {"nontrivial": nontrivial, "tags": tags}


def describe_measures(case):
    return {"d": case["d"], "N": len(case["e"]), "kind": case["kind"], "e": np.round(case["e"][:4], 4).tolist(),
            "lists": case["lists"][:4], "c": case["c"]}


# ============================================================================= divergence / curl


@st.composite
def divcurl_st(draw):
    big = draw(st.integers(0, 9)) == 0
    cfg = draw(config_st(nmin=25 if big else 2, nmax=60 if big else 20, K=1, frames=(1, 1), lmin=2.0, lmax=30.0,
                         exact_lattice=False))
    d, N = cfg["d"], len(cfg["types"])
    if cfg["cell"]["kind"] == "tri" and draw(st.booleans()):
        # a triclinic cell after an axis permutation (x<->y, cyclic ...): the cell matrix is no longer lower triangular
        perm = list(draw(st.permutations(range(d)).filter(lambda p_: list(p_) != list(range(d)))))
        c0 = cfg["cell"]
        cfg["cell"] = {**c0, "kind": "general", "H": c0["H"][perm][:, perm], "lo": c0["lo"][perm]}
        cfg["pos"] = [p_[:, perm] for p_ in cfg["pos"]]
        cfg["ppp"] = np.asarray(cfg["ppp"])[perm]
    lists, order = draw(lists_st(N, 30 if big else 6))
    kind = draw(st.sampled_from(["random", "linear", "linear", "integer"]))
    A = draw(hnp.arrays(np.float64, (d, d), elements=st.one_of(st.integers(-8, 8).map(lambda k: k / 4.0), fl(-2.0, 2.0)), fill=st.nothing()))
    b = draw(hnp.arrays(np.float64, (d,), elements=VAL, fill=st.nothing()))
    if kind == "linear":
        u = cfg["pos"][0] @ A.T + b
    elif kind == "integer":
        u = draw(hnp.arrays(np.int64, (N, d), elements=st.integers(-3, 3), fill=st.nothing()))   # integer dtype on purpose
    else:
        u = draw(hnp.arrays(np.float64, (N, d), elements=VAL, fill=st.nothing()))
    if kind == "linear" and draw(st.booleans()):
        cfg["ppp"] = np.zeros(d, dtype=int)          # open boundaries: the matrix form tr(A M_i) applies
    cfg.update(lists=lists, order=order, fkind=kind, A=A, b=b, u=u, again=None,
               layout=draw(st.sampled_from(LAYOUTS)), style=draw(st.sampled_from(FILE_STYLES)),
               ppp_dtype=draw(st.sampled_from(["int64", "int64", "int32"])),
               later_frame=draw(lists_st(N))[0] if draw(st.integers(0, 3)) == 0 else None)
    if cfg["cell"]["kind"] != "general" and draw(st.integers(0, 2)) == 0:
        # second call on the SAME snapshot / field objects after an in-place change (next frame of a sheared or
        # rescaled trajectory): triclinic -> new tilt factors with the same edge lengths, orthogonal -> rescaled edges
        c0 = cfg["cell"]
        if c0["kind"] == "tri":
            c2 = draw(cell_st(d, "tri", lmin=2.0, lmax=30.0))
            H2 = c2["H"] / np.diag(c2["H"])[None, :] * np.diag(c0["H"])[None, :]
        else:
            H2 = c0["H"] * np.array([draw(st.sampled_from([0.5, 0.8, 1.25, 2.0])) for _ in range(d)])[None, :]
        lists2, order2 = draw(lists_st(N))
        cfg["again"] = {"cell": {"d": d, "kind": c0["kind"], "H": H2, "lo": c0["lo"].copy(), "origin": c0["origin"]},
                        "f": draw(frac_st(N, d)), "lists": lists2, "order": order2,
                        "u": (draw(hnp.arrays(np.int64, (N, d), elements=st.integers(-3, 3), fill=st.nothing()))
                              if kind == "integer" else
                              draw(hnp.arrays(np.float64, (N, d), elements=VAL, fill=st.nothing())))}
    return cfg


def _call_divcurl(snap, u, ppp, fn, d, N):
    res = divergence_curl(snap, u, ppp, fn)
    if d == 2:
        return arr("divergence (2D)", res, shape=(N,)), None
    require(isinstance(res, tuple) and len(res) == 2, f"divergence_curl (3D) returned {type(res).__name__}, not a pair")
    return arr("divergence", res[0], shape=(N,)), arr("curl", res[1], shape=(N, 3))


def _verify_divcurl(tag, div, curl, pos, H, ppp, u, lists, d, linear_A=None):
    rdiv, rcurl, tied = vecref.div_curl(pos, H, ppp, u, lists)
    ok = ~tied
    rscale = float(np.abs(H).sum())
    uscale = max(1e-3, float(np.abs(u).max()))
    atol = 1e-10 * rscale * uscale * (1.0 + float(np.abs(pos).max()) / rscale)
    if ok.any():
        close("divergence" + tag, div[ok], rdiv[ok], rtol=1e-9, atol=atol)
        if d == 3:
            close("curl" + tag, curl[ok], rcurl[ok], rtol=1e-9, atol=atol)
    if linear_A is not None:
        adiv, acurl = vecref.linear_field_div_curl(pos, linear_A, lists)
        atol2 = atol * (1.0 + float(np.abs(pos).max()))
        close("divergence of u = A r + b (open boundaries) vs tr(A M_i)" + tag, div, adiv, rtol=1e-8, atol=atol2)
        if d == 3:
            close("curl of u = A r + b (open boundaries) vs eps (M_i A^T)" + tag, curl, acurl, rtol=1e-8, atol=atol2)
    return rdiv, tied


def check_divcurl(case):
    d, u, lists = case["d"], case["u"], case["lists"]
    pos, cell, ppp = case["pos"][0], case["cell"], np.asarray(case["ppp"])
    N = len(pos)
    style = case.get("style", "plain")
    rel = case.get("layout", "C") != "C" or style == "tight"
    fn = write_lists(lists, case["order"], case.get("later_frame"), style=style, relative=rel)   # FIRST frame = the list
    snap = snapshot_from(cell, pos, case["types"], 0)
    uin, _keep = with_layout(u, case.get("layout", "C"))
    pin = ppp.astype(np.int32) if case.get("ppp_dtype") == "int32" else ppp.copy()
    div, curl = _call_divcurl(snap, uin, pin, fn, d, N)
    analytic = case["fkind"] == "linear" and not ppp.any()
    rdiv, tied = _verify_divcurl("", div, curl, pos, cell["H"], ppp, u, lists, d, case["A"] if analytic else None)
    ok = ~tied
    require(np.array_equal(uin, u), "divergence_curl modified the field")
    require(np.array_equal(snap.positions, pos), "divergence_curl modified the positions")
    ntied = int(tied.sum())
    ag = case.get("again")
    if ag:
        c2 = ag["cell"]
        pos2 = c2["lo"] + ag["f"] @ c2["H"]
        fresh = snapshot_from(c2, pos2, case["types"], 0)
        snap.positions[...] = pos2                       # same objects, contents of the next frame
        snap.hmatrix[...] = fresh.hmatrix
        snap.boxlength[...] = fresh.boxlength
        snap.boxbounds[...] = fresh.boxbounds
        if snap.realbounds is not None:
            snap.realbounds[...] = fresh.realbounds
        uin[...] = ag["u"]
        write_lists(ag["lists"], ag["order"], style=style)   # same file name, new lists
        div2, curl2 = _call_divcurl(snap, uin, pin, fn, d, N)
        _, tied2 = _verify_divcurl(" (second call, snapshot changed in place)", div2, curl2, pos2, c2["H"], ppp, ag["u"],
                                   ag["lists"], d)
        ntied += int(tied2.sum())
    f = np.linalg.solve(cell["H"].T, (pos[[j for nb in lists for j in nb]] - np.repeat(pos, [len(nb) for nb in lists], axis=0)).T).T
    wrapped = bool(np.any((np.abs(f) > 0.5) & (ppp == 1)))
    cns = [len(nb) for nb in lists]
    tags = [f"d{d}", cell["kind"], "field-" + case["fkind"],
            "mask-full" if ppp.all() else ("mask-open" if not ppp.any() else "mask-partial"),
            "image-needed" if wrapped else "no-image", "outside" if case["outside"] else "inside",
            "cn-varies" if len(set(cns)) > 1 else "cn-constant",
            "p0-padded-row" if cns[0] < max(cns) else "p0-full-row",
            "cn-max>6" if max(cns) > 6 else "cn-max<=6", "N<=20" if N <= 20 else "N25-60",
            "layout-" + case.get("layout", "C"), "file-style-" + style, "ppp-" + case.get("ppp_dtype", "int64"),
            "file-has-a-later-frame" if case.get("later_frame") is not None else "one-frame-file",
            "cn=1-present" if min(cns) == 1 else "cn>=2", _directed(lists), "path-relative" if rel else "path-absolute"]
    if cell["kind"] in ("tri", "general"):
        off = cell["H"] - np.diag(np.diag(cell["H"]))
        tags.append("tilt-" + ("negative" if (off <= 0).all() else ("positive" if (off >= 0).all() else "mixed-sign")))
    if analytic:
        tags.append("analytic-linear")
    if tied.any():
        tags.append("tie-skipped")
    if ag:
        tags.append("second-call-" + ("retilt" if cell["kind"] == "tri" else "rescale"))
    nontrivial = bool(ok.any() and np.any(rdiv[ok] != 0) and (wrapped or analytic or d == 3))
    return {"nontrivial": nontrivial, "tags": tags, "extra": {"tied_particles": ntied}}


def describe_divcurl(case):
    return {"d": case["d"], "cell": case["cell"]["kind"], "H": np.round(case["cell"]["H"], 4).tolist(),
            "ppp": np.asarray(case["ppp"]).tolist(), "field": case["fkind"], "A": np.round(case["A"], 4).tolist(),
            "pos": np.round(case["pos"][0][:3], 4).tolist(), "lists": case["lists"][:3]}


@st.composite
def lattice_st(draw):
    d = draw(st.sampled_from([2, 3]))
    n = [draw(st.integers(3, 6 if d == 2 else 3)) for _ in range(d)]
    if d == 3 and draw(st.booleans()):
        n[draw(st.integers(0, 2))] = draw(st.sampled_from([4, 4, 5]))
    a = np.array([draw(st.one_of(st.sampled_from([1.0, 0.5, 2.0, 1.5]), nice_float(0.3, 3.0))) for _ in range(d)])
    lo = np.array([draw(nice_float(-20.0, 20.0)) for _ in range(d)])
    A = draw(hnp.arrays(np.float64, (d, d), elements=st.one_of(st.integers(-8, 8).map(lambda k: k / 4.0), fl(-2.0, 2.0)), fill=st.nothing()))
    b = draw(hnp.arrays(np.float64, (d,), elements=VAL, fill=st.nothing()))
    N = int(np.prod(n))
    perm = [int(k) for k in draw(st.permutations(range(N)))]
    return {"d": d, "n": n, "a": a, "lo": lo, "A": A, "b": b, "perm": perm,
            "fkind": draw(st.sampled_from(["general", "general", "rotation", "dilation", "shear"]))}


def check_lattice(case):
    d, n, a, A = case["d"], case["n"], case["a"], case["A"].copy()
    if case["fkind"] == "rotation":
        A = A - A.T
    elif case["fkind"] == "dilation":
        A = np.eye(d) * A[0, 0]
    elif case["fkind"] == "shear":
        A = np.triu(A, 1)
    idx = np.array(list(np.ndindex(*n)))
    N = len(idx)
    perm = np.array(case["perm"])
    label = np.empty(N, dtype=int)
    label[np.arange(N)] = perm                      # site s carries particle id perm[s]
    site_of = {tuple(ix): int(label[s]) for s, ix in enumerate(idx)}
    pos = np.zeros((N, d))
    lists = [None] * N
    interior = np.zeros(N, dtype=bool)
    for s, ix in enumerate(idx):
        p = label[s]
        pos[p] = case["lo"] + (ix + 0.5) * a
        nb = []
        for k in range(d):
            for sgn in (-1, 1):
                jx = list(ix)
                jx[k] += sgn
                if 0 <= jx[k] < n[k]:
                    nb.append(site_of[tuple(jx)])
        lists[p] = nb
        interior[p] = len(nb) == 2 * d
    u = pos @ A.T + case["b"]
    L = np.array(n) * a
    cell = {"H": np.diag(L), "lo": case["lo"], "kind": "ortho"}
    fn = write_lists(lists, list(range(N)))
    snap = snapshot_from(cell, pos, np.ones(N, dtype=int), 0)
    ppp = np.zeros(d, dtype=int)
    div, curl = _call_divcurl(snap, u.copy(), ppp, fn, d, N)
    scale = float((a ** 2).max()) * max(1e-3, float(np.abs(A).max()))
    atol = 1e-10 * scale * (1.0 + float(np.abs(pos).max())) ** 2
    wdiv = float((a ** 2 * np.diag(A)).sum() / d)
    close("divergence of u = A r + b on a rectangular lattice, interior particles: (1/d) sum a_k^2 A_kk",
          div[interior], np.full(int(interior.sum()), wdiv), rtol=1e-8, atol=atol)
    if d == 3:
        a2 = a ** 2
        wc = np.array([a2[1] * A[2, 1] - a2[2] * A[1, 2], a2[2] * A[0, 2] - a2[0] * A[2, 0],
                       a2[0] * A[1, 0] - a2[1] * A[0, 1]]) / d
        close("curl of u = A r + b on a rectangular lattice, interior particles: (1/d) eps_abc a_b^2 A_cb",
              curl[interior], np.tile(wc, (int(interior.sum()), 1)), rtol=1e-8, atol=atol)
    adiv, acurl = vecref.linear_field_div_curl(pos, A, lists)
    close("divergence, boundary particles vs tr(A M_i)", div, adiv, rtol=1e-8, atol=atol)
    if d == 3:
        close("curl, boundary particles vs eps (M_i A^T)", curl, acurl, rtol=1e-8, atol=atol)
    tags = [f"d{d}", "field-" + case["fkind"], "cubic" if len(set(a.tolist())) == 1 else "rectangular",
            f"interior{min(int(interior.sum()), 3)}{'+' if interior.sum() >= 3 else ''}"]
    nontrivial = bool(wdiv != 0 or (d == 3 and np.any(wc != 0)))
    return {"nontrivial": nontrivial, "tags": tags}


def describe_lattice(case):
    return {"d": case["d"], "n": case["n"], "a": case["a"].tolist(), "A": np.round(case["A"], 4).tolist(),
            "field": case["fkind"]}


# ============================================================================= vibrability


@st.composite
def vib_st(draw):
    N = draw(st.integers(1, 8)) if draw(st.integers(0, 7)) else draw(st.integers(20, 40))
    d = draw(st.integers(1, 3))
    mode = draw(st.sampled_from(["free", "free", "spd"]))
    rng = np.random.default_rng(draw(st.integers(0, 2**32 - 1)))     # bulk matrix entries: seeded, not shrunk
    common = {"N": N, "d": d, "mode": mode, "save": draw(st.booleans()), "layout": draw(st.sampled_from(LAYOUTS)),
              "twice": draw(st.booleans())}
    if mode == "spd":
        B = rng.integers(-8, 9, size=(N * d, N * d)) / 4.0
        return {**common, "B": B}
    M = draw(st.integers(1, N * d))
    fkind = draw(st.sampled_from(["float", "float", "integer"]))
    if fkind == "integer":       # integer-valued frequencies handed over as an int64 array (np.array([1, 2, 3]))
        mag = draw(hnp.arrays(np.int64, (M,), elements=st.integers(1, 9), fill=st.nothing())).astype(float)
    else:
        mag = draw(hnp.arrays(np.float64, (M,), elements=nice_float(0.1, 10.0), fill=st.nothing()))
    sgn = draw(hnp.arrays(np.int64, (M,), elements=st.sampled_from([-1, 1]), fill=st.nothing()))
    vecs = np.where(rng.random((N * d, M)) < 0.5, rng.integers(-40, 41, size=(N * d, M)) / 4.0,
                    rng.uniform(-10.0, 10.0, size=(N * d, M)))
    if fkind == "integer" and draw(st.booleans()):
        vecs = np.rint(vecs)                                     # ... and integer mode vectors
    return {**common, "freq": mag * sgn, "vecs": vecs, "fkind": fkind}


def check_vib(case):
    N, d = case["N"], case["d"]
    if case["mode"] == "spd":
        K = case["B"] @ case["B"].T + np.eye(N * d)
        lam, vecs = np.linalg.eigh(K)
        freq = np.sqrt(lam)
    else:
        freq, vecs = case["freq"], case["vecs"]
    fin = freq.astype(np.int64) if case.get("fkind") == "integer" else freq.copy()
    int_vecs = case.get("fkind") == "integer" and np.array_equal(vecs, np.rint(vecs))
    vin, _keep = with_layout(vecs.astype(np.int64) if int_vecs else vecs, case.get("layout", "C"))
    kw = {"outputfile": "vib_out.npy"} if case["save"] else {}
    got = arr("vibrability", vibrability(fin, vin, N, **kw), shape=(N,))
    want = vecref.vibrability(freq, vecs, N)
    close("vibrability", got, want, rtol=1e-10, atol=1e-13 * float(np.abs(want).max()))
    if case["mode"] == "spd":
        inv = np.linalg.inv(K)
        bt = np.diag(inv).reshape(N, d).sum(axis=1)
        close("vibrability over the full spectrum of an SPD matrix vs block trace of its inverse", got, bt,
              rtol=1e-7, atol=1e-9 * float(np.abs(bt).max()))
    require(np.array_equal(fin, freq) and np.array_equal(vin, vecs), "vibrability modified its inputs")
    if case["save"]:
        require(os.path.exists("vib_out.npy"), "vibrability: outputfile not written")
        equal("vibrability outputfile", np.load("vib_out.npy"), got)
    if case.get("twice"):            # a second evaluation with a subset of the modes (same arrays' leading columns)
        M2 = max(1, vecs.shape[1] // 2)
        got2 = arr("vibrability (second call)", vibrability(fin[:M2], vin[:, :M2], N), shape=(N,))
        want2 = vecref.vibrability(freq[:M2], vecs[:, :M2], N)
        close("vibrability (second call, leading half of the modes)", got2, want2, rtol=1e-10,
              atol=1e-13 * float(np.abs(want2).max()))
    M = vecs.shape[1]
    tags = [case["mode"], f"d{d}", "N1" if N == 1 else ("N>1" if N <= 8 else "N20-40"),
            "all-modes" if M == N * d else "subset-of-modes", "neg-freq" if np.any(freq < 0) else "pos-freq",
            "freq-int64" if case.get("fkind") == "integer" else "freq-float64",
            "vecs-int64" if int_vecs else "vecs-float64", "layout-" + case.get("layout", "C")]
    return {"nontrivial": bool(N > 1 and d > 1 and M > 1), "tags": tags}


def describe_vib(case):
    return {k: (np.round(v, 4).tolist() if isinstance(v, np.ndarray) else v) for k, v in case.items()
            if k in ("N", "d", "mode", "freq")}


# ============================================================================= Fourier decomposition


@st.composite
def qvec_st(draw, d, nmax=12, qmax=4, many=False):
    if many:
        # a realistic list (utils.wavevector.choosewavevector(2, 27) has hundreds of rows): all integer vectors of a
        # shell range, optionally the non-negative ones only, in a drawn order, truncated to 60..300 rows
        m = draw(st.integers(5, 9)) if d == 2 else draw(st.integers(3, 4))
        lo_ = 0 if draw(st.booleans()) else -m
        grid = np.array(list(np.ndindex(*([m - lo_ + 1] * d)))) + lo_
        grid = grid[np.any(grid != 0, axis=1)]
        rng = np.random.default_rng(draw(st.integers(0, 2**32 - 1)))
        if draw(st.booleans()):
            grid = grid[rng.permutation(len(grid))]
        return grid[:draw(st.integers(60, 300))].astype(int)
    nq = draw(st.integers(1, nmax))
    out = []
    for _ in range(nq):
        v = [draw(st.integers(-qmax, qmax)) for _ in range(d)]
        if not any(v):
            v[draw(st.integers(0, d - 1))] = draw(st.sampled_from([-2, -1, 1, 2, 3]))
        out.append(v)
    if draw(st.integers(0, 3)) == 0 and nq >= 2:        # a symmetry-related pair: same |q|, averaged together
        out[-1] = [-x for x in out[0]]
    return np.array(out, dtype=int)


@st.composite
def fourier_field_st(draw, pos, L, qv, force=None):
    N, d = pos.shape
    kind = force or draw(st.sampled_from(["random", "random", "uniform", "one", "linear", "wave-L", "wave-T", "localised", "integer"]))
    if kind in ("uniform", "one", "random", "localised", "integer"):
        return draw(field_st(N, d, kinds=(kind,)))
    if kind == "linear":
        A = draw(hnp.arrays(np.float64, (d, d), elements=st.integers(-8, 8).map(lambda k: k / 4.0), fill=st.nothing()))
        if not A.any():
            A[0, -1] = 1.0
        return pos @ A.T, kind
    q = vecref.qvectors(qv[:1], L)[0]
    qh = q / np.sqrt((q * q).sum())
    if kind == "wave-L":
        pol = qh
    else:
        pol = np.zeros(d)
        k = int(np.argmin(np.abs(qh)))
        pol[k] = 1.0
        pol = pol - qh * (qh @ pol)
        pol = pol / np.sqrt((pol * pol).sum())
    amp = draw(nice_float(0.5, 5.0))
    ph = draw(nice_float(0.0, 6.0))
    noise = draw(hnp.arrays(np.float64, (N, d), elements=fl(-1.0, 1.0), fill=st.nothing())) * draw(st.sampled_from([0.0, 1e-3, 0.1]))
    return amp * np.cos(pos @ q + ph)[:, None] * pol[None, :] + noise, kind


SCHEDULES = ["even", "even", "uneven", "uneven", "repeated-frame", "step-back"]


@st.composite
def series_st(draw, frames=(1, 1), nqmax=12, nmax=20, deep=False):
    d = draw(st.sampled_from([2, 3]))
    cell = draw(cell_st(d, "ortho", lmin=2.0, lmax=30.0))
    if draw(st.integers(0, 3)) == 0:
        cell["H"] = np.eye(d) * cell["H"][0, 0]      # cubic: permuted wave vectors share |q|
    L = np.diag(cell["H"]).copy()
    size = draw(st.sampled_from(["small"] * 8 + ["many-q", "large-N"])) if frames[1] == 1 else \
        draw(st.sampled_from(["small"] * 9 + ["large-N"]))
    N = draw(st.integers(2, nmax)) if size != "large-N" else draw(st.integers(60, 200 if frames[1] == 1 else 80))
    T = draw(st.sampled_from(sorted(set(range(max(2, frames[0]), frames[1] + 1)) | set(range(min(3, frames[1]), frames[1] + 1))))) \
        if frames[1] > 1 else 1
    if frames[0] == 1 and frames[1] > 1 and draw(st.integers(0, 14)) == 7:
        T = 1               # a series of one frame: every correlation is its lag-zero value
    qv = draw(qvec_st(d, nmax=nqmax, many=size == "many-q"))
    all_integer = draw(st.integers(0, 5)) == 0      # integer-valued field in every frame (may be passed as int64)
    pos, us, kinds = [], [], []
    for _ in range(T):
        if N > 24:
            rng = np.random.default_rng(draw(st.integers(0, 2**32 - 1)))        # bulk coordinates: seeded, not shrunk
            f = rng.random((N, d))
        else:
            f = draw(frac_st(N, d))
        if draw(st.booleans()):
            f = f + draw(hnp.arrays(np.int64, (N, d), elements=st.integers(-1, 1), fill=st.nothing()))
        p = cell["lo"] + f @ cell["H"]
        if N > 24:
            kind = "integer" if all_integer else draw(st.sampled_from(["random", "integer", "linear"]))
            u = {"random": lambda: rng.uniform(-10, 10, (N, d)), "integer": lambda: rng.integers(-3, 4, (N, d)).astype(float),
                 "linear": lambda: p @ (rng.integers(-8, 9, (d, d)) / 4.0).T}[kind]()
            if not u.any():
                u[0, 0] = 1.0
        else:
            u, kind = draw(fourier_field_st(p, L, qv, force="integer" if all_integer else None))
        pos.append(p)
        us.append(u)
        kinds.append(kind)
    again = None
    if T == 1 and draw(st.integers(0, 2)) == 0:
        # second call on the same snapshot object after an in-place change of box, positions and field
        again = {"scale": np.array([draw(st.sampled_from([0.5, 0.8, 1.25, 2.0])) for _ in range(d)]),
                 "f": draw(frac_st(N, d)) if N <= 24 else np.random.default_rng(draw(st.integers(0, 2**32 - 1))).random((N, d)),
                 "u": draw(field_st(N, d, kinds=("random",)))[0] if N <= 24 else
                 np.random.default_rng(draw(st.integers(0, 2**32 - 1))).uniform(-10, 10, (N, d))}
    t0 = draw(st.one_of(st.just(0), st.integers(0, 10**6)))
    sched = draw(st.sampled_from(SCHEDULES))
    if sched == "even" or T < 3:
        step = draw(st.integers(1, 5000))
        ts = [t0 + k * step for k in range(T)]
        sched = "even" if T >= 2 else "single-frame"
    elif sched == "uneven":
        ts = [t0]
        for _ in range(T - 1):
            ts.append(ts[-1] + draw(st.integers(1, 2000)))
    else:
        # schedules of frames (restart files): an evenly spaced run in which one frame is written twice (same
        # timestep on two consecutive frames) or the counter steps back once.  "One snapshot per frame, in file order".
        step = draw(st.integers(1, 5000))
        k0 = draw(st.integers(1, T - 1))
        ts, cur = [t0 + step], t0 + step
        for k in range(1, T):
            if k == k0:
                cur = cur if sched == "repeated-frame" else cur - draw(st.integers(1, step))
            else:
                cur += step
            ts.append(cur)
    dt = draw(st.one_of(st.sampled_from([0.002, 0.001, 0.005, 1.0]), nice_float(0.0005, 0.1)))
    int_ok = all(np.array_equal(u_, np.rint(u_)) for u_ in us)
    return {"d": d, "cell": cell, "pos": pos, "u": us, "kinds": kinds, "qv": qv, "timesteps": ts, "dt": float(dt),
            "out": draw(st.sampled_from(["vf", "vf", "run.1", "", "vf2.csv"])), "types": np.ones(N, dtype=int), "again": again,
            "schedule": sched, "size": size, "q_dtype": draw(st.sampled_from(["int64", "int64", "int32"])),
            "u_int": bool(int_ok and draw(st.booleans())), "layout": draw(st.sampled_from(LAYOUTS)),
            "omit": draw(st.sampled_from(["none", "none", "none", "dt", "outputfile", "both"]))}


def _complex_cols(name, df, prefix, d, nq):
    cols_ = [col(name, df, f"{prefix}{k}") for k in range(d)]
    a = arr(f"{name}[{prefix}*]", np.stack(cols_, axis=1), shape=(nq, d))
    return a.astype(complex)


def _reference_frame(case, n):
    return _reference(np.diag(case["cell"]["H"]), case["d"], case["qv"], case["pos"][n], case["u"][n])


def _reference(L, d, qv, pos, u):
    """exact-arithmetic reference of one frame: dict with q, qn, F, L, T, tolerances, spectra and their tolerances"""
    q = vecref.qvectors(qv, L)
    F = vecref.fourier(pos, q, u)
    Lp, Tp, qh, qn = vecref.split(F, q)
    tol = vecref.split_tolerances(F, qn, d)
    E8 = vecref.E8
    nF = tol["nF"]
    S = (np.abs(F) ** 2).sum(axis=1)
    SL = (np.abs(Lp) ** 2).sum(axis=1)
    ST = (np.abs(Tp) ** 2).sum(axis=1)
    tL1 = tol["L_FFT"] - tol["eta"]     # before the second rounding
    tT1 = tol["T_FFT"] - tol["eta"]
    stol = {"Sq": E8 * 1.01 + 1e-12 * S, "Sq_L": E8 * 1.01 + 2 * nF * tL1 + tL1 ** 2 + 1e-12 * S,
            "Sq_T": E8 * 1.01 + 2 * nF * tT1 + tT1 ** 2 + 1e-12 * S}
    return {"q": q, "qn": qn, "qh": qh, "F": F, "L": Lp, "T": Tp, "tol": tol, "S": {"Sq": S, "Sq_L": SL, "Sq_T": ST},
            "stol": stol}


def _groups(qn):
    """per-|q| groups after rounding at 8 decimals; None (ambiguous) when two distinct |q| are closer than 1e-7 or
    some |q| sits on a rounding boundary"""
    order = np.argsort(qn, kind="stable")
    s = qn[order]
    gaps = np.diff(s)
    if np.any((gaps > 1e-12 * s[1:]) & (gaps < 1e-7)):
        return None
    frac = s * 1e8 - np.floor(s * 1e8)
    if np.any(np.abs(frac - 0.5) < 1e-3):           # |q| on a rounding boundary of the 8th decimal: grouping undecided
        return None
    groups, cur = [], [int(order[0])]
    for k in range(1, len(s)):
        if gaps[k - 1] <= 1e-12 * s[k]:
            cur.append(int(order[k]))
        else:
            groups.append(cur)
            cur = [int(order[k])]
    groups.append(cur)
    return groups


def _bounded(name, got, want, tol):
    got = np.asarray(got)
    bad = ~(np.abs(got - want) <= tol)
    if bad.any():
        ti = tuple(int(i) for i in np.argwhere(bad)[0])
        raise Violation(f"{name}: {int(bad.sum())}/{bad.size} entries differ by more than the propagated rounding bound; "
                        f"first at {ti}: got {got[ti]!r}, want {want[ti]!r}, bound {np.broadcast_to(tol, got.shape)[ti]:.3e}")


def _check_table(name, vf, ref, d, nq):
    """one frame's per-q table against the reference and the algebraic identities; returns the sign convention"""
    E8 = vecref.E8
    tol = ref["tol"]
    qcols = np.stack([col(name, vf, f"q{k}") for k in range(d)], axis=1)
    _bounded(f"{name}: q columns", arr(name, qcols, shape=(nq, d)), ref["q"], E8 * 1.01 + 1e-12 * np.abs(ref["q"]))
    _bounded(f"{name}: |q|", arr(name, col(name, vf, "q"), shape=(nq,)), ref["qn"], E8 * 1.01 + 1e-12 * ref["qn"])
    F = _complex_cols(name, vf, "FFT", d, nq)
    Lc = _complex_cols(name, vf, "L_FFT", d, nq)
    Tc = _complex_cols(name, vf, "T_FFT", d, nq)
    S = {k: arr(f"{name}[{k}]", col(name, vf, k), shape=(nq,)).astype(float) for k in ("Sq", "Sq_L", "Sq_T")}
    # sign convention of the transform: exp(-iq.r) (docs/sq.md) or exp(+iq.r) (docs/vectors.md), fixed per table
    errm = np.abs(F - ref["F"]).max()
    errp = np.abs(F - np.conj(ref["F"])).max()
    conj = errp < errm
    cj = np.conj if conj else (lambda x: x)
    _bounded(f"{name}: FFT columns vs Fourier sum N^-1/2 sum_j u_j exp(-+iq.r_j)", F, cj(ref["F"]), tol["FFT"][:, None] * 1.01 + 1e-12 * tol["nF"][:, None])
    _bounded(f"{name}: L_FFT columns vs qhat (qhat.F)", Lc, cj(ref["L"]), tol["L_FFT"][:, None] * 1.01 + 1e-12 * tol["nF"][:, None])
    _bounded(f"{name}: T_FFT columns vs F - qhat (qhat.F)", Tc, cj(ref["T"]), tol["T_FFT"][:, None] * 1.01 + 1e-12 * tol["nF"][:, None])
    # identities on the returned columns
    eta, epsq, nF = tol["eta"], tol["epsq"], tol["nF"]
    _bounded(f"{name}: L + T = F", Lc + Tc, F, 2.0 * np.sqrt(2.0) * E8 * 1.01 + 1e-12 * nF[:, None])
    qh = ref["qh"]
    _bounded(f"{name}: qhat . T = 0", (qh * Tc).sum(axis=1), np.zeros(nq), (eta + 2.1 * epsq * nF) * 1.01)
    perp = Lc - qh * (qh * Lc).sum(axis=1)[:, None]
    _bounded(f"{name}: L parallel to q (component of L orthogonal to qhat)", np.sqrt((np.abs(perp) ** 2).sum(axis=1)),
             np.zeros(nq), (eta + 1.1 * epsq * nF) * 1.01)
    _bounded(f"{name}: Sq = Sq_L + Sq_T", S["Sq_L"] + S["Sq_T"], S["Sq"],
             3 * E8 * 1.01 + 2.1 * nF * eta + 4.2 * nF ** 2 * epsq + 1e-12 * nF ** 2)
    for k in ("Sq", "Sq_L", "Sq_T"):
        _bounded(f"{name}: {k} vs reference", S[k], ref["S"][k], ref["stol"][k])
        require(np.all(S[k] >= -1e-12), f"{name}: negative {k}")
    return S


def _check_ave(name, ave, S, ref, groups):
    nq = len(ref["qn"])
    for k in ("q", "Sq", "Sq_T", "Sq_L"):
        col(name, ave, k)
    if groups is None:
        return False
    qa = arr(f"{name}[q]", col(name, ave, "q"), shape=(len(groups),))
    _bounded(f"{name}: |q| of the groups (ascending)", qa, np.array([ref["qn"][g[0]] for g in groups]),
             vecref.E8 * 1.01 + 1e-12 * np.array([ref["qn"][g[0]] for g in groups]))
    for k in ("Sq", "Sq_T", "Sq_L"):
        got = arr(f"{name}[{k}]", col(name, ave, k), shape=(len(groups),))
        close(f"{name}: {k} = mean of the per-q table over equal |q|", got,
              np.array([S[k][g].mean() for g in groups]), rtol=1e-12, atol=1e-12)
    return True


def check_decomp(case):
    d, qv = case["d"], case["qv"]
    nq = len(qv)
    pos, u = case["pos"][0], case["u"][0]
    N = len(pos)
    snap = snapshot_from(case["cell"], pos, case["types"], case["timesteps"][0])
    uin, _keep = with_layout(u.astype(np.int64) if case.get("u_int") else u, case.get("layout", "C"))
    qin = qv.astype(np.int32) if case.get("q_dtype") == "int32" else qv.copy()
    kw = {"outputfile": case["out"]} if case["out"] else {}
    res = vector_decomposition_sq(snap, qin, uin, **kw)
    require(isinstance(res, tuple) and len(res) == 2, f"vector_decomposition_sq returned {type(res).__name__}")
    vf, ave = res
    require(len(vf) == nq, f"vector_decomposition_sq: {len(vf)} rows for {nq} wave vectors")
    ref = _reference_frame(case, 0)
    S = _check_table("vector_decomposition_sq", vf, ref, d, nq)
    groups = _groups(ref["qn"])
    ave_ok = _check_ave("vector_decomposition_sq averages", ave, S, ref, groups)
    if case["out"]:
        fn = case["out"] if case["out"].endswith(".csv") else case["out"] + ".csv"
        require(os.path.exists(fn), f"vector_decomposition_sq: {fn} not written")
        csv = pd.read_csv(fn)
        require([str(c) for c in csv.columns] == [str(c) for c in ave.columns], f"csv columns {list(csv.columns)}")
        close("vector_decomposition_sq csv vs returned averages", csv.values, np.asarray(ave.values, dtype=float),
              rtol=0, atol=5.1e-9)
    require(np.array_equal(uin, u) and np.array_equal(qin, qv), "vector_decomposition_sq modified its inputs")
    ag = case.get("again")
    if ag:
        L2 = np.diag(case["cell"]["H"]) * ag["scale"]
        lo = case["cell"]["lo"]
        pos2 = lo + ag["f"] * L2
        snap.boxlength[...] = L2                          # same snapshot object, contents of another frame
        snap.hmatrix[...] = np.diag(L2)
        snap.boxbounds[...] = np.stack([lo, lo + L2], axis=1)
        snap.positions[...] = pos2
        u2 = ag["u"]
        if case.get("u_int"):                   # the array object keeps its integer dtype
            u2 = np.rint(u2)
            if not u2.any():
                u2[0, 0] = 1.0
        uin[...] = u2
        vf2, ave2 = vector_decomposition_sq(snap, qin, uin)
        ref2 = _reference(L2, d, qv, pos2, u2)
        name2 = "vector_decomposition_sq (second call, snapshot changed in place)"
        require(len(vf2) == nq, f"{name2}: {len(vf2)} rows for {nq} wave vectors")
        S2 = _check_table(name2, vf2, ref2, d, nq)
        _check_ave(name2 + " averages", ave2, S2, ref2, _groups(ref2["qn"]))
    kind = case["kinds"][0]
    SL, ST = ref["S"]["Sq_L"], ref["S"]["Sq_T"]
    tags = [f"d{d}", "field-" + kind, "origin-" + case["cell"]["origin"],
            "cubic" if len(set(np.diag(case["cell"]["H"]).tolist())) == 1 else "unequal-edges",
            "ave-checked" if ave_ok else "ave-ambiguous",
            "multi-q-groups" if groups is not None and any(len(g) > 1 for g in groups) else "single-q-groups",
            "csv" if case["out"] else "no-csv", "name-ends-with-.csv" if case["out"].endswith(".csv") else "name-without-.csv",
            "size-" + case.get("size", "small"), "q-" + case.get("q_dtype", "int64"),
            "field-dtype-int64" if case.get("u_int") else "field-dtype-float64", "layout-" + case.get("layout", "C"),
            "nq>=60" if nq >= 60 else ("nq1" if nq == 1 else "nq<=12"), "N>=60" if N >= 60 else "N<=20"]
    if ag:
        tags.append("second-call-rescaled")
    if np.any(SL > 10 * ST + 1e-6):
        tags.append("L-dominated-q")
    if np.any(ST > 10 * SL + 1e-6):
        tags.append("T-dominated-q")
    nontrivial = bool(np.any((SL > 1e-6) & (ST > 1e-6)) and np.any(np.count_nonzero(qv, axis=1) >= 2))
    return {"nontrivial": nontrivial, "tags": tags}


def describe_series(case):
    return {"d": case["d"], "L": np.diag(case["cell"]["H"]).tolist(), "lo": np.round(case["cell"]["lo"], 4).tolist(),
            "N": len(case["pos"][0]), "frames": len(case["pos"]), "qv": case["qv"].tolist()[:6], "kinds": case["kinds"],
            "timesteps": case["timesteps"], "dt": case["dt"], "u0": np.round(case["u"][0][:3], 4).tolist()}


# ============================================================================= vector_fft_corr


def check_corr(case):
    d, qv, ts = case["d"], case["qv"], case["timesteps"]
    nq, T = len(qv), len(ts)
    N = len(case["pos"][0])
    E8 = vecref.E8
    snaps = Snapshots(nsnapshots=T, snapshots=[snapshot_from(case["cell"], p, case["types"], t)
                                              for p, t in zip(case["pos"], ts)])
    vin = np.array(case["u"])
    vectors, _keep = with_layout(vin.astype(np.int64) if case.get("u_int") else vin, case.get("layout", "C"))
    omit = case.get("omit", "none")
    out = "" if omit in ("outputfile", "both") else case["out"]         # documented defaults: dt = 0.002, outputfile = ""
    dt_used = 0.002 if omit in ("dt", "both") else case["dt"]
    kw = {}
    if omit not in ("dt", "both"):
        kw["dt"] = case["dt"]
    if omit not in ("outputfile", "both"):
        kw["outputfile"] = out
    qin = qv.astype(np.int32) if case.get("q_dtype") == "int32" else qv.copy()
    with warnings.catch_warnings():
        warnings.simplefilter("ignore")      # 0/0 for identically vanishing components is skipped below
        res = vector_fft_corr(snaps, qin, vectors, **kw)
    require(isinstance(res, dict), f"vector_fft_corr returned {type(res).__name__}, not a dict")
    refs = [_reference_frame(case, n) for n in range(T)]
    even = vecref.evenly_spaced(ts)
    tref = (np.array(ts) - ts[0]) * dt_used
    nchecked = nskipped = 0
    weakest = 0.0
    for header in ("FFT", "T_FFT", "L_FFT"):
        require(header in res, f"vector_fft_corr: key {header!r} missing from {sorted(res)}")
        tab = res[header]
        name = f"vector_fft_corr[{header}]"
        require(hasattr(tab, "columns") and hasattr(tab, "values"), f"{name} is {type(tab).__name__}, not a DataFrame")
        vals = arr(name, getattr(tab, "values", tab), shape=(nq, d + 1 + T)).astype(float)
        _bounded(f"{name}: q columns", vals[:, :d], refs[0]["q"], E8 * 1.01 + 1e-12 * np.abs(refs[0]["q"]))
        _bounded(f"{name}: |q| column", vals[:, d], refs[0]["qn"], E8 * 1.01 + 1e-12 * refs[0]["qn"])
        labels = list(tab.columns)
        require([str(c) for c in labels[:d + 1]] == [f"q{k}" for k in range(d)] + ["q"],
                f"{name}: leading columns {labels[:d + 1]}")
        tl = arr(f"{name}: time labels", np.array(labels[d + 1:], dtype=float), shape=(T,))
        close(f"{name}: time axis (timestep - first timestep) * dt", tl, tref, rtol=1e-12, atol=1e-15)
        key = {"FFT": "F", "T_FFT": "T", "L_FFT": "L"}[header]
        for iq in range(nq):
            X = np.array([refs[n][key][iq] for n in range(T)])
            tolX = np.array([refs[n]["tol"][header][iq] for n in range(T)])
            C, bound = vecref.corr_with_bound(X, tolX, even)
            if C is None or bound.max() > 1e-3:
                nskipped += 1
                continue
            nchecked += 1
            weakest = max(weakest, float(bound.max()))
            _bounded(f"{name}: correlation of wave vector {qv[iq].tolist()} ({'all origins' if even else 'first frame as origin'})",
                     vals[iq, d + 1:], C, bound)
            require(vals[iq, d + 1] == 1.0, f"{name}: lag-zero value {vals[iq, d + 1]!r} != 1")
        fn = out + "." + header + ".npy"
        require(os.path.exists(fn), f"vector_fft_corr: {fn} not written")
        saved = arr(fn, np.load(fn, allow_pickle=True), shape=vals.shape).astype(float)
        require(np.array_equal(saved, vals, equal_nan=True), f"{fn} differs from the returned table")
    # spectra: mean over frames of the per-|q| averages
    fn = out + ".spectra.csv"
    require(os.path.exists(fn), f"vector_fft_corr: {fn} not written")
    sp = pd.read_csv(fn)
    groups = _groups(refs[0]["qn"])
    spectra_ok = groups is not None
    for k in ("q", "Sq", "Sq_T", "Sq_L"):
        col("spectra csv", sp, k)
    if spectra_ok:
        require(len(sp) == len(groups), f"spectra csv: {len(sp)} rows for {len(groups)} distinct |q|")
        qg = np.array([refs[0]["qn"][g[0]] for g in groups])
        _bounded("spectra csv: |q|", sp["q"].values, qg, 2 * E8 * 1.01 + 1e-12 * qg)
        for k in ("Sq", "Sq_T", "Sq_L"):
            want = np.mean([[refs[n]["S"][k][g].mean() for g in groups] for n in range(T)], axis=0)
            tol = np.mean([[refs[n]["stol"][k][g].mean() for g in groups] for n in range(T)], axis=0) + E8 * 1.01
            _bounded(f"spectra csv: {k} = frame mean of the per-|q| averages", sp[k].values, want, tol)
    require(np.array_equal(vectors, vin), "vector_fft_corr modified the input vectors")
    tags = [f"d{d}", f"frames{T}" if T <= 5 else "frames6-12", "even" if even else "uneven",
            "spectra-checked" if spectra_ok else "spectra-ambiguous",
            "outputfile-empty" if not out else "outputfile", "t0-zero" if ts[0] == 0 else "t0-offset",
            "schedule-" + case.get("schedule", "even" if even else "uneven"), "keywords-omitted-" + omit,
            "q-" + case.get("q_dtype", "int64"), "field-dtype-int64" if case.get("u_int") else "field-dtype-float64",
            "layout-" + case.get("layout", "C"), "N>=60" if N >= 60 else "N<=20"]
    tags += sorted({"field-" + k for k in case["kinds"]})
    if nskipped:
        tags.append("some-q-illconditioned")
    if weakest > 1e-5:
        tags.append("bound>1e-5")
    require(np.array_equal(qin, qv), "vector_fft_corr modified the wave-vector list")
    nontrivial = bool(nchecked >= 3 and T >= 3)
    return {"nontrivial": nontrivial, "tags": tags, "extra": {"correlations_checked": nchecked,
                                                               "correlations_skipped_illconditioned": nskipped}}


FACETS = [
    Facet("field_measures", measures_st(), check_measures, quick=1000, thorough=60000, describe=describe_measures,
          shards_quick=2, rule="non-trivial = random or localised field with a defined phase quotient"),
    Facet("divergence_curl", divcurl_st(), check_divcurl, quick=1200, thorough=60000, describe=describe_divcurl,
          shards_quick=4, quick_budget_s=150.0,
          rule="non-trivial = non-zero divergence on an untied particle and (an image is needed, or the linear-field "
               "matrix form applies, or 3D)"),
    Facet("linear_lattice", lattice_st(), check_lattice, quick=300, thorough=20000, describe=describe_lattice,
          shards_quick=2, rule="non-trivial = the closed-form divergence or curl is non-zero"),
    Facet("vibrability", vib_st(), check_vib, quick=400, thorough=30000, describe=describe_vib,
          rule="non-trivial = more than one particle, component and mode"),
    Facet("decomposition", series_st(frames=(1, 1)), check_decomp, quick=1200, thorough=60000, describe=describe_series,
          shards_quick=4, quick_budget_s=150.0,
          rule="non-trivial = some wave vector has both Sq_L and Sq_T > 1e-6 and some wave vector is oblique"),
    Facet("fft_corr_long", series_st(frames=(6, 12), nqmax=4, nmax=8), check_corr, quick=40, thorough=8000,
          describe=describe_series, shards_quick=2, quick_budget_s=150.0,
          rule="6..12 frames (longer origin averages, longer schedules incl. a repeated frame / a step back); "
               "non-trivial as fft_corr"),
    Facet("fft_corr", series_st(frames=(1, 5), nqmax=6, nmax=12), check_corr, quick=600, thorough=30000,
          describe=describe_series, shards_quick=4, quick_budget_s=150.0,
          rule="non-trivial = >= 3 frames and >= 3 correlations compared within their propagated bound"),
]
