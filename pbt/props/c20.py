"""C20 — Voronoi neighbour output is a consistent tessellation in the library format; volume-response matrix.

Oracles: (1) own parser of the three output files + the invariants of the statement; (2) differential against an
independent periodic Voronoi construction (scipy/Qhull on 3^d images, float64) for cell volumes, neighbour
multisets and bond weights; (3) hand-off to read_neighbors; (4) VolumeMatrix: zero row sums per displaced
coordinate, independent central differences of the scipy cell volumes, frame selection (metamorphic: frame k of a
trajectory == that frame alone), output-file round trip.

CLAUSES (statement + quantifier split into axes; facet -> deciding assertion; class tags measured in
evidence/C20.json coverage.facets.<facet>.classes)

 a  any 2D or 3D periodic configuration                   files2d* / files3d*: d2, d3; uniform / clustered / lattice-jit; N1-3,
                                                          N4-11, N<=20, N>20, N>100 (files*_medium), N>2^16 (files2d_large);
                                                          self-image-bonds / no-self-bonds; box-thin / box-bulk
 b  in an orthogonal box (any origin)                     origin-zero / -arbitrary / -centred / -sumzero; unequal edges; box-float /
                                                          box-int64 (edges and bounds as int64 arrays); inside / outside (image
                                                          offsets); box-varies (another box per frame)
 c  the three files list every particle once per frame    parse_framed / parse_overall: one header + N rows per frame, ids 1..N in
    in id order                                           order (frames1..3, ts-regular / ts-repeat / ts-back labels, frame-
                                                          stored-twice; out-abs / out-rel / out-dotted / out-subdir names;
                                                          again-decoy-first: an older, longer result under the same name;
                                                          again-inplace: the same Snapshots object refilled between two calls)
 d  cn = number of listed neighbours = number of weights  require(len(ids) == len(weights) == overall cn) per row
 e  the neighbour relation is symmetric                   multiset alignment of (i,j) and (j,i) facet by facet (_align)
 f  weights positive and equal in both directions         w >= 0, |w_ij - w_ji| <= 2.1e-6; a printed 0.000000 only for a near-
                                                          degenerate facet of the reference; weights vs reference per bond
 g  cell volumes sum to the box volume                    |sum - V| <= N 5.1e-7 + 2e-6 V per frame, each volume vs reference
 h  files readable by the neighbour-file reader           read_neighbors frame by frame on one open file: neighbour file with
                                                          Nmax >= max cn and with the default (reader-default-Nmax), weight file
                                                          truncated and in full: exactly the parsed rows
 i  volume-response matrix for the requested frame        volmat: frame k of the object == that frame alone (first-frame /
                                                          middle-frame / last-frame, nconfig0..2+, box-of-frame-k-differs-from-
                                                          frame0, second-request on the same object) + independent central
                                                          differences of the reference volumes with the SAME step, every
                                                          off-diagonal column (deltar-default, 0.001 .. 0.2, 0.3 x spacing:
                                                          step<0.05 / step>=0.05; close-pair-0.5 .. 3.5-steps and pair-closer-
                                                          than-4-steps / pairs-beyond-4-steps; ndim-default); volmat_large N>16
 j  rows sum to zero over each displaced coordinate       |sum_j A[i, (j, c)]| <= 1e-9 N max|A| (self-image-contact /
                                                          no-self-contact)
 Not asserted: the transformed matrix (shape only: A A^T is singular by volume conservation), triclinic boxes (the
 statement says orthogonal), accuracy of the finite differences themselves.
"""
from __future__ import annotations

import os

import numpy as np
from hypothesis import strategies as st

from ..gen import cell_st, snapshot_from
from .. import harness as H
from ..harness import Facet, Violation
from ..ref import voro
from ..util import arr, close, require

from PyMatterSim.neighbors.freud_neighbors import VolumeMatrix, cal_neighbors
from PyMatterSim.neighbors.read_neighbors import read_neighbors
from PyMatterSim.reader.reader_utils import Snapshots

RULE = ("orthogonal periodic boxes with unequal edges (float64, or integer-valued as int64 arrays) and origins {0, "
        "arbitrary, centred, bounds summing to 0} x {2D N 1..60, 3D N 1..60; medium 2D 600..1500, 3D 101..260; one 2D frame "
        "of 66 000..72 000} x 1..3 frames (same box in all frames, or a different box per frame; a frame stored twice; "
        "timestep labels regular / repeated / decreasing) x {bulk boxes, thin boxes with one edge of about one particle "
        "spacing so that cells touch their own image} x point clouds in general position (uniform, jittered lattice, "
        "clustered; bulk coordinates from numpy default_rng(k) with k drawn by Hypothesis); optional whole-box image "
        "offsets; output names {absolute, relative, with a dot, in a sub-directory}; histories {one call, an older longer "
        "result under the same name, the same Snapshots object refilled in place between two calls}. VolumeMatrix: N "
        "8..16 (volmat_large: 17..36), 1..4 frames, requested frame index 0..F-1, step {default, 0.001 .. 0.2, 0.3 x mean spacing}, optionally a pair of particles 0.5 .. 3.5 steps apart in the requested frame, "
        "a second request for another frame of the same object. non-trivial = coordination numbers differ between "
        "particles and (origin != 0 or >= 2 frames or image offsets)")
ASSUMPTIONS = [
    "general position: no two particles closer than 1e-3 of the mean spacing, nor closer than 8 float32 steps at the "
    "coordinate magnitude - freud stores float32 and voro++ terminates the process on duplicate points - (such draws "
    "are excluded and counted); thin boxes only for N <= 60, N >= 100 at number density 1: a one-cell-wide strip of "
    "thousands of cells makes the tessellation library itself fail (observed: segfault for 69045 points in 1.3 x 53111); "
    "with one or two particles per box the periodic lattice itself is degenerate (four rectangular cells meet at a "
    "corner): the zero-size facets towards diagonal images fall under the near-degenerate rule below",
    "freud stores box and points in float32: cell volumes and bond weights are compared with a tolerance made of the "
    "%.6f print rounding (5.1e-7), an analytic float32 term (ulp at L/2 times cell surface) and 8x the measured change "
    "of the float64 reference under three float32-sized perturbations of the input; bonds whose weight is below "
    "2e-3 x (mean spacing)^(d-1), or whose multiplicity changes under such a perturbation, may be present in only one "
    "of the two tessellations (near-degenerate facets)",
    "a printed weight 0.000000 is accepted only for such a near-degenerate facet",
    "known finding freud-drops-facet (3D only): a regular facet of the reference tessellation that is missing from the "
    "file (one or both directions) while both cell volumes are right is excluded and counted, at most 4 per frame; a "
    "listed bond that the reference does not have, or a wrong weight, is always a violation",
    "species labels and timestep labels are irrelevant to a tessellation (drawn arbitrarily; one block per frame of the "
    "Snapshots object in its order); every call describes the trajectory passed to it, whatever an earlier call wrote "
    "under the same output name",
    "VolumeMatrix: every configuration displaced by +-deltar along one axis must itself be in general position (no "
    "particle pushed closer than max(deltar/4, 8 float32 steps, 1e-3 spacings) to another one; such draws are excluded "
    "and counted) - the tessellation library terminates the process on duplicate points; close pairs are put along a "
    "body diagonal so that this holds by construction",
    "VolumeMatrix (boxes with edges <= 8, deltar in {0.01 = default, 0.001 .. 0.2, 0.3 x mean spacing}) is compared with central differences of the float64 "
    "reference volumes (same step) with tolerance 1e-2 of the largest entry + the float32 noise bound 4 d ulp surface/(2 deltar V) "
    "+ 4 d ulp surface/(d_min V) for the curvature over the smallest pair distance d_min; "
    "the self term is checked through the row-sum identity only",
]
MANIFEST = {
    "text": "Hypothesis generated-input search: own parser + tessellation invariants + differential against an "
            "independent scipy/Qhull periodic Voronoi construction; read_neighbors hand-off; VolumeMatrix vs independent "
            "finite differences and frame-selection metamorphic relation; facets: files2d, files3d, files2d_small, "
            "files3d_small (N 1..19: cells bounded by their own images), files2d_medium, files3d_medium, files2d_large, "
            "volmat, volmat_large; classes: int64 boxes, output-name forms, call histories on one output name / one "
            "Snapshots object, repeated and decreasing timestep labels, a frame stored twice, reader defaults",
    "note": "; ".join(ASSUMPTIONS),
    "technique": "property-based testing (Hypothesis): round trip through the written files + reference-model "
                 "differential (scipy/Qhull) + metamorphic frame selection",
}


# ----------------------------------------------------------------------------- generator


def _int_cell(c):
    """The same box written down with integers (edge lengths, origin): what a hand-built snapshot carries when the
    caller types np.array([[0, 10], [0, 10]]).  Centred boxes get even edges, boxes whose bounds sum to zero an edge
    of the parity that keeps the last origin an integer."""
    L = np.maximum(np.rint(np.diag(c["H"])), 1.0)
    o = c["origin"]
    if o == "zero":
        lo = np.zeros(len(L))
    elif o == "centred":
        L = 2.0 * np.maximum(np.rint(L / 2.0), 1.0)
        lo = -L / 2.0
    elif o == "sumzero":
        lo = np.rint(c["lo"])
        S = float(np.sum(2 * lo[:-1] + L[:-1]))
        if (S + L[-1]) % 2:
            L[-1] += 1.0
        lo[-1] = -(S + L[-1]) / 2.0
    else:
        lo = np.rint(c["lo"])
    return dict(c, H=np.diag(L), lo=lo)


def _schedule(kind, t0, T):
    """Timestep labels.  cal_neighbors / VolumeMatrix never read them: one block per frame of the Snapshots object,
    in its order, also when a label repeats (restart files) or goes back."""
    if kind == "repeat":
        return [t0 + 100 * (k // 2) for k in range(T)]
    if kind == "back":
        return [t0 + 100 * (T - k) for k in range(T)]
    return [t0 + 100 * k for k in range(T)]


def _with_lengths(cell, L):
    """The same kind of box (origin class kept) with other edge lengths."""
    L = np.asarray(L, dtype=float)
    lo = np.array(cell["lo"], dtype=float)
    if cell["origin"] == "centred":
        lo = -L / 2.0
    elif cell["origin"] == "sumzero":
        lo[-1] = -(np.sum(2 * lo[:-1] + L[:-1]) + L[-1]) / 2.0
    return dict(cell, H=np.diag(L), lo=lo)


@st.composite
def cloud_st(draw, d, nmin, nmax, frames=(1, 3), lmax=30.0, small_origin=False, vary=(False, True), density=None,
             thin=True):
    """density: rescale the drawn box (aspect ratio kept) to that number density - used for N in the hundreds and
    beyond, where edges of 3..30 would mean cells of 1e-3 and smaller whose %.6f volumes carry no digits.  thin: allow
    the thin-box class (one edge of about one particle spacing); only for N <= 60 - a one-cell-wide strip of 1000+
    cells is a 1000:1 box that no caller has, and the tessellation library itself gives up on such strips (voro++
    exits on the float32 duplicates of a 3.0 x 0.0015 strip of 1279 points; freud 3.5.0 segfaults for 69045 points in
    1.3 x 53111)."""
    cell = draw(cell_st(d, "ortho", lmin=3.0, lmax=lmax))
    if small_origin and cell["origin"] in ("arbitrary", "sumzero"):
        Lc = np.diag(cell["H"])
        lo = np.array([draw(st.integers(-400, 400)) / 100.0 for _ in range(d)])
        if cell["origin"] == "sumzero":
            lo[-1] = -(np.sum(2 * lo[:-1] + Lc[:-1]) + Lc[-1]) / 2.0
        cell["lo"] = lo
    N = draw(st.integers(nmin, nmax))
    T = draw(st.integers(*frames))
    kind = draw(st.sampled_from(["uniform", "uniform", "lattice-jit", "clustered"]))
    seeds = [draw(st.integers(0, 2**32 - 1)) for _ in range(T)]
    jit = draw(st.sampled_from([0.1, 0.25, 0.4]))
    outside = draw(st.booleans())
    if density is not None:
        L0 = np.diag(cell["H"])
        cell = _with_lengths(cell, L0 * (N / (density * float(np.prod(L0)))) ** (1.0 / d))
    shape = draw(st.sampled_from(["bulk", "bulk", "bulk", "thin"])) if thin else "bulk"
    if shape == "thin":
        # one edge of about one particle spacing: cells touch their own periodic image (self bonds, repeated bonds)
        a = draw(st.integers(0, d - 1))
        fthin = draw(st.sampled_from([0.8, 1.0, 1.3, 1.7]))
        L0 = np.diag(cell["H"]).copy()
        P = np.prod(np.delete(L0, a))
        L0[a] = (fthin ** d * P / N) ** (1.0 / (d - 1))
        cell = dict(cell, H=np.diag(L0))
        if cell["origin"] == "centred":
            cell["lo"] = -L0 / 2.0
    # per-frame boxes (NPT-like trajectories): the writer tessellates every frame in its own box
    cells = [cell]
    varybox = T >= 2 and draw(st.sampled_from(list(vary)))
    for _ in range(T - 1):
        if varybox:
            fac = np.array([draw(st.sampled_from([0.8, 0.9, 1.0, 1.1, 1.25])) for _ in range(d)])
            Lk = np.diag(cell["H"]) * fac
            lok = -Lk / 2.0 if cell["origin"] == "centred" else cell["lo"] + (draw(st.integers(-3, 3)) / 4.0 if cell["origin"] == "arbitrary" else 0.0)
            cells.append(dict(cell, H=np.diag(Lk), lo=np.array(lok, dtype=float) * np.ones(d)))
        else:
            cells.append(cell)
    # argument representation: integer-valued edges and origin, handed over as int64 arrays (see _snapshots)
    intbox = draw(st.sampled_from([False, False, False, True]))
    if intbox:
        cells = [_int_cell(c) for c in cells]
        cell = cells[0]
    # the same configuration stored twice (a restart writes the last frame again)
    dup = T >= 2 and draw(st.sampled_from([False, False, True]))
    kdup = draw(st.integers(1, T - 1)) if dup else 0
    if dup:
        cells[kdup] = cells[0]
    pos = []
    for s, ck in zip(seeds, cells):
        L = np.diag(ck["H"])
        rng = np.random.default_rng(s)
        if kind == "uniform":
            f = rng.random((N, d))
        elif kind == "clustered":
            c = rng.random((3, d))
            f = (c[rng.integers(0, 3, N)] + 0.12 * rng.standard_normal((N, d))) % 1.0
        else:
            m = int(np.ceil(N ** (1.0 / d)))
            g = np.stack(np.meshgrid(*[np.arange(m)] * d, indexing="ij"), axis=-1).reshape(-1, d)
            g = g[rng.permutation(len(g))[:N]]
            f = ((g + 0.5 + jit * (rng.random((N, d)) - 0.5) * 2) / m) % 1.0
        off = rng.integers(-1, 2, (N, d)).astype(float) if outside else 0.0
        pos.append(ck["lo"] + (f + off) * L)
    if dup:
        pos[kdup] = pos[0].copy()
    t0 = draw(st.integers(0, 10**6))
    sched = draw(st.sampled_from(["regular", "regular", "repeat", "back"])) if T >= 2 else "regular"
    # species labels are irrelevant to a tessellation; drawn so that no frame is special-cased through them
    types = np.array(draw(st.lists(st.integers(1, 3), min_size=N, max_size=N)), dtype=int) if N <= 100 else \
        np.random.default_rng(seeds[0]).integers(1, 4, N)
    return {"d": d, "cell": cell, "cells": cells, "shape": shape, "varybox": bool(varybox and any(
                not np.array_equal(c["H"], cell["H"]) for c in cells)),
            "pos": pos, "types": types, "kind": kind, "outside": outside,
            "timesteps": _schedule(sched, t0, T), "schedule": sched, "intbox": intbox, "dup": bool(dup),
            "outname": draw(st.sampled_from(["abs", "abs", "rel", "dotted", "subdir"])),
            "again": draw(st.sampled_from(["no", "no", "no", "decoy-first", "inplace"])),
            "decoy_seed": draw(st.integers(0, 2**32 - 1)), "reader_default": draw(st.booleans()),
            "nmax_extra": draw(st.integers(0, 5)), "nmax_trunc": draw(st.integers(1, 4))}


def _int_box_snapshot(cell, pos, types, ts):
    from PyMatterSim.reader.reader_utils import SingleSnapshot

    L = np.rint(np.diag(cell["H"])).astype(np.int64)
    lo = np.rint(cell["lo"]).astype(np.int64)
    return SingleSnapshot(timestep=int(ts), nparticle=len(pos), particle_type=np.array(types, dtype=int),
                          positions=np.array(pos, dtype=float), boxlength=L.copy(),
                          boxbounds=np.stack([lo, lo + L], axis=1), realbounds=None, hmatrix=np.diag(L))


def _snapshots(case, frames=None, pos=None):
    idx = range(len(case["pos"])) if frames is None else frames
    pos = case["pos"] if pos is None else pos
    make = _int_box_snapshot if case.get("intbox") else snapshot_from
    snaps = [make(case["cells"][k], pos[k], case["types"], case["timesteps"][k]) for k in idx]
    return Snapshots(nsnapshots=len(snaps), snapshots=snaps)


def _decoy_positions(case, extra=0):
    """Other configurations in the same boxes (numpy default_rng(seed), seed drawn by Hypothesis): what an earlier call
    on the same output name, or the same Snapshots object before it was refilled, was about."""
    rng = np.random.default_rng(case.get("decoy_seed", 0))
    N, d = case["pos"][0].shape
    return [ck["lo"] + rng.random((N + extra, d)) * np.diag(ck["H"]) for ck in case["cells"]]


def _f32_resolution(pos, lo, L):
    """Spacing of float32 numbers at the largest coordinate magnitude the tessellation library may hold (it stores the
    points in float32: raw coordinates when the bounds sum to zero, coordinates relative to the box centre otherwise,
    and wraps them by the float32 edge lengths)."""
    m = max(float(np.abs(pos).max()), float(np.abs(pos - lo - 0.5 * L).max()), float(np.max(L)))
    return float(np.spacing(np.float32(m)))


def _general_position(case, pos=None):
    """No two particles (periodic images included) closer than 1e-3 of the mean spacing, nor closer than 8 float32
    steps at the coordinate magnitude: after the conversion to float32 (each coordinate off by <= 1/2 step, the wrap by
    another step) they would coincide or nearly so, and voro++ terminates the process on duplicate points."""
    d = case["d"]
    for p, ck in zip(case["pos"] if pos is None else pos, case["cells"]):
        L = np.diag(ck["H"])
        N = len(p)
        spacing = (np.prod(L) / N) ** (1.0 / d)
        q = p - ck["lo"]
        q = q - np.floor(q / L) * L
        dr = q[:, None, :] - q[None, :, :]
        dr -= np.round(dr / L) * L
        dist = np.sqrt((dr ** 2).sum(-1)) + np.eye(N) * 1e9
        if dist.min() < max(1e-3 * spacing, 8.0 * _f32_resolution(p, ck["lo"], L)):
            return False
    return True


def _f32_eps(L, pos=None, lo=None):
    """Two float32 ulps at the largest coordinate magnitude the tessellation library may see (it stores points in
    float32 and wraps them in float32): raw coordinates, coordinates relative to the box centre, or L/2."""
    m = 0.5 * float(np.max(L))
    if pos is not None:
        m = max(m, float(np.abs(pos).max()), float(np.abs(pos - lo - 0.5 * L).max()))
    return 2.0 * float(np.spacing(np.float32(m)))


def _ref_with_sensitivity(pos, lo, L):
    """Reference tessellation plus, per cell and per bond, how much it moves under float32-sized perturbations of
    the input (three deterministic sign patterns).  Bonds whose multiplicity changes under perturbation are flagged."""
    eps = _f32_eps(L, pos, lo)
    base = pos - lo
    vol0, bonds0 = voro.periodic_voronoi(base, L)
    N = len(base)

    def table(bonds):
        t = [dict() for _ in range(N)]
        for i in range(N):
            for j, w in bonds[i]:
                t[i].setdefault(j, []).append(w)
            for j in t[i]:
                t[i][j].sort(reverse=True)
        return t

    t0 = table(bonds0)
    svol = np.zeros(N)
    sw = [dict() for _ in range(N)]
    unstable = [set() for _ in range(N)]
    rng = np.random.default_rng(20240917)
    for _ in range(3):
        sign = rng.integers(0, 2, base.shape) * 2.0 - 1.0
        v, b = voro.periodic_voronoi(base + eps * sign, L)
        svol = np.maximum(svol, np.abs(v - vol0))
        t = table(b)
        for i in range(N):
            for j in set(t0[i]) | set(t[i]):
                a, c = t0[i].get(j, []), t[i].get(j, [])
                if len(a) != len(c):
                    unstable[i].add(j)
                else:
                    sw[i][j] = max(sw[i].get(j, 0.0), max(abs(x - y) for x, y in zip(a, c)))
    surf = np.array([sum(w for _, w in bonds0[i]) for i in range(N)])
    return vol0, t0, svol, sw, unstable, surf, eps


# ----------------------------------------------------------------------------- file parsing (own parser)


def parse_framed(path, header_tail, N, nframes, what):
    """neighbour / bond file: per frame one header line 'id cn <tail>' and N rows 'id cn v1 ... vcn'."""
    with open(path) as f:
        lines = f.read().split("\n")
    if lines and lines[-1] == "":
        lines.pop()
    require(len(lines) == nframes * (N + 1),
            f"{what}: {len(lines)} lines for {nframes} frames of {N} particles (expected {nframes * (N + 1)})")
    frames = []
    for k in range(nframes):
        hdr = lines[k * (N + 1)].split()
        require(hdr == ["id", "cn", header_tail], f"{what}: frame {k} header {hdr!r}")
        rows = []
        for r in range(N):
            tok = lines[k * (N + 1) + 1 + r].split()
            require(len(tok) >= 2, f"{what}: frame {k} row {r} too short: {tok!r}")
            try:
                pid, cn = int(tok[0]), int(tok[1])
                vals = [float(t) for t in tok[2:]]
            except ValueError:
                raise Violation(f"{what}: frame {k} row {r} not numeric: {tok!r}")
            require(pid == r + 1, f"{what}: frame {k} row {r} has id {pid}; ids must be 1..N once, in order")
            require(cn == len(vals), f"{what}: frame {k} id {pid}: cn = {cn} but {len(vals)} entries listed")
            rows.append(vals)
        frames.append(rows)
    return frames


def parse_overall(path, N, nframes):
    with open(path) as f:
        lines = [ln for ln in f.read().split("\n") if ln != ""]
    require(lines and lines[0].split() == ["id", "cn", "area_or_volume"], f"overall file header {lines[:1]!r}")
    body = [ln for ln in lines if ln.split()[:1] != ["id"]]
    require(len(body) == N * nframes, f"overall file: {len(body)} rows for {nframes} frames of {N} particles")
    out = []
    for k in range(nframes):
        rows = []
        for r in range(N):
            tok = body[k * N + r].split()
            require(len(tok) == 3, f"overall file: frame {k} row {r}: {tok!r}")
            pid, cn, v = int(tok[0]), int(tok[1]), float(tok[2])
            require(pid == r + 1, f"overall file: frame {k} row {r} has id {pid}")
            rows.append((cn, v))
        out.append(rows)
    return out


# ----------------------------------------------------------------------------- facet: the three files


def check_files(case):
    d = case["d"]
    if not _general_position(case):
        return {"nontrivial": False, "tags": ["excluded-near-coincident"], "extra": {"excluded": 1}}
    N = len(case["types"])
    T = len(case["pos"])
    # output name: absolute, relative, with a dot inside, inside a sub-directory (the three suffixes are appended)
    outname = case.get("outname", "abs")
    out = {"abs": os.path.join(os.getcwd(), "voro"), "rel": "voro", "dotted": "run.1",
           "subdir": os.path.join("res", "voro.out")}[outname]
    if outname == "subdir":
        os.makedirs("res", exist_ok=True)
    for suffix in (".neighbor.dat", ".edgelength.dat", ".facearea.dat", ".overall.dat"):
        if os.path.exists(out + suffix):
            os.remove(out + suffix)
    # history: every call describes the trajectory passed to it, whatever the same name / the same object held before
    again = case.get("again", "no")
    if again != "no" and not _general_position(case, _decoy_positions(case, extra=3 if again == "decoy-first" else 0)):
        again = "no"             # (a decoy with two nearly coincident points is not used)
    if again == "decoy-first":   # an earlier, longer result under the same name (3 more particles, one more frame)
        dpos = _decoy_positions(case, extra=3)
        decoy = dict(case, pos=dpos + [dpos[0][::-1].copy()], cells=case["cells"] + [case["cells"][0]],
                     types=np.ones(N + 3, dtype=int), timesteps=list(case["timesteps"]) + [case["timesteps"][-1] + 100])
        cal_neighbors(_snapshots(decoy), outputfile=out)
    if again == "inplace":       # the same Snapshots object, refilled in place between two calls
        snaps = _snapshots(case, pos=_decoy_positions(case))
        cal_neighbors(snaps, outputfile=out)
        for sn, p in zip(snaps.snapshots, case["pos"]):
            sn.positions[...] = p
    else:
        snaps = _snapshots(case)
    before = [s.positions.copy() for s in snaps.snapshots]
    cal_neighbors(snaps, outputfile=out)
    for s, b in zip(snaps.snapshots, before):
        require(np.array_equal(s.positions, b), "cal_neighbors modified the snapshot positions")
    tail = "edgelengthlist" if d == 2 else "facearealist"
    wname = out + (".edgelength.dat" if d == 2 else ".facearea.dat")
    for p in (out + ".neighbor.dat", wname, out + ".overall.dat"):
        require(os.path.exists(p), f"output file {os.path.basename(p)} not written")
    nb = parse_framed(out + ".neighbor.dat", "neighborlist", N, T, "neighbour file")
    wt = parse_framed(wname, tail, N, T, "bond-weight file")
    ov = parse_overall(out + ".overall.dat", N, T)

    ambiguous = 0
    known_dropped = 0
    self_bonds = 0
    cn_varies = False
    for k in range(T):
        L = np.diag(case["cells"][k]["H"])
        V = float(np.prod(L))
        spacing = (V / N) ** (1.0 / d)
        wtol = 2e-3 * spacing ** (d - 1)
        ids = [[int(v) for v in row] for row in nb[k]]
        for i in range(N):
            require(all(float(a) == float(b) for a, b in zip(ids[i], nb[k][i])), f"frame {k} id {i + 1}: non-integer neighbour id")
            require(all(1 <= j <= N for j in ids[i]), f"frame {k} id {i + 1}: neighbour id outside 1..N: {ids[i]}")
            require(len(ids[i]) == len(wt[k][i]) == ov[k][i][0],
                    f"frame {k} id {i + 1}: cn differs between files: {len(ids[i])} neighbours, {len(wt[k][i])} weights, "
                    f"overall cn {ov[k][i][0]}")
            require(all(w >= 0 for w in wt[k][i]), f"frame {k} id {i + 1}: negative bond weight {wt[k][i]}")
        self_bonds += sum(1 for i in range(N) for j in ids[i] if j == i + 1)
        cn = np.array([len(r) for r in ids])
        cn_varies = cn_varies or len(set(cn.tolist())) > 1
        # symmetric as a multiset, weights equal in both directions
        fwd = {}
        for i in range(N):
            for j, w in zip(ids[i], wt[k][i]):
                fwd.setdefault((i, j - 1), []).append(w)
        for (i, j), ws in fwd.items():
            back = sorted(fwd.get((j, i), []), reverse=True)
            ws = sorted(ws, reverse=True)
            # a pair of particles can share several facets (different images); align the two directions facet by facet
            for a, b in _align(ws, back, lambda x, y: abs(x - y) <= 2.1e-6 or max(x, y) < wtol):
                if a is None or b is None:
                    # a facet seen from one side only is tolerated only when it is near-degenerate
                    w1 = a if b is None else b
                    if d == 3 and w1 >= wtol and not H.STRICT:
                        continue  # known finding freud-drops-facet: decided below against the reference tessellation
                    require(w1 < wtol, f"frame {k}: bond {i + 1}->{j + 1} (weight {w1!r}) has no reverse entry "
                                       f"(near-degenerate threshold {wtol:.2e}); facets {ws} vs {back}")
                    ambiguous += 1
        vols = np.array([v for _, v in ov[k]])
        require(np.all(vols >= 0), f"frame {k}: negative cell volume")
        require(abs(vols.sum() - V) <= N * 5.1e-7 + 2e-6 * V,
                f"frame {k}: cell volumes sum to {vols.sum()!r}, box volume {V!r}")
        # differential against the independent tessellation; tolerances are calibrated per cell / per bond from the
        # measured sensitivity of the reference to float32-sized input perturbations (see ASSUMPTIONS)
        rvol, rtab, svol, sw, unstable, surf, eps = _ref_with_sensitivity(case["pos"][k], case["cells"][k]["lo"], L)
        vtol = 5.1e-7 + 1e-9 * V + 8 * svol + 4 * d * eps * surf
        # positive: a volume may print as 0.000000 only if the cell itself is below the print resolution
        require(np.all((vols > 0) | (rvol < 2e-6)), f"frame {k}: non-positive cell volume")
        badv = np.abs(vols - rvol) > vtol
        require(not badv.any(), lambda: f"frame {k}: cell volume of id {int(np.argmax(badv)) + 1} is {vols[badv][0]!r}, "
                                        f"reference {rvol[badv][0]!r} (tolerance {vtol[badv][0]:.2e})")
        dropped = 0
        for i in range(N):
            got = {}
            for j, w in zip(ids[i], wt[k][i]):
                got.setdefault(j - 1, []).append(w)
            for j in set(rtab[i]) | set(got):
                r = sorted(rtab[i].get(j, []), reverse=True)
                g = sorted(got.get(j, []), reverse=True)
                s_ij = sw[i].get(j, 0.0)

                def _tol(b):
                    t = 5.1e-7 + 8 * s_ij + 16 * eps * (1.0 + b) ** ((d - 2) / max(d - 1, 1)) + 1e-9 * b
                    return t + wtol if j in unstable[i] else t

                # several facets between the same two particles (images): align file and reference facet by facet
                for a, b in _align(g, r, lambda x, y: abs(x - y) <= _tol(y)):
                    a = 0.0 if a is None else a
                    b = 0.0 if b is None else b
                    if a == 0.0 or b == 0.0:
                        # facet present in only one tessellation (or printed as 0.000000): must be near-degenerate
                        if d == 3 and a == 0.0 and b >= wtol + 8 * s_ij and j not in unstable[i] and not H.STRICT:
                            # known finding freud-drops-facet (KNOWN_FINDINGS.json): in 3D the tessellation library
                            # occasionally omits a regular facet from its bond list although the cell itself (volume,
                            # checked above) is right.  Excluded here and counted; anything else is still reported.
                            dropped += 1
                            continue
                        require(max(a, b) < wtol + 8 * s_ij or j in unstable[i],
                                f"frame {k}: bond {i + 1}->{j + 1}: weight {a!r} in file, {b!r} in the reference "
                                f"tessellation (tolerance {wtol + 8 * s_ij:.2e}); facets {g} vs {r}")
                        ambiguous += 1
        require(dropped <= 4, f"frame {k}: {dropped} regular facets of the reference tessellation are missing from the "
                              f"neighbour file (more than the isolated omissions of the known finding freud-drops-facet)")
        known_dropped += dropped
    # hand-off to the neighbour-file reader, frame by frame from one open file
    maxcn = max(len(r) for fr in nb for r in fr)
    nmax_big = maxcn + case["nmax_extra"]
    with open(out + ".neighbor.dat") as f:
        for k in range(T):
            a = arr(f"read_neighbors(neighbour file) frame {k}", read_neighbors(f, N, Nmax=nmax_big), ndim=2)
            fmax = max(len(r) for r in nb[k])
            require(a.shape == (N, 1 + min(fmax, nmax_big)), f"read_neighbors frame {k}: shape {a.shape}, max cn {fmax}, Nmax {nmax_big}")
            for i in range(N):
                c = len(nb[k][i])
                want = [c] + [int(v) - 1 for v in nb[k][i]] + [0] * (a.shape[1] - 1 - c)
                require(a[i].tolist() == want, f"read_neighbors frame {k} particle {i}: {a[i].tolist()} != {want}")
    if case.get("reader_default"):  # Nmax left at the reader's default (200)
        with open(out + ".neighbor.dat") as f:
            for k in range(T):
                a = arr(f"read_neighbors(neighbour file, default Nmax) frame {k}", read_neighbors(f, N), ndim=2)
                fmax = max(len(r) for r in nb[k])
                require(a.shape == (N, 1 + fmax), f"read_neighbors (default Nmax) frame {k}: shape {a.shape}, max cn {fmax}")
                for i in range(N):
                    c = len(nb[k][i])
                    want = [c] + [int(v) - 1 for v in nb[k][i]] + [0] * (fmax - c)
                    require(a[i].tolist() == want, f"read_neighbors (default Nmax) frame {k} particle {i}: {a[i].tolist()} != {want}")
        with open(wname) as f:      # the weight file in full
            for k in range(T):
                a = arr(f"read_neighbors(weight file, full) frame {k}", read_neighbors(f, N, Nmax=maxcn + 1), ndim=2)
                fmax = max(len(r) for r in wt[k])
                require(a.shape == (N, 1 + fmax), f"read_neighbors(weights, full) frame {k}: shape {a.shape}, max cn {fmax}")
                for i in range(N):
                    c = len(wt[k][i])
                    want = [float(c)] + wt[k][i] + [0.0] * (fmax - c)
                    require(np.array_equal(a[i], np.array(want)), f"read_neighbors(weights, full) frame {k} particle {i}: {a[i].tolist()} != {want}")
    nt = min(case["nmax_trunc"], maxcn)
    with open(wname) as f:
        for k in range(T):
            a = arr(f"read_neighbors(weight file) frame {k}", read_neighbors(f, N, Nmax=nt), ndim=2)
            fmax = max(len(r) for r in wt[k])
            require(a.shape == (N, 1 + min(fmax, nt)), f"read_neighbors(weights) frame {k}: shape {a.shape}")
            for i in range(N):
                c = min(len(wt[k][i]), nt)
                want = [float(c)] + wt[k][i][:c] + [0.0] * (a.shape[1] - 1 - c)
                require(np.array_equal(a[i], np.array(want)), f"read_neighbors(weights) frame {k} particle {i}: {a[i].tolist()} != {want}")
    origin = case["cell"]["origin"]
    nontrivial = bool(cn_varies and (origin != "zero" or T >= 2 or case["outside"]))
    tags = [f"d{d}", f"origin-{origin}", f"frames{T}", case["kind"], "outside" if case["outside"] else "inside",
            "N1-3" if N <= 3 else ("N4-11" if N <= 11 else ("N<=20" if N <= 20 else ("N>20" if N <= 100 else "N>100"))),
            "box-" + case["shape"], "box-varies" if case["varybox"] else "box-constant",
            "self-image-bonds" if self_bonds else "no-self-bonds", "out-" + outname, "again-" + again,
            "box-int64" if case.get("intbox") else "box-float"]
    if T >= 2:
        tags.append("ts-" + case.get("schedule", "regular"))
    if case.get("dup"):
        tags.append("frame-stored-twice")
    if case.get("reader_default"):
        tags.append("reader-default-Nmax")
    if len(set(np.asarray(case["types"]).tolist())) > 1:
        tags.append("types-mixed")
    return {"nontrivial": nontrivial, "tags": tags, "extra": {"ambiguous_facets": ambiguous, "self_image_bonds": self_bonds,
                                                              "excluded_known_freud_dropped_facets": known_dropped}}


# ----------------------------------------------------------------------------- facet: volume-response matrix


# ----------------------------------------------------------------------------- facet: one large 2D configuration


@st.composite
def large_cloud_st(draw):
    """One frame of 66 000 .. 72 000 particles in 2D (thorough tier): N (N + 1) exceeds 2^32, the size at which
    packed 32-bit keys, id products and row offsets overflow (seeded C20-C).  Uniform random points in a box of the
    matching area, any origin kind."""
    N = draw(st.integers(66000, 72000))
    return draw(cloud_st(2, N, N, frames=(1, 1), lmax=30.0, thin=False)) | {"large": True}


def _rescale_large(case):
    """cloud_st draws box lengths for tens of particles; give the large cloud unit number density."""
    N = len(case["types"])
    L0 = np.diag(case["cell"]["H"])
    fac = np.sqrt(N / float(np.prod(L0)))
    lo0 = case["cell"]["lo"]
    cell = _with_lengths(case["cell"], L0 * fac)   # origin class kept, origin magnitude as drawn (<= 50)
    pos = [(p - lo0) * fac + cell["lo"] for p in case["pos"]]
    return dict(case, cell=cell, cells=[cell], pos=pos, intbox=False)


def check_large(case):
    case = _rescale_large(case)
    N = len(case["types"])
    pos, L, lo = case["pos"][0], np.diag(case["cell"]["H"]), case["cell"]["lo"]
    from scipy.spatial import cKDTree
    wrapped = (pos - lo) % L
    dmin = cKDTree(wrapped, boxsize=L).query(wrapped, k=2)[0][:, 1].min()
    if dmin < max(1e-3, 8.0 * _f32_resolution(pos, lo, L)):
        return {"nontrivial": False, "tags": ["excluded-near-coincident"], "extra": {"excluded": 1}}
    snaps = _snapshots(case)
    out = os.path.join(os.getcwd(), "voro")
    cal_neighbors(snaps, outputfile=out)
    nb = parse_framed(out + ".neighbor.dat", "neighborlist", N, 1, "neighbour file")[0]
    wt = parse_framed(out + ".edgelength.dat", "edgelengthlist", N, 1, "bond-weight file")[0]
    ov = parse_overall(out + ".overall.dat", N, 1)[0]
    cn = np.array([len(r) for r in nb])
    require(np.array_equal(cn, [len(r) for r in wt]), "coordination numbers of the neighbour and weight files differ")
    require(np.array_equal(cn, [c for c, _ in ov]), "coordination numbers of the neighbour and overall files differ")
    ii = np.repeat(np.arange(N), cn)
    jj = np.concatenate([np.asarray(r, dtype=np.int64) for r in nb]) - 1
    ww = np.concatenate([np.asarray(r, dtype=float) for r in wt])
    require(jj.min() >= 0 and jj.max() < N, f"neighbour ids outside 1..N: {jj.min() + 1}..{jj.max() + 1}")
    require(np.all(ww >= 0), "negative bond weight")
    # symmetric as a multiset, weights equal in both directions.  Near-degenerate facets (below wtol x spacing) may
    # be seen from one side only; a facet within 1e-5 of that threshold may fall on different sides of it in the two
    # directions, hence the two thresholds.
    from collections import Counter
    wtol = 2e-3
    strong = ww >= wtol + 1e-5
    weak = ww >= wtol - 1e-5
    have = Counter(zip(jj[weak].tolist(), ii[weak].tolist()))          # reverse bonds available (as (i, j))
    need = Counter(zip(ii[strong].tolist(), jj[strong].tolist()))
    missing = [(k, c - have.get(k, 0)) for k, c in need.items() if have.get(k, 0) < c]
    require(not missing, lambda: f"neighbour relation not symmetric: {len(missing)} regular facets without a reverse "
                                 f"entry, e.g. ids {[(a + 1, b + 1) for (a, b), _ in missing[:5]]}")
    # weights: sort the bonds of each direction by (i, j, w) and compare where the multisets of pairs coincide
    f = np.lexsort((ww[strong], jj[strong], ii[strong]))
    fi, fj, fw = ii[strong][f], jj[strong][f], ww[strong][f]
    rev = {}
    for a, b, w in zip(jj[weak].tolist(), ii[weak].tolist(), ww[weak].tolist()):
        rev.setdefault((a, b), []).append(w)
    worst = 0.0
    for a, b, w in zip(fi.tolist(), fj.tolist(), fw.tolist()):
        worst = max(worst, min(abs(w - x) for x in rev[(a, b)]))
    require(worst <= 2.1e-6, f"bond weights differ by direction by {worst!r}")
    vols = np.array([v for _, v in ov])
    V = float(np.prod(L))
    require(np.all(vols > 0), "non-positive cell area")
    require(abs(vols.sum() - V) <= N * 5.1e-7 + 1e-5 * V, f"cell areas sum to {vols.sum()!r}, box area {V!r}")
    with open(out + ".neighbor.dat") as fh:
        a = arr("read_neighbors(large file)", read_neighbors(fh, N, Nmax=int(cn.max()) + 2), ndim=2)
    require(a.shape == (N, 1 + int(cn.max())), f"read_neighbors: shape {a.shape} for max cn {int(cn.max())}")
    require(np.array_equal(a[:, 0], cn), "read_neighbors: coordination numbers differ from the file")
    pick = np.linspace(0, N - 1, 400).astype(int)
    for i in pick:
        require(np.array_equal(a[i, 1:1 + cn[i]], np.asarray(nb[i], dtype=int) - 1), f"read_neighbors: row of id {i + 1} differs")
    return {"nontrivial": True, "tags": ["d2", f"N>2^16", "origin-" + case["cell"]["origin"], case["kind"]],
            "extra": {"bonds": int(len(ii))}}


def describe_large(case):
    return {"N": int(len(case["types"])), "kind": case["kind"], "origin": case["cell"]["origin"]}


@st.composite
def volmat_st(draw, n2=(8, 14), n3=(12, 16), frames=(1, 4)):
    d = draw(st.sampled_from([2, 2, 3]))
    # edges <= 8: the finite-difference quotient amplifies the float32 input rounding (one ulp at L/2) by 1/(2 deltar)
    # and |origin| <= 4 (the library does not centre a box whose bounds sum to zero, so raw magnitudes matter)
    lo, hi = n2 if d == 2 else n3
    case = draw(cloud_st(d, lo, hi, frames=frames, lmax=8.0, small_origin=True, vary=(False, True, True)))
    T = len(case["pos"])
    # requested frame: counted from the last one, so that Hypothesis' preference for small integers favours the frames
    # a "first frame only" slip gets wrong
    case["nconfig"] = T - 1 - draw(st.integers(0, T - 1))
    # step: the documented default (not passed), or an explicit one on either side of it
    case["deltar"] = draw(st.sampled_from([None, None, 0.01, 0.001, 0.005, 0.02, 0.05, 0.1, 0.2, "rel0.3"]))
    if case["deltar"] == "rel0.3":   # a caller who scales the step with the system: 0.3 x mean spacing
        ck = case["cells"][case["nconfig"]]
        case["deltar"] = round(0.3 * float(np.prod(np.diag(ck["H"])) / len(case["types"])) ** (1.0 / d), 3)
    # a close pair in the requested frame: distance 0.5 .. 3.5 steps (dimers, overlapping soft particles, a collapsed
    # configuration).  Particle b is put next to particle a along a body diagonal, so that a displaced by +-step along
    # any axis stays >= 0.7 step away from b (no near-duplicates for the tessellation library).  Only for steps >= 0.005:
    # the pair must stay beyond 1e-3 mean spacings (general position, float32).
    step = 0.01 if case["deltar"] is None else case["deltar"]
    close = draw(st.sampled_from([None, None, 0.5, 1.0, 2.0, 3.5]))
    N = len(case["types"])
    a = draw(st.integers(0, N - 1))
    b = (a + 1 + draw(st.integers(0, N - 2))) % N
    signs = np.array([draw(st.sampled_from([-1.0, 1.0])) for _ in range(d)])
    case["close"] = None
    if close is not None and step >= 0.005:
        k = case["nconfig"]
        pk = case["pos"][k].copy()
        pk[b] = pk[a] + close * step * signs / np.sqrt(d)
        case["pos"] = [pk if f == k else q for f, q in enumerate(case["pos"])]
        case["close"] = close
    case["omit_ndim"] = d == 2 and draw(st.booleans())     # ndim = 2 is the documented default
    case["save"] = draw(st.sampled_from([False, True, True]))
    case["savename"] = draw(st.sampled_from(["volmat.npy", "volmat", "vm.raw.dat"]))   # np.save appends .npy
    case["second"] = T >= 2 and draw(st.booleans())        # then also ask for another frame of the same object
    return case


def _displaced_min_distance(pos, lo, L, deltar):
    """Smallest distance (periodic) between a particle displaced by +-deltar along one axis and any other particle;
    deltar = 0: smallest pair distance of the configuration itself."""
    q = pos - lo
    q = q - np.floor(q / L) * L
    N, d = q.shape
    best = np.inf
    for j in range(d):
        for sgn in ((1.0, -1.0) if deltar else (1.0,)):
            moved = q.copy()
            moved[:, j] += sgn * deltar
            dr = moved[:, None, :] - q[None, :, :]
            dr -= np.round(dr / L) * L
            dist = np.sqrt((dr ** 2).sum(-1)) + np.eye(N) * 1e9
            best = min(best, float(dist.min()))
    return best


def _ref_matrix(pos, lo, L, deltar):
    N, d = pos.shape
    base = pos - lo
    V0, _ = voro.periodic_voronoi(base, L, bonds=False)
    A = np.zeros((N, N * d))
    for i in range(N):
        for j in range(d):
            p = base.copy()
            p[i, j] += deltar
            V1, _ = voro.periodic_voronoi(p, L, bonds=False)
            p[i, j] -= 2 * deltar
            V2, _ = voro.periodic_voronoi(p, L, bonds=False)
            A[:, d * i + j] = (V1 - V2) / (2 * deltar)
    return A / V0[:, None], V0


def check_volmat(case):
    d = case["d"]
    if not _general_position(case):
        return {"nontrivial": False, "tags": ["excluded-near-coincident"], "extra": {"excluded": 1}}
    N = len(case["types"])
    T = len(case["pos"])
    k = case["nconfig"]
    cellk = case["cells"][k]
    L = np.diag(cellk["H"])
    snaps = _snapshots(case)
    before = [s.positions.copy() for s in snaps.snapshots]
    savename = case.get("savename", "volmat.npy")
    outfile = os.path.join(os.getcwd(), savename) if case["save"] else ""
    written = outfile if outfile.endswith(".npy") else outfile + ".npy"   # numpy.save appends the extension
    deltar = 0.01 if case["deltar"] is None else case["deltar"]           # documented default
    # domain: every displaced configuration (particle i moved by +-deltar along axis j) must itself be in general
    # position - a large step may push a particle onto another one, and the tessellation library terminates the
    # process on (float32) duplicate points
    spacing = (float(np.prod(L)) / N) ** (1.0 / d)
    dmin = _displaced_min_distance(case["pos"][k], cellk["lo"], L, deltar)
    safe = max(0.25 * deltar, 8.0 * _f32_resolution(case["pos"][k], cellk["lo"], L), 1e-3 * spacing)
    if dmin < safe:
        return {"nontrivial": False, "tags": ["excluded-displaced-near-coincident", f"d{d}"], "extra": {"excluded": 1}}
    kw = {}
    if case["deltar"] is not None:
        kw["deltar"] = case["deltar"]
    if not case.get("omit_ndim"):
        kw["ndim"] = d
    if os.path.exists(written):
        os.remove(written)
    A = arr("VolumeMatrix(transform_matrix=False)",
            VolumeMatrix(snaps, nconfig=k, transform_matrix=False, outputfile=outfile, **kw), shape=(N, N * d))
    for s, b in zip(snaps.snapshots, before):
        require(np.array_equal(s.positions, b), "VolumeMatrix modified the snapshot positions")
    require(np.all(np.isfinite(A)), "VolumeMatrix returned non-finite entries")
    if case["save"]:
        require(os.path.exists(written), f"VolumeMatrix(outputfile={savename!r}) wrote no file {os.path.basename(written)}")
        close("saved raw matrix", np.load(written), A, rtol=0, atol=0)
    # rows sum to zero over each displaced coordinate
    rs = A.reshape(N, N, d).sum(axis=1)
    scale = np.abs(A).max()
    require(np.all(np.abs(rs) <= 1e-9 * scale * N), f"rows do not sum to zero per displaced coordinate: max {np.abs(rs).max():.3e}")
    # frame selection: frame k of the trajectory == that frame alone
    single = _snapshots(case, frames=[k])
    A1 = arr("VolumeMatrix(single frame)", VolumeMatrix(single, ndim=d, nconfig=0, deltar=deltar,
                                                        transform_matrix=False), shape=(N, N * d))
    close("matrix for frame k of a trajectory vs that frame alone", A, A1, rtol=1e-9, atol=1e-12 * scale)
    k2 = (k + 1) % T
    second = bool(case.get("second") and T >= 2)
    if second:
        c2 = case["cells"][k2]
        L2 = np.diag(c2["H"])
        second = _displaced_min_distance(case["pos"][k2], c2["lo"], L2, deltar) >= max(
            0.25 * deltar, 8.0 * _f32_resolution(case["pos"][k2], c2["lo"], L2), 1e-3 * (float(np.prod(L2)) / N) ** (1.0 / d))
    if second:
        # a second request on the same Snapshots object, for another frame: again that frame alone
        A2 = arr("VolumeMatrix(second request)", VolumeMatrix(snaps, d, k2, deltar, False), shape=(N, N * d))
        A2s = arr("VolumeMatrix(single frame, second request)",
                  VolumeMatrix(_snapshots(case, frames=[k2]), ndim=d, nconfig=0, deltar=deltar, transform_matrix=False),
                  shape=(N, N * d))
        close("second request (another frame of the same object) vs that frame alone", A2, A2s, rtol=1e-9,
              atol=1e-12 * np.abs(A2s).max())
        for s, b in zip(snaps.snapshots, before):
            require(np.array_equal(s.positions, b), "VolumeMatrix (second request) modified the snapshot positions")
    # independent central differences (float64 Qhull volumes); the self term is not compared (it is defined by the
    # row sums).  Noise model: each float32-rounded input moves a cell volume by <~ eps * surface, the difference
    # quotient divides that by 2 deltar.
    R, V0 = _ref_matrix(case["pos"][k], cellk["lo"], L, deltar)
    _, rbonds = voro.periodic_voronoi(case["pos"][k] - cellk["lo"], L)
    surf = np.array([sum(w for _, w in rbonds[i]) for i in range(N)])
    eps = _f32_eps(L, case["pos"][k], cellk["lo"])
    self_touch = any(j == i for i in range(N) for j, _ in rbonds[i])
    noise = 4 * d * eps * surf / (2 * deltar)  # per row, in units of volume per length
    # close pairs: the derivative itself changes over the pair distance (curvature ~ surface / distance), and the library
    # evaluates it at float32-rounded positions
    noise = noise + 4 * d * eps * surf / min(dmin, _displaced_min_distance(case["pos"][k], cellk["lo"], L, 0.0))
    off = np.ones((N, N * d), dtype=bool)
    for i in range(N):
        off[i, d * i:d * i + d] = False
    colscale = np.abs(R).max()
    tol = 1e-2 * colscale + (noise / V0)[:, None] + 1e-6
    bad = off & (np.abs(A - R) > tol)
    require(not bad.any(), lambda: f"off-diagonal volume response differs from independent central differences at "
                                   f"{np.argwhere(bad)[0].tolist()}: got {A[bad][0]!r}, reference {R[bad][0]!r} "
                                   f"(tolerance {np.broadcast_to(tol, A.shape)[bad][0]:.3e}, scale {colscale:.3e})")
    # (No volume-conservation assertion: sum_i V_i A[i,c] = 0 holds for exact derivatives only; with the self term
    # defined through the row sums it measures the finite-difference error - up to 5 % for clustered points - which
    # the property does not bound.  The self term is pinned by the row-sum identity above instead.)
    # transformed matrix: shape only (A A^T is singular by volume conservation)
    tfile = os.path.join(os.getcwd(), "volmat_t.npy") if case["save"] else ""
    try:
        B = VolumeMatrix(snaps, ndim=d, nconfig=k, deltar=deltar, transform_matrix=True, outputfile=tfile)
    except np.linalg.LinAlgError:
        B = None  # exactly singular A A^T: no contract
    if B is not None:
        arr("VolumeMatrix(transform_matrix=True)", B, shape=(N * d, N * d))
        if case["save"] and np.all(np.isfinite(np.asarray(B))):
            close("saved transformed matrix", np.load(tfile), B, rtol=0, atol=0)
    distinct_frames = T >= 2 and k >= 1
    tags = [f"d{d}", f"origin-{case['cell']['origin']}", f"frames{T}", f"nconfig{min(k, 2)}" + ("+" if k > 2 else ""),
            "deltar-default" if case["deltar"] is None else f"deltar{case['deltar']}",
            ("saved-" + savename) if case["save"] else "unsaved", "outside" if case["outside"] else "inside",
            "box-" + case["shape"], "box-varies" if case["varybox"] else "box-constant",
            "self-image-contact" if self_touch else "no-self-contact", "box-int64" if case.get("intbox") else "box-float",
            "N<=16" if N <= 16 else "N>16"]
    if T >= 2:
        tags.append("last-frame" if k == T - 1 else ("first-frame" if k == 0 else "middle-frame"))
        tags.append("ts-" + case.get("schedule", "regular"))
        if case["varybox"] and k >= 1 and not np.array_equal(case["cells"][k]["H"], case["cells"][0]["H"]):
            tags.append("box-of-frame-k-differs-from-frame0")
    if case.get("omit_ndim"):
        tags.append("ndim-default")
    if second:
        tags.append("second-request")
    tags.append("pair-closer-than-4-steps" if _displaced_min_distance(case["pos"][k], cellk["lo"], L, 0.0) < 4 * deltar
                else "pairs-beyond-4-steps")
    if case.get("close") is not None:
        tags.append(f"close-pair-{case['close']}-steps")
    tags.append("step>=0.05" if deltar >= 0.05 else "step<0.05")
    if case.get("dup"):
        tags.append("frame-stored-twice")
    return {"nontrivial": bool(distinct_frames or case["cell"]["origin"] != "zero"), "tags": tags}


def _align(xs, ys, same):
    """Two descending lists of facet weights -> list of (x|None, y|None): a two-pointer merge that pairs entries
    accepted by `same` and leaves the others unpaired (the larger one first).  A facet missing on one side thus shows
    up as one unpaired entry instead of shifting every later pair."""
    out, i, j = [], 0, 0
    while i < len(xs) and j < len(ys):
        if same(xs[i], ys[j]):
            out.append((xs[i], ys[j])); i += 1; j += 1
        elif xs[i] > ys[j]:
            out.append((xs[i], None)); i += 1
        else:
            out.append((None, ys[j])); j += 1
    out += [(x, None) for x in xs[i:]] + [(None, y) for y in ys[j:]]
    return out


def describe(case):
    return {"d": case["d"], "N": int(len(case["types"])), "frames": len(case["pos"]), "origin": case["cell"]["origin"],
            "L": [np.round(np.diag(c["H"]), 3).tolist() for c in case["cells"]], "lo": np.round(case["cell"]["lo"], 3).tolist(),
            "box": case["shape"],
            "kind": case["kind"], "outside": case["outside"], "nconfig": case.get("nconfig"),
            "pos0": np.round(case["pos"][0][:3], 4).tolist()}


FACETS = [
    Facet("files2d", cloud_st(2, 12, 60), check_files, quick=150, thorough=8000, describe=describe, shards_quick=2,
          rule="2D; see RULE"),
    Facet("files3d", cloud_st(3, 20, 60), check_files, quick=80, thorough=4000, describe=describe, shards_quick=4,
          rule="3D; see RULE"),
    Facet("files2d_small", cloud_st(2, 1, 11), check_files, quick=100, thorough=4000, describe=describe,
          rule="2D, N 1..11: every cell touches images of itself and of the same neighbour several times (N = 1: the "
               "cell is the box, all neighbours are the particle itself); see RULE"),
    Facet("files3d_small", cloud_st(3, 1, 19), check_files, quick=60, thorough=3000, describe=describe, shards_quick=2,
          rule="3D, N 1..19; see RULE"),
    Facet("files2d_medium", cloud_st(2, 600, 1500, frames=(1, 2), lmax=30.0, density=1.0, thin=False), check_files, quick=2, thorough=48,
          describe=describe, rule="2D, N 600..1500 (all checks of files2d incl. the Qhull reference); see RULE"),
    Facet("files3d_medium", cloud_st(3, 101, 260, frames=(1, 2), lmax=30.0, density=1.0, thin=False), check_files, quick=2, thorough=64,
          describe=describe, shards_quick=2,
          rule="3D, N 101..260, 1-2 frames (all checks of files3d incl. the Qhull reference); see RULE"),
    Facet("files2d_large", large_cloud_st(), check_large, quick=1, thorough=6, shards_thorough=2, describe=describe_large,
          thorough_budget_s=3000.0,
          rule="one frame of 66 000..72 000 particles in 2D (N (N+1) > 2^32): file structure, "
               "coordination numbers, symmetry and weights of all regular facets, area sum, reader hand-off"),
    Facet("volmat", volmat_st(), check_volmat, quick=48, thorough=1600, describe=describe, shards_quick=4,
          rule="N 8..16, 1..4 frames; requested frame index 0..F-1 (last frames favoured); step default / 0.02 .. 0.001; "
               "non-trivial = frame index >= 1 or origin != 0"),
    Facet("volmat_large", volmat_st(n2=(17, 36), n3=(17, 30), frames=(1, 3)), check_volmat, quick=2, thorough=160,
          describe=describe, shards_quick=2, thorough_budget_s=1500.0,
          rule="N 17..36 (2D) / 17..30 (3D); as volmat"),
]
