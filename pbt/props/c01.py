"""C01 — LAMMPS dump reading preserves every frame's particles, coordinates and cell.

Round trip: an independent encoder writes frame records as LAMMPS 'ITEM:' text; the expected values
are recomputed from the *decimal strings written* (so formatting loss is never charged to the reader).

CLAUSES (statement / quantifier axis -> facet(s); deciding assertion; populated class tags)
  1 well-formed LAMMPS text dump, "every file a simulation can emit" (text layer)
      -> all facets draw a `layout`; classes: layout-plain | layout-lammps (exactly what `dump atom/custom` prints:
         bounds %.16e, trailing blank after the ATOMS header and after every atom line) | layout-mixed; eol-crlf (the
         repository's own sample files), sep-double / sep-tab / sep-mixed / sep-pad (right-aligned columns as in
         2d_triclinic.atom), trail-blank, no-final-newline, header-no-flags (old LAMMPS: 'ITEM: BOX BOUNDS' without
         boundary flags), bounds-fmt-%.16e, number formats fmt%g / %.6f / %.10e (scientific) / %.17g / %.3f
  2 2D or 3D                                   -> d2 / d3 (every facet); 2D with and without a z column (zcol)
  3 x, xs, xu coordinate style                 -> x / xs / xu; ortho_x_xu, ortho_xs, tri_x, tri_xs, tri_xu
  4 orthogonal or triclinic, tilts either sign -> ortho / tri / negtilt (tri_* facets, multi_frame, sizes, sequence);
         cell-kinds-mixed (orthogonal and triclinic headers in one file: change_box)
  5 atom lines in any order                    -> shuffled / ordered; order-reversed, order-random in `sizes`
  6 any number of frames                       -> frames1..4 (multi_frame), frames-boundary-<T> (sizes: T around 32,
         50, 64, 100, 128, 256 [thorough: 500, 512, 1000, 1024]); one snapshot per frame in file order whatever the
         TIMESTEP lines say: timesteps-increasing / -repeat-consecutive / -unordered, same frame written twice
  7 extra trailing columns                     -> extras (0..3 numeric, named), extra-element (a NON-numeric trailing
         column, `dump custom ... element`), first or last among the trailing columns
  8 timestep                                   -> exact integer equality; ts-small / ts-ge-2^31 / ts-ge-2^53 / ts-ge-2^62
  9 particle count                             -> N0 (empty frame, last or not), N1 (exactly one atom line), N2-12,
         size-boundary-<N> (sizes: B-1, B, B+1, 2B-1, 2B+1, B+B//3 for B in 32..256 quick, ..1024 thorough),
         N-varies / N-constant between frames, long-file-<k>KiB (file length beyond 8 KiB / 64 KiB / 1 MiB buffers)
 10 per-id particle types                      -> exact equality by id; types-1-9 / types-wide (labels up to 2^31-1)
 11 per-id Cartesian positions                 -> rtol 1e-12 against the value recomputed from the written strings
 12 box lengths, bounds, cell matrix           -> boxlength, boxbounds, realbounds (tri), hmatrix rows a,b,c cut to d;
         origin / origin0, cubic / unequal edges
 13 scaled -> Cartesian through the cell incl. origin -> ortho_xs, tri_xs (lo + s.H with the REAL origin)
 14 unwrapped returned verbatim                -> ortho_x_xu (xu), tri_xu; excursions up to +-5 cells
 15 wrapped (x, orthogonal): moved by at most one box length per axis, end inside the box, otherwise unchanged
      -> wrap-inside (nothing to move: the everyday file), wrap-all-low, wrap-all-high (every coordinate of every atom
         outside on the same side: batch-level short-cuts), wrap-mixed, wrap-one-out (a single coordinate outside),
         wrap-on-face (coordinates printed exactly equal to a bound: either periodic image is accepted — ambiguity
         rule — but the result must be one of them and inside the box)
 16 read through read_lammps_wrapper and DumpReader (default file type and DumpFileType.LAMMPS)
      -> every case; call variants: name-abs / name-bare / name-sub / name-space (file-name forms), ndim-np-int64,
         reader-opts-ignored (moltypes / columnsids given to a LAMMPS-type DumpReader are not used)
 17 results stay what they were (EXTENSION_3 class 3), state between reads (EXTENSION_1 class 3, EXTENSION_2 class 6)
      -> facet `sequence`: several files read in turn under re-used file names (contents replaced between reads),
         one DumpReader object evaluated repeatedly, equal shapes across files; every result is compared at return,
         copied, and ALL results are compared again (with the oracle and bit-for-bit with their copies) at the end;
         multi_frame `trajectory` mode (same N / cell / types in all frames — the everyday trajectory)
Not in the domain (the unchanged reader does not accept it and LAMMPS does not write it): blank lines after the last
frame, column orders other than `id type <coords> ...` (dump custom with another order), ITEM: UNITS / ITEM: TIME
records, general-triclinic 'abc origin' headers, coordinate columns among the trailing columns, xs outside [0,1).
"""
from __future__ import annotations

import copy
import os
import zlib

import numpy as np
from hypothesis import strategies as st
from hypothesis.extra import numpy as hnp

from ..gen import cell_st, fl, frac_st
from ..harness import Facet, Violation
from ..util import arr, close, equal, require

from PyMatterSim.reader.dump_reader import DumpReader
from PyMatterSim.reader.lammps_reader_helper import read_lammps_wrapper
from PyMatterSim.reader.reader_utils import DumpFileType

RULE = ("frame records -> LAMMPS dump text by an independent encoder; axes: ndim x style {x,xs,xu} x cell {ortho,tri "
        "with tilts of either sign} x N 0..12 (size-boundary classes up to 1025 / 2049) x frames 1..4 (boundary classes "
        "up to 257 / 1025) x id permutation x types (1..9, wide labels) x 0..3 numeric + optional non-numeric trailing "
        "columns x boundary flags x number formats x text layout (LF / CRLF, blanks / tabs / padded columns, trailing "
        "blanks, final newline, bounds format, header flags) x origins x timesteps up to 2^63-1 x timestep schedules x "
        "wrap classes x call variants (file-name form, ndim type, DumpReader options) x read sequences. non-trivial = "
        "atoms not in id order, or origin != 0, or a tilt != 0, or style != x, or >= 2 frames")
ASSUMPTIONS = ["well-formed files only: header at column 0, ids are a permutation of 1..N, scaled coordinates in [0,1), "
               "columns `id type <coords> [trailing columns]`, no blank line after the last frame",
               "wrapped style: excursions of less than one box length; a coordinate within 1e-9 (relative) of a box "
               "face may be returned as either periodic image (ambiguity rule), but must be one of them",
               "expected values are float() of the written decimal strings; comparison rtol 1e-12",
               "size-boundary / long-file classes are built by numpy's Generator from a Hypothesis-drawn seed (the "
               "Hypothesis byte stream cannot carry thousands of atoms)"]
MANIFEST = {
    "text": ("LAMMPS dump -> Snapshots round trip over 2D/3D x {x,xs,xu} x {orthogonal, triclinic} x line order x frame "
             "counts x trailing columns x text layouts (LF/CRLF, tabs, padded columns, trailing blanks, LAMMPS' own "
             "formats) x sizes around block boundaries x timesteps to 2^63-1 x read sequences with results kept alive "
             "(facets ortho_x_xu, ortho_xs, tri_x, tri_xs, tri_xu, multi_frame, sizes, sequence + coverage-guided shards)"),
    "note": ("oracle = independent encoder; expected values recomputed from the decimal strings written; well-formed "
             "files only; face-coordinates of wrapped style may be either image; numpy trusted"),
    "technique": "property-based testing (Hypothesis): round trip encoder -> reader, model-based comparison on read sequences",
}

FORMATS = ["%.17g", "%.6f", "%.10e", "%g", "%.3f"]
FLAGS = ["pp pp pp", "pp ff pp", "ff ff ff", "pp pp fs", "pm pm pp", "fs ss mm"]
EXTRA_NAMES = ["vx", "vy", "vz", "c_pe", "q", "ix", "iy", "radius", "fx", "v_myvar", "mass", "mol"]
ELEMENTS = ["Si", "O", "H", "C", "Fe", "Cu", "Zr"]
WIDE_TYPES = [1, 2, 12, 100, 127, 128, 255, 256, 32767, 32768, 65536, 2 ** 31 - 1]

LAYOUT_PLAIN = {"eol": "\n", "sep": "1", "trail": False, "final_newline": True, "bfmt": None, "hdr_flags": True}
LAYOUT_LAMMPS = {"eol": "\n", "sep": "1", "trail": True, "final_newline": True, "bfmt": "%.16e", "hdr_flags": True}
CALL_PLAIN = {"fname": "abs", "ndim_as": "int", "reader_opts": False}
BLOCKS_QUICK = [32, 64, 100, 128, 256]
BLOCKS_THOROUGH = [50, 200, 500, 512, 1000, 1024]


# ----------------------------------------------------------------------------- generators


@st.composite
def layout_st(draw):
    kind = draw(st.sampled_from(["plain", "plain", "lammps", "lammps", "mixed", "mixed", "mixed"]))
    if kind == "plain":
        lay = dict(LAYOUT_PLAIN)
    elif kind == "lammps":
        lay = dict(LAYOUT_LAMMPS)
        lay["eol"] = draw(st.sampled_from(["\n", "\n", "\r\n"]))   # the repository's sample files are CRLF copies
    else:
        lay = {"eol": draw(st.sampled_from(["\n", "\r\n"])),
               "sep": draw(st.sampled_from(["1", "2", "tab", "mixed", "pad"])),
               "trail": draw(st.booleans()),
               "final_newline": draw(st.sampled_from([True, True, False])),
               "bfmt": draw(st.sampled_from([None, "%.16e", "%.6f", "%g"])),
               "hdr_flags": draw(st.sampled_from([True, True, True, False]))}
    lay["kind"] = kind
    return lay


@st.composite
def call_st(draw):
    if draw(st.integers(0, 2)) == 0:
        return dict(CALL_PLAIN)
    return {"fname": draw(st.sampled_from(["abs", "bare", "sub", "space"])),
            "ndim_as": draw(st.sampled_from(["int", "int", "np.int64"])),
            "reader_opts": draw(st.booleans())}


def _wrap_exc(draw, f, mode):
    """Excursions (in box lengths) for the wrapped style, by batch class.  Coordinate written = lo + (f + exc) L."""
    N, d = f.shape
    u = draw(hnp.arrays(np.float64, (N, d), elements=fl(0.001, 0.98))) if N else np.zeros((N, d))
    if mode == "inside" or N == 0:
        return np.zeros((N, d))
    if mode == "all-low":
        return -u - f
    if mode == "all-high":
        return 1.0 + u - f
    if mode == "one-out":
        exc = np.zeros((N, d))
        i, k = draw(st.integers(0, N - 1)), draw(st.integers(0, d - 1))
        exc[i, k] = (-u[i, k] - f[i, k]) if draw(st.booleans()) else (1.0 + u[i, k] - f[i, k])
        return exc
    if mode == "on-face":
        # some coordinates exactly on the lower / upper face (printed with the same format as the bounds)
        zone = draw(hnp.arrays(np.int8, (N, d), elements=st.sampled_from([0, 0, 1, 2])))
        return np.where(zone == 1, -f, np.where(zone == 2, 1.0 - f, 0.0))
    return draw(hnp.arrays(np.float64, (N, d), elements=st.one_of(st.just(0.0), st.just(0.0), fl(-0.99, 0.99))))


@st.composite
def frame_st(draw, d, style, cellkind, fmt, cell=None, N=None):
    if cell is None:
        cell = draw(cell_st(d, cellkind, lmin=0.5, lmax=50.0))
    if N is None:
        # N = 0 is a frame LAMMPS writes when the dumped group / threshold selection is empty at that step
        N = draw(st.one_of(st.integers(1, 12), st.integers(1, 12), st.integers(1, 12), st.integers(0, 3)))
    ids = np.array(draw(st.permutations(range(1, N + 1))), dtype=int)
    if draw(st.integers(0, 4)) == 0:
        ids = np.arange(1, N + 1)
    tpool = st.integers(1, 9) if draw(st.integers(0, 4)) else st.sampled_from(WIDE_TYPES)
    types = np.array(draw(st.lists(tpool, min_size=N, max_size=N)), dtype=np.int64)
    f = draw(frac_st(N, d))
    exc = np.zeros((N, d))
    wrapmode = None
    if style == "x" and cell["kind"] == "ortho":
        # wrapped style: excursions of less than one box length either side, by batch class
        wrapmode = draw(st.sampled_from(["mixed", "mixed", "inside", "all-low", "all-high", "one-out", "on-face"]))
        exc = _wrap_exc(draw, f, wrapmode)
    elif style == "xu":
        exc = draw(hnp.arrays(np.float64, (N, d), elements=st.one_of(st.just(0.0), fl(-5.0, 5.0)))).round(3)
    nextra = draw(st.integers(0, 3))
    names = draw(st.lists(st.sampled_from(EXTRA_NAMES), min_size=nextra, max_size=nextra, unique=True))
    extras = draw(hnp.arrays(np.float64, (N, nextra), elements=fl(-100.0, 100.0)))
    elem = None
    if draw(st.integers(0, 4)) == 0:
        elem = {"values": draw(st.lists(st.sampled_from(ELEMENTS), min_size=N, max_size=N)), "first": draw(st.booleans())}
    return {"cell": cell, "ids": ids, "types": types, "f": f, "exc": exc, "extra_names": names, "extras": extras,
            "flags": draw(st.sampled_from(FLAGS)), "zcol": draw(st.booleans()) if d == 2 else False, "elem": elem,
            "wrapmode": wrapmode}


def _steps(draw, T):
    t0 = draw(st.one_of(st.just(0), st.integers(0, 10**9), st.integers(0, 10**9),
                        st.sampled_from([2**31 - 1, 2**31, 2**32 + 7, 2**53 - 1, 2**53 + 1, 2**62 + 12345,
                                         2**63 - 1 - 5 * 10**6 * max(T, 1)]),
                        st.integers(2**31, 2**63 - 1 - 10**6 * max(T, 1) - 10**9)))
    # timestep schedules a simulation can write: increasing (usual), a frame re-dumped at the same step (run 0,
    # minimisation, restart appending the last step), a counter that goes back (reset_timestep), identical copies of a
    # whole frame.  One snapshot per frame in file order is promised whatever the TIMESTEP lines say.
    sched = draw(st.sampled_from(["increasing", "increasing", "repeats", "any-order", "all-equal"])) if T > 1 else "single"
    steps = [t0]
    for _ in range(T - 1):
        if sched == "increasing":
            steps.append(steps[-1] + draw(st.integers(1, 10**6)))
        elif sched == "repeats":
            steps.append(steps[-1] + draw(st.sampled_from([0, 0, 1, 500])))
        elif sched == "all-equal":
            steps.append(t0)
        else:
            steps.append(draw(st.integers(0, 10**6)))
    return steps, sched


@st.composite
def dump_st(draw, cellkinds=("ortho", "tri"), styles=("x", "xs", "xu"), frames=(1, 1), nmax=None, plain_call=False):
    d = draw(st.sampled_from([2, 3]))
    style = draw(st.sampled_from(list(styles)))
    cellkind = draw(st.sampled_from(list(cellkinds)))
    fmt = draw(st.sampled_from(FORMATS))
    T = draw(st.integers(*frames))
    # `trajectory`: the everyday file (same N, cell and types in all frames, atoms move); `independent`: every frame
    # drawn on its own (N, cell, trailing columns differ between frames)
    mode = draw(st.sampled_from(["independent", "independent", "trajectory"])) if T > 1 else "independent"
    if mode == "trajectory":
        f0 = draw(frame_st(d, style, cellkind, fmt, N=None if nmax is None else draw(st.integers(0, nmax))))
        fr = [f0]
        for _ in range(T - 1):
            g = draw(frame_st(d, style, cellkind, fmt, cell=f0["cell"], N=len(f0["ids"])))
            types_by_id = np.zeros(len(f0["ids"]), dtype=np.int64)
            types_by_id[f0["ids"] - 1] = f0["types"]
            g["types"] = types_by_id[g["ids"] - 1]
            for key in ("extra_names", "flags", "zcol"):
                g[key] = f0[key]
            g["extras"] = g["extras"][:, :0] if not len(f0["extra_names"]) else \
                draw(hnp.arrays(np.float64, (len(g["ids"]), len(f0["extra_names"])), elements=fl(-100.0, 100.0)))
            if (g["elem"] is None) != (f0["elem"] is None):
                g["elem"] = None if f0["elem"] is None else {"values": [ELEMENTS[int(t) % len(ELEMENTS)] for t in g["types"]],
                                                           "first": f0["elem"]["first"]}
            elif g["elem"] is not None:
                g["elem"]["first"] = f0["elem"]["first"]
            fr.append(g)
    else:
        # a run that switches between an orthogonal and a triclinic box (change_box): the header kind is per frame
        mixed = T > 1 and len(cellkinds) > 1 and draw(st.integers(0, 3)) == 0
        fr = [draw(frame_st(d, style, draw(st.sampled_from(list(cellkinds))) if mixed else cellkind, fmt,
                            N=None if nmax is None else draw(st.integers(0, nmax))))
              for _ in range(T)]
    steps, sched = _steps(draw, T)
    if sched in ("repeats", "all-equal") and T > 1 and draw(st.booleans()):
        k = draw(st.integers(1, T - 1))
        fr[k] = fr[k - 1]            # the very same frame written twice
    return {"d": d, "style": style, "cellkind": cellkind, "fmt": fmt, "frames": fr, "timesteps": steps, "mode": mode,
            "layout": draw(layout_st()), "call": dict(CALL_PLAIN) if plain_call else draw(call_st())}


# ---- seeded synthesis for the size classes (thousands of atoms / hundreds of frames do not fit a Hypothesis buffer)


def boundary_sizes(blocks):
    out = []
    for B in blocks:
        out += [B - 1, B, B + 1, 2 * B - 1, 2 * B + 1, B + B // 3]
    return sorted(set(out))


def _synth_cell(rng, d, cellkind):
    L = np.round(rng.uniform(0.5, 50.0, d), int(rng.integers(0, 6)))
    L = np.maximum(L, 0.5)
    if rng.integers(0, 3) == 0:
        L[:] = L[0]
    H = np.diag(L)
    if cellkind == "tri":
        H[1, 0] = rng.uniform(-0.5, 0.5) * L[0]
        if d == 3:
            H[2, 0] = rng.uniform(-0.5, 0.5) * L[0] * rng.integers(0, 2)
            H[2, 1] = rng.uniform(-0.5, 0.5) * L[1]
    lo = np.zeros(d) if rng.integers(0, 3) == 0 else np.round(rng.uniform(-50.0, 50.0, d), 3)
    return {"d": d, "kind": cellkind, "H": H, "lo": lo, "origin": "zero" if not lo.any() else "arbitrary"}


def _synth_frame(rng, d, style, cell, N, order, nextra, names, zcol, flags, with_elem, wide_types):
    if order == "ordered":
        ids = np.arange(1, N + 1)
    elif order == "reversed":
        ids = np.arange(N, 0, -1)
    else:
        ids = rng.permutation(N) + 1
    types = rng.integers(1, 4, N).astype(np.int64)
    if wide_types and N:
        types[rng.integers(0, N, max(1, N // 7))] = rng.choice(WIDE_TYPES, max(1, N // 7))
    f = rng.random((N, d))
    exc = np.zeros((N, d))
    wrapmode = None
    if style == "x" and cell["kind"] == "ortho":
        wrapmode = ["inside", "mixed", "all-low", "all-high"][int(rng.integers(0, 4))]
        u = rng.uniform(0.001, 0.98, (N, d))
        if wrapmode == "mixed":
            zone = rng.integers(-1, 2, (N, d))
            exc = np.where(zone < 0, -u - f, np.where(zone > 0, 1.0 + u - f, 0.0))
        elif wrapmode == "all-low":
            exc = -u - f
        elif wrapmode == "all-high":
            exc = 1.0 + u - f
    elif style == "xu":
        exc = np.round(rng.uniform(-5.0, 5.0, (N, d)), 3) * (rng.random((N, d)) < 0.5)
    elem = None
    if with_elem:
        elem = {"values": [ELEMENTS[int(k)] for k in rng.integers(0, len(ELEMENTS), N)], "first": bool(rng.integers(0, 2))}
    return {"cell": cell, "ids": ids.astype(int), "types": types, "f": f, "exc": exc, "extra_names": names,
            "extras": rng.uniform(-100.0, 100.0, (N, nextra)), "flags": flags, "zcol": zcol, "elem": elem,
            "wrapmode": wrapmode}


def synth_frames(spec):
    """spec: seed, d, style, cellkind, Ns (list), order, same_cell -> list of frame dicts (pure function of spec)."""
    rng = np.random.default_rng(spec["seed"])
    d, style, cellkind = spec["d"], spec["style"], spec["cellkind"]
    nextra = int(rng.integers(0, 4))
    names = [EXTRA_NAMES[int(k)] for k in rng.permutation(len(EXTRA_NAMES))[:nextra]]
    zcol = bool(rng.integers(0, 2)) if d == 2 else False
    flags = FLAGS[int(rng.integers(0, len(FLAGS)))]
    with_elem = rng.integers(0, 4) == 0
    wide = rng.integers(0, 3) == 0
    cell = _synth_cell(rng, d, cellkind)
    out = []
    for N in spec["Ns"]:
        c = cell if spec["same_cell"] else _synth_cell(rng, d, cellkind)
        out.append(_synth_frame(rng, d, style, c, int(N), spec["order"], nextra, names, zcol, flags, with_elem, wide))
    return out


def spread(items, *entropy):
    """Element of `items` chosen by a hash of everything else drawn for the case.  Hypothesis re-uses parts of earlier
    examples, so a size drawn with sampled_from comes in runs of equal values and whole boundary classes stay empty
    in a run of a few hundred cases; cases never repeat as a whole, so the hash spreads the sizes evenly."""
    return items[zlib.crc32(repr(entropy).encode()) % len(items)]


@st.composite
def sizes_st(draw, blocks, long_n=(), frame_blocks=()):
    """Size-boundary classes: atoms per frame around block sizes, frames per file around block sizes, long files.
    Every Hypothesis draw is made first; the size itself is `spread` over the hash of all of them."""
    d = draw(st.sampled_from([2, 3]))
    style = draw(st.sampled_from(["x", "xs", "xu"]))
    cellkind = draw(st.sampled_from(["ortho", "tri"]))
    kinds = ["atoms", "atoms", "frames"] + (["long"] if long_n else [])
    kind = draw(st.sampled_from(kinds))
    seed = draw(st.integers(0, 2**32 - 1))
    order = draw(st.sampled_from(["random", "random", "ordered", "reversed"]))
    same_cell = draw(st.booleans())
    fmt = draw(st.sampled_from(FORMATS))
    lay = draw(layout_st())
    call = draw(call_st())
    t0 = draw(st.one_of(st.integers(0, 10**9), st.sampled_from([2**31, 2**53 + 1, 2**62 + 12345])))
    dt = draw(st.sampled_from([0, 1, 1000, 5000]))
    T = draw(st.sampled_from([1, 1, 2, 3]))
    vary = draw(st.booleans())
    others = [draw(st.sampled_from(["one", "two", "minus", "plus", "same"])) for _ in range(2)]
    nk = draw(st.sampled_from(["const1", "const", "vary"]))
    n0 = draw(st.integers(1, 4))
    tlong = draw(st.integers(1, 4))
    ent = (seed, d, style, cellkind, kind, order, same_cell, fmt, sorted(lay.items()), sorted(call.items()), t0, dt,
           T, vary, others, nk, n0, tlong)
    if kind == "atoms":
        N = spread(boundary_sizes(blocks), ent)
        Ns = [N] * T
        if T > 1 and vary:
            Ns = [N] + [{"one": 1, "two": 2, "minus": N - 1, "plus": N + 1, "same": N}[o] for o in others[: T - 1]]
        tag = f"size-boundary-{N}"
    elif kind == "frames":
        T = spread(boundary_sizes(frame_blocks or blocks), ent)
        if nk == "const1":
            Ns = [1] * T
        elif nk == "const":
            Ns = [n0] * T
        else:
            Ns = [int(v) for v in np.random.default_rng(seed ^ 0x5A5A5A5A).integers(0, 5, T)]
        tag = f"frames-boundary-{T}"
    else:
        N = spread(list(long_n), ent)
        Ns = [N] * tlong
        tag = f"long-N{N}"
    spec = {"seed": seed, "d": d, "style": style, "cellkind": cellkind, "Ns": Ns, "order": order, "same_cell": same_cell}
    steps = [t0 + k * dt for k in range(len(Ns))]
    return {"d": d, "style": style, "cellkind": cellkind, "fmt": fmt, "synth": spec,
            "timesteps": steps, "mode": "synth", "size_tag": tag, "layout": lay, "call": call}


def frames_of(case):
    return case["frames"] if "frames" in case else synth_frames(case["synth"])


# ----------------------------------------------------------------------------- encoder + expectation


def _join(tokens, lay, pad_from=0):
    sep = lay["sep"]
    if sep == "1":
        s = " ".join(tokens)
    elif sep == "2":
        s = "  ".join(tokens)
    elif sep == "tab":
        s = "\t".join(tokens)
    elif sep == "mixed":
        seps = [" ", "\t", "   ", " \t"]
        s = tokens[0] + "".join(seps[k % 4] + t for k, t in enumerate(tokens[1:]))
    else:  # "pad": right-aligned columns (LAMMPS `dump_modify format float %20.15g`)
        s = " ".join(t if k < pad_from else t.rjust(max(len(t), 12) + (k % 3)) for k, t in enumerate(tokens))
    return s + (" " if lay["trail"] else "")


def encode(case, frames=None):
    """Returns (text, expected) where expected[k] holds the values the file encodes for frame k."""
    d, style, fmt = case["d"], case["style"], case["fmt"]
    lay = case.get("layout") or LAYOUT_PLAIN
    out = []
    expected = []
    P = lambda v: fmt % v  # noqa: E731
    bfmt = lay["bfmt"] or fmt
    B = lambda v: bfmt % v  # noqa: E731
    for fr, ts in zip(frames_of(case) if frames is None else frames, case["timesteps"]):
        cell = fr["cell"]
        H, lo = cell["H"], cell["lo"]
        L = np.diag(H)
        N = len(fr["ids"])
        out += ["ITEM: TIMESTEP", "%d" % ts, "ITEM: NUMBER OF ATOMS", "%d" % N]
        exp = {"timestep": ts, "nparticle": N}
        flags = (" " + fr["flags"]) if lay["hdr_flags"] else ""
        if cell["kind"] == "ortho":
            out.append("ITEM: BOX BOUNDS" + flags)
            slo = [B(lo[k]) for k in range(d)]
            shi = [B(lo[k] + L[k]) for k in range(d)]
            for k in range(d):
                out.append(_join([slo[k], shi[k]], lay))
            if d == 2:
                out.append(_join([B(-0.5), B(0.5)], lay))
            plo = np.array([float(s) for s in slo])
            phi = np.array([float(s) for s in shi])
            exp["boxbounds"] = np.stack([plo, phi], axis=1)
            exp["boxlength"] = phi - plo
            exp["hmatrix"] = np.diag(phi - plo)
            exp["realbounds"] = None
            rlo, HH = plo, np.diag(phi - plo)
        else:
            xy = H[1, 0]
            xz = H[2, 0] if d == 3 else 0.0
            yz = H[2, 1] if d == 3 else 0.0
            hi = lo + L
            zlo, zhi = (lo[2], hi[2]) if d == 3 else (-0.5, 0.5)
            lines = [
                (lo[0] + min(0.0, xy, xz, xy + xz), hi[0] + max(0.0, xy, xz, xy + xz), xy),
                (lo[1] + min(0.0, yz), hi[1] + max(0.0, yz), xz),
                (zlo, zhi, yz),
            ]
            out.append("ITEM: BOX BOUNDS xy xz yz" + flags)
            parsed = []
            for a, b, c in lines:
                sa, sb, sc = B(a), B(b), B(c)
                out.append(_join([sa, sb, sc], lay))
                parsed.append((float(sa), float(sb), float(sc)))
            (xlb, xhb, pxy), (ylb, yhb, pxz), (zlb, zhb, pyz) = parsed
            xlo = xlb - min(0.0, pxy, pxz, pxy + pxz)
            xhi = xhb - max(0.0, pxy, pxz, pxy + pxz)
            ylo = ylb - min(0.0, pyz)
            yhi = yhb - max(0.0, pyz)
            real = np.array([[xlo, xhi], [ylo, yhi], [zlb, zhb]])
            HH = np.array([[xhi - xlo, 0, 0], [pxy, yhi - ylo, 0], [pxz, pyz, zhb - zlb]])[:d, :d]
            exp["boxbounds"] = np.array([[xlb, xhb], [ylb, yhb], [zlb, zhb]])[:d]
            exp["realbounds"] = real[:d]
            exp["boxlength"] = (real[:, 1] - real[:, 0])[:d]
            exp["hmatrix"] = HH
            rlo = real[:d, 0]
        cols = {"x": "x y z", "xs": "xs ys zs", "xu": "xu yu zu"}[style].split()
        ncoord = 3 if (d == 3 or fr["zcol"]) else 2
        elem = fr.get("elem")
        trailing = list(fr["extra_names"])
        if elem is not None:
            trailing = (["element"] + trailing) if elem["first"] else (trailing + ["element"])
        out.append("ITEM: ATOMS id type " + " ".join(cols[:ncoord] + trailing) + (" " if lay["trail"] else ""))
        pos = np.zeros((N, d))
        raw = np.zeros((N, d))
        types = np.zeros(N, dtype=np.int64)
        wrapped = False
        if style == "xs":
            allvals = fr["f"]
        else:
            allvals = lo + (fr["f"] + fr["exc"]) @ H
        wrap_here = style == "x" and cell["kind"] == "ortho"
        if wrap_here:
            blo, bhi = exp["boxbounds"][:, 0], exp["boxbounds"][:, 1]
            bl = exp["boxlength"]
        for row in range(N):
            i = fr["ids"][row]
            svals = [P(v) for v in allvals[row]]
            if ncoord > d:
                svals.append(P(0.0))
            sextra = [P(v) for v in fr["extras"][row]]
            if elem is not None:
                sextra = ([elem["values"][row]] + sextra) if elem["first"] else (sextra + [elem["values"][row]])
            out.append(_join([str(i), str(fr["types"][row])] + svals + sextra, lay, pad_from=2))
            pv = np.array([float(s) for s in svals[:d]])
            if style == "xs":
                p = rlo + pv @ HH
            elif not wrap_here:
                p = pv
            else:
                p = pv.copy()
                for k in range(d):
                    if p[k] < blo[k]:
                        p[k] = p[k] + bl[k]
                        wrapped = True
                    elif p[k] > bhi[k]:
                        p[k] = p[k] - bl[k]
                        wrapped = True
            pos[i - 1] = p
            raw[i - 1] = pv
            types[i - 1] = fr["types"][row]
        exp["positions"] = pos
        exp["raw"] = raw
        exp["particle_type"] = types
        exp["wrapped"] = wrapped
        exp["ambiguous"] = np.zeros((N, d), dtype=bool)
        if wrap_here and N:
            scale = np.maximum(1.0, np.maximum(np.abs(blo), np.abs(bhi)))
            exp["ambiguous"] = (np.abs(raw - blo) <= 1e-9 * scale) | (np.abs(raw - bhi) <= 1e-9 * scale)
        expected.append(exp)
    text = lay["eol"].join(out)
    if lay["final_newline"]:
        text += lay["eol"]
    return text, expected


def cmp_positions(t, got, e, atol):
    want = e["positions"]
    g = arr(f"{t}: positions", got, shape=want.shape)
    if g.size == 0:
        return
    tol = atol + 1e-12 * np.abs(want)
    ok = np.abs(g - want) <= tol
    amb = e["ambiguous"]
    if amb.any():
        # a coordinate printed on a face: either periodic image is acceptable, nothing else is
        L = e["boxlength"]
        for alt in (e["raw"], e["raw"] + L, e["raw"] - L):
            ok |= amb & (np.abs(g - alt) <= atol + 1e-12 * np.abs(alt))
    if not ok.all():
        i = tuple(int(v) for v in np.argwhere(~ok)[0])
        raise Violation(f"{t}: positions differ at {i}: got {g[i]!r}, want {want[i]!r} "
                        f"({int((~ok).sum())}/{g.size} entries; max |diff| {np.abs(g - want).max():.3e})")


def compare(tag, snaps, expected, case):
    d = case["d"]
    require(hasattr(snaps, "nsnapshots") and hasattr(snaps, "snapshots"), lambda: f"{tag}: result is not a Snapshots object: {snaps!r:.200}")
    require(snaps.nsnapshots == len(expected), f"{tag}: nsnapshots = {snaps.nsnapshots}, file holds {len(expected)} frames")
    require(len(snaps.snapshots) == len(expected), f"{tag}: {len(snaps.snapshots)} snapshots returned for {len(expected)} frames")
    for k, (s, e) in enumerate(zip(snaps.snapshots, expected)):
        t = f"{tag} frame {k}"
        require(s is not None, f"{t}: snapshot is None")
        try:
            ts_got, n_got = int(s.timestep), int(s.nparticle)
        except (TypeError, ValueError, OverflowError) as ex:
            raise Violation(f"{t}: timestep / nparticle are not integers: {s.timestep!r}, {s.nparticle!r} ({ex})")
        require(ts_got == e["timestep"], f"{t}: timestep {s.timestep!r} != {e['timestep']}")
        require(n_got == e["nparticle"], f"{t}: nparticle {s.nparticle} != {e['nparticle']}")
        equal(f"{t}: particle_type", s.particle_type, e["particle_type"])
        scale = max(1.0, np.abs(e["boxbounds"]).max(), np.abs(e["positions"]).max(initial=0.0))
        atol = 4e-15 * scale * 8
        close(f"{t}: boxbounds", s.boxbounds, e["boxbounds"], rtol=1e-12, atol=atol)
        close(f"{t}: boxlength", s.boxlength, e["boxlength"], rtol=1e-12, atol=atol)
        close(f"{t}: hmatrix", s.hmatrix, e["hmatrix"], rtol=1e-12, atol=atol)
        if e["realbounds"] is not None:
            require(s.realbounds is not None, f"{t}: realbounds missing for a triclinic cell")
            close(f"{t}: realbounds", s.realbounds, e["realbounds"], rtol=1e-12, atol=atol)
        cmp_positions(t, s.positions, e, atol)
        if case["style"] == "x" and e["realbounds"] is None:
            p = arr(f"{t}: positions", s.positions, shape=(e["nparticle"], d))
            lo, hi = e["boxbounds"][:, 0], e["boxbounds"][:, 1]
            # a coordinate printed within 1e-9 of a face may legitimately be left where it is
            slack = np.where(e["ambiguous"], 2e-9 * np.maximum(1.0, np.maximum(np.abs(lo), np.abs(hi))), atol)
            require(np.all(p >= lo - slack) and np.all(p <= hi + slack), f"{t}: wrapped coordinates left outside the box")


FNAMES = {"abs": None, "bare": "case.dump", "sub": "sub/run.1/case.v2.dump", "space": "my dump file.1.atom"}


def file_name(kind, stem="case.dump"):
    """The file-name forms callers use; cwd is the scratch directory of this shard."""
    if kind == "abs":
        return os.path.join(os.getcwd(), stem)
    rel = FNAMES[kind] if stem == "case.dump" else os.path.join(os.path.dirname(FNAMES[kind]), stem)
    if os.path.dirname(rel):
        os.makedirs(os.path.dirname(rel), exist_ok=True)
    return rel


def write_text(fn, text):
    with open(fn, "w", newline="") as f:   # newline="": the text is written byte for byte (CRLF stays CRLF)
        f.write(text)


def readers(fn, d, call):
    nd = np.int64(d) if call["ndim_as"] == "np.int64" else d
    kw = {"moltypes": {1: 1, 3: 2}, "columnsids": [5, 6]} if call["reader_opts"] else {}

    def via(**k):
        rd = DumpReader(fn, ndim=nd, **k)
        rd.read_onefile()
        return rd.snapshots

    return [("read_lammps_wrapper", lambda: read_lammps_wrapper(fn, nd)),
            ("DumpReader(default filetype)", lambda: via(**kw)),
            ("DumpReader(LAMMPS)", lambda: via(filetype=DumpFileType.LAMMPS, **kw))]


def case_tags(case, frames, expected, text):
    d = case["d"]
    lay = case.get("layout") or LAYOUT_PLAIN
    call = case.get("call") or CALL_PLAIN
    shuffled = any(not np.array_equal(fr["ids"], np.arange(1, len(fr["ids"]) + 1)) for fr in frames)
    origin = any(np.any(fr["cell"]["lo"] != 0) for fr in frames)
    tilt = any(np.any(fr["cell"]["H"] != np.diag(np.diag(fr["cell"]["H"]))) for fr in frames)
    negtilt = any(np.any(fr["cell"]["H"] < 0) for fr in frames)
    nontrivial = bool(shuffled or origin or tilt or case["style"] != "x" or len(frames) >= 2)
    T = len(frames)
    tags = [f"d{d}", case["style"]] + sorted({fr["cell"]["kind"] for fr in frames}) + [
            f"frames{T}" if T <= 4 else "frames5+", "fmt" + case["fmt"],
            "shuffled" if shuffled else "ordered", "origin" if origin else "origin0"]
    if negtilt:
        tags.append("negtilt")
    if len({fr["cell"]["kind"] for fr in frames}) > 1:
        tags.append("cell-kinds-mixed")
    if any(len(set(np.diag(fr["cell"]["H"]).tolist())) > 1 for fr in frames):
        tags.append("unequal-edges")
    ts = case["timesteps"]
    if len(ts) > 1:
        tags.append("timesteps-increasing" if all(b > a for a, b in zip(ts, ts[1:])) else
                    ("timesteps-repeat-consecutive" if any(b == a for a, b in zip(ts, ts[1:])) else "timesteps-unordered"))
    tmax = max(ts)
    tags.append("ts-ge-2^62" if tmax >= 2**62 else "ts-ge-2^53" if tmax >= 2**53 else "ts-ge-2^31" if tmax >= 2**31 else "ts-small")
    if any(e["wrapped"] for e in expected):
        tags.append("wrap-applied")
    for m in sorted({fr.get("wrapmode") for fr in frames if fr.get("wrapmode") and len(fr["ids"])}):
        tags.append("wrap-" + m)
    if any(e["ambiguous"].any() for e in expected):
        tags.append("wrap-ambiguous-face-coordinate")
    if any(fr["extra_names"] for fr in frames):
        tags.append("extras")
    if any(fr.get("elem") is not None for fr in frames):
        tags.append("extra-element")
    Ns = [len(fr["ids"]) for fr in frames]
    if T > 1:
        tags.append("N-varies" if len(set(Ns)) > 1 else "N-constant")
        tags.append("mode-" + case.get("mode", "independent"))
    if 0 in Ns:
        tags.append("empty-frame-last-only" if all(n > 0 for n in Ns[:-1]) else "empty-frame-not-last")
    if 1 in Ns:
        tags.append("N1")
        if T > 1 and set(Ns) == {1}:
            tags.append("N1-all-frames")
    if any(2 <= n <= 12 for n in Ns):
        tags.append("N2-12")
    if any(np.any(fr["types"] > 9) for fr in frames):
        tags.append("types-wide")
    else:
        tags.append("types-1-9")
    if "size_tag" in case:
        tags.append(case["size_tag"])
    kib = len(text) / 1024.0
    for lim in (1024, 64, 8):
        if kib > lim:
            tags.append(f"long-file-{lim}KiB")
            break
    # text layout
    tags.append("layout-" + lay.get("kind", "plain"))
    if lay["eol"] == "\r\n":
        tags.append("eol-crlf")
    if lay["sep"] != "1":
        tags.append("sep-" + {"2": "double", "tab": "tab", "mixed": "mixed", "pad": "pad"}[lay["sep"]])
    if lay["trail"]:
        tags.append("trail-blank")
    if not lay["final_newline"]:
        tags.append("no-final-newline")
    if not lay["hdr_flags"]:
        tags.append("header-no-flags")
    if lay["bfmt"]:
        tags.append("bounds-fmt-" + lay["bfmt"])
    tags.append("name-" + call["fname"])
    if call["ndim_as"] != "int":
        tags.append("ndim-np-int64")
    if call["reader_opts"]:
        tags.append("reader-opts-ignored")
    return nontrivial, tags


def check(case):
    frames = frames_of(case)
    text, expected = encode(case, frames)
    call = case.get("call") or CALL_PLAIN
    fn = file_name(call["fname"])
    write_text(fn, text)
    d = case["d"]
    for tag, get in readers(fn, d, call):
        compare(tag, get(), expected, case)
    nontrivial, tags = case_tags(case, frames, expected, text)
    return {"nontrivial": nontrivial, "tags": tags}


def describe(case):
    text, _ = encode(case)
    return {"d": case["d"], "style": case["style"], "cell": case["cellkind"], "layout": case.get("layout"),
            "call": case.get("call"), "text": text[:700]}


# ----------------------------------------------------------------------------- read sequences (results kept alive)


@st.composite
def sequence_st(draw):
    d = draw(st.sampled_from([2, 3]))
    nfiles = draw(st.integers(2, 3))
    share_n = draw(st.booleans())          # equal shapes across files: a buffer keyed on the shape would be re-used
    nfix = draw(st.integers(1, 5))
    tfix = draw(st.integers(1, 3))
    files = []
    for _ in range(nfiles):
        style = draw(st.sampled_from(["x", "xs", "xu"]))
        cellkind = draw(st.sampled_from(["ortho", "tri"]))
        fmt = draw(st.sampled_from(FORMATS))
        T = tfix if share_n else draw(st.integers(1, 3))
        fr = [draw(frame_st(d, style, cellkind, fmt, N=nfix if share_n else draw(st.integers(0, 5)))) for _ in range(T)]
        steps, _ = _steps(draw, T)
        files.append({"d": d, "style": style, "cellkind": cellkind, "fmt": fmt, "frames": fr, "timesteps": steps,
                      "mode": "independent", "layout": draw(layout_st()), "call": dict(CALL_PLAIN)})
    nsteps = draw(st.integers(3, 7))
    plan = []
    for _ in range(nsteps):
        plan.append({"file": draw(st.integers(0, nfiles - 1)), "slot": draw(st.integers(0, 1)),
                     "via": draw(st.sampled_from(["wrapper", "reader-new", "reader-same", "reader-same"]))})
    return {"d": d, "files": files, "plan": plan, "fname": draw(st.sampled_from(["abs", "bare"])), "share_n": share_n}


def _snap_copy(snaps):
    return copy.deepcopy(snaps)


def _same_bits(tag, now, then):
    require(now.nsnapshots == then.nsnapshots and len(now.snapshots) == len(then.snapshots),
            f"{tag}: the number of snapshots of a result handed out earlier changed")
    for k, (a, b) in enumerate(zip(now.snapshots, then.snapshots)):
        require(a.timestep == b.timestep and a.nparticle == b.nparticle,
                f"{tag} frame {k}: timestep / nparticle of a result handed out earlier changed")
        for name in ("particle_type", "positions", "boxlength", "boxbounds", "realbounds", "hmatrix"):
            x, y = getattr(a, name), getattr(b, name)
            if y is None:
                require(x is None, f"{tag} frame {k}: {name} of a result handed out earlier changed")
                continue
            require(x is not None and np.array_equal(np.asarray(x), np.asarray(y), equal_nan=True),
                    f"{tag} frame {k}: {name} of a result handed out earlier was modified by a later read")


def check_sequence(case):
    d = case["d"]
    enc = [encode(fc) for fc in case["files"]]
    slots = [file_name(case["fname"], stem=f"slot{k}.dump") for k in (0, 1)]
    held = []                      # (label, result, copy at return, expected, file case)
    shared = {}                    # slot -> DumpReader re-used for every 'reader-same' read of that slot
    last_in_slot = {}
    rewrites = 0
    for n, st_ in enumerate(case["plan"]):
        k, slot = st_["file"], st_["slot"]
        text, expected = enc[k]
        fn = slots[slot]
        if last_in_slot.get(slot) != k:
            if slot in last_in_slot:
                rewrites += 1
            write_text(fn, text)            # same name, other contents
            last_in_slot[slot] = k
        if st_["via"] == "wrapper":
            res = read_lammps_wrapper(fn, d)
        elif st_["via"] == "reader-new":
            rd = DumpReader(fn, ndim=d, filetype=DumpFileType.LAMMPS)
            rd.read_onefile()
            res = rd.snapshots
        else:
            rd = shared.get(slot)
            if rd is None:
                rd = shared[slot] = DumpReader(fn, ndim=d)
            rd.read_onefile()               # second and later evaluations of one object
            res = rd.snapshots
        label = f"read {n} ({st_['via']}, file {k} in slot {slot})"
        compare(label, res, expected, case["files"][k])
        held.append((label, res, _snap_copy(res), expected, case["files"][k]))
    for label, res, cp, expected, fc in held:
        _same_bits(label + " re-examined after all reads", res, cp)
        compare(label + " re-examined after all reads", res, expected, fc)
    nsame = sum(1 for s in case["plan"] if s["via"] == "reader-same")
    tags = [f"d{d}", f"reads{len(case['plan'])}", f"files{len(case['files'])}", "name-" + case["fname"],
            "shapes-shared" if case["share_n"] else "shapes-differ",
            "slot-rewritten" if rewrites else "slot-written-once"]
    if nsame >= 2:
        tags.append("one-reader-object-reused")
    if len({s["file"] for s in case["plan"]}) > 1:
        tags.append("files-alternate")
    if any(fc["layout"]["eol"] == "\r\n" for fc in case["files"]):
        tags.append("eol-crlf")
    return {"nontrivial": bool(rewrites or len({s["file"] for s in case["plan"]}) > 1), "tags": tags}


def describe_sequence(case):
    return {"d": case["d"], "plan": case["plan"], "fname": case["fname"],
            "files": [{"style": fc["style"], "cell": fc["cellkind"], "text": encode(fc)[0][:300]} for fc in case["files"]]}


# ----------------------------------------------------------------------------- facets


def _facet(name, n, nt, **kw):
    return Facet(name, dump_st(**kw), check, quick=n, thorough=nt, describe=describe, shards_quick=2,
                 rule="see RULE; region: " + ", ".join(f"{k}={v}" for k, v in kw.items()))


FACETS = [
    _facet("ortho_x_xu", 300, 20000, cellkinds=("ortho",), styles=("x", "xu")),
    _facet("ortho_xs", 300, 20000, cellkinds=("ortho",), styles=("xs",)),
    _facet("tri_x", 200, 20000, cellkinds=("tri",), styles=("x",)),
    _facet("tri_xs", 300, 20000, cellkinds=("tri",), styles=("xs",)),
    _facet("tri_xu", 200, 20000, cellkinds=("tri",), styles=("xu",)),
    _facet("multi_frame", 400, 20000, frames=(2, 4)),
    Facet("sizes", sizes_st(BLOCKS_QUICK, frame_blocks=[32, 64, 100, 128]), check, quick=600, thorough=0, describe=describe,
          shards_quick=4, quick_budget_s=240.0,
          rule="size-boundary classes, quick: atoms per frame B-1, B, B+1, 2B-1, 2B+1, B+B//3 for B in {32, 64, 100, 128, "
               "256} (1-3 frames), frames per file around B in {32, 64, 100, 128} with 0-4 atoms each; seeded synthesis; "
               "all layouts / styles / cells"),
    Facet("sizes_large", sizes_st(BLOCKS_QUICK + BLOCKS_THOROUGH, long_n=(5000, 10000, 20000),
                                  frame_blocks=BLOCKS_QUICK + BLOCKS_THOROUGH),
          check, quick=0, thorough=1600, describe=describe,
          rule="thorough tier only: as sizes with B in {32, 50, 64, 100, 128, 200, 256, 500, 512, 1000, 1024} (N up to 2049, frames up to 2049) and long files "
               "(N = 5000, 10000, 20000 x 1-4 frames: 0.2 - 5 MiB, beyond every I/O buffer size)"),
    Facet("sequence", sequence_st(), check_sequence, quick=300, thorough=12000, describe=describe_sequence, shards_quick=2,
          quick_budget_s=240.0,
          rule="2-3 small files x 3-7 reads under two re-used file names (contents replaced between reads), through "
               "read_lammps_wrapper, fresh DumpReader objects and ONE DumpReader evaluated repeatedly; every result "
               "compared at return and again (oracle + bit-for-bit with a copy taken at return) after all reads; "
               "non-trivial = a file name was re-used for other contents or >= 2 files alternate"),
]

# coverage-guided shards (pbt/fuzz.py: atheris mutates the byte stream behind the same strategy, reader modules
# instrumented for edge coverage, same round-trip oracle); runs = byte buffers tried
FUZZ = {
    "multi_frame": {"quick": 1000, "thorough": 60000},
    "tri_xs": {"quick": 800, "thorough": 40000},
    "ortho_xs": {"quick": 800, "thorough": 40000},
    "ortho_x_xu": {"quick": 1000, "thorough": 40000},
}
# (`sequence` has no coverage-guided shard: a case of 2-3 files does not decode from a 16 KiB random buffer — measured
# 0 of 300; `sizes` is seeded synthesis, nothing for byte mutation to steer.)
