"""C01 — LAMMPS dump reading preserves every frame's particles, coordinates and cell.

Round trip: an independent encoder writes frame records as LAMMPS 'ITEM:' text; the expected values
are recomputed from the *decimal strings written* (so formatting loss is never charged to the reader).
"""
from __future__ import annotations

import os

import numpy as np
from hypothesis import strategies as st
from hypothesis.extra import numpy as hnp

from ..gen import cell_st, fl, frac_st
from ..harness import Facet, Violation
from ..util import arr, close, equal, require

from PyMatterSim.reader.dump_reader import DumpReader
from PyMatterSim.reader.lammps_reader_helper import read_lammps_wrapper
from PyMatterSim.reader.reader_utils import DumpFileType

RULE = ("frame records -> LAMMPS dump text by an independent encoder; axes: ndim x style {x,xs,xu} x cell {ortho,tri "
        "with tilts of either sign} x N 0..12 x frames 1..4 x id permutation x types 1..9 x 0..3 trailing columns x "
        "boundary flags x number formats x origins x timesteps. non-trivial = atoms not in id order, or origin != 0, "
        "or a tilt != 0, or style != x, or >= 2 frames")
ASSUMPTIONS = ["well-formed files only: header at column 0, ids are a permutation of 1..N, scaled coordinates in [0,1)",
               "wrapped style: excursions of less than one box length",
               "expected values are float() of the written decimal strings; comparison rtol 1e-12"]

FORMATS = ["%.17g", "%.6f", "%.10e", "%g", "%.3f"]
FLAGS = ["pp pp pp", "pp ff pp", "ff ff ff", "pp pp fs", "pm pm pp", "fs ss mm"]
EXTRA_NAMES = ["vx", "vy", "vz", "c_pe", "q", "ix", "iy", "radius", "fx", "v_myvar", "mass", "mol"]


@st.composite
def frame_st(draw, d, style, cellkind, fmt):
    cell = draw(cell_st(d, cellkind, lmin=0.5, lmax=50.0))
    # N = 0 is a frame LAMMPS writes when the dumped group / threshold selection is empty at that step
    N = draw(st.one_of(st.integers(1, 12), st.integers(1, 12), st.integers(1, 12), st.integers(0, 3)))
    ids = np.array(draw(st.permutations(range(1, N + 1))), dtype=int)
    if draw(st.integers(0, 4)) == 0:
        ids = np.arange(1, N + 1)
    types = np.array(draw(st.lists(st.integers(1, 9), min_size=N, max_size=N)), dtype=int)
    f = draw(frac_st(N, d))
    exc = np.zeros((N, d))
    if style == "x" and cellkind == "ortho":
        # wrapped style: some atoms/axes carry an excursion of less than one box length either side
        exc = draw(hnp.arrays(np.float64, (N, d), elements=st.one_of(st.just(0.0), st.just(0.0), fl(-0.99, 0.99))))
    elif style == "xu":
        exc = draw(hnp.arrays(np.float64, (N, d), elements=st.one_of(st.just(0.0), fl(-5.0, 5.0)))).round(3)
    nextra = draw(st.integers(0, 3))
    names = draw(st.lists(st.sampled_from(EXTRA_NAMES), min_size=nextra, max_size=nextra, unique=True))
    extras = draw(hnp.arrays(np.float64, (N, nextra), elements=fl(-100.0, 100.0)))
    return {"cell": cell, "ids": ids, "types": types, "f": f, "exc": exc, "extra_names": names, "extras": extras,
            "flags": draw(st.sampled_from(FLAGS)), "zcol": draw(st.booleans()) if d == 2 else False}


@st.composite
def dump_st(draw, cellkinds=("ortho", "tri"), styles=("x", "xs", "xu"), frames=(1, 1)):
    d = draw(st.sampled_from([2, 3]))
    style = draw(st.sampled_from(list(styles)))
    cellkind = draw(st.sampled_from(list(cellkinds)))
    fmt = draw(st.sampled_from(FORMATS))
    T = draw(st.integers(*frames))
    fr = [draw(frame_st(d, style, cellkind, fmt)) for _ in range(T)]
    t0 = draw(st.one_of(st.just(0), st.integers(0, 10**9)))
    # timestep schedules a simulation can write: increasing (usual), a frame re-dumped at the same step (run 0,
    # minimisation, restart appending the last step), a counter that goes back (reset_timestep), identical copies of a
    # whole frame.  One snapshot per frame in file order is promised whatever the TIMESTEP lines say.
    sched = draw(st.sampled_from(["increasing", "increasing", "repeats", "any-order", "all-equal"])) if T > 1 else "single"
    steps = [t0]
    for _ in range(T - 1):
        if sched == "increasing":
            steps.append(steps[-1] + draw(st.integers(1, 10**6)))
        elif sched == "repeats":
            steps.append(steps[-1] + draw(st.sampled_from([0, 0, 1, 500])))
        elif sched == "all-equal":
            steps.append(t0)
        else:
            steps.append(draw(st.integers(0, 10**6)))
    if sched in ("repeats", "all-equal") and T > 1 and draw(st.booleans()):
        k = draw(st.integers(1, T - 1))
        fr[k] = fr[k - 1]            # the very same frame written twice
    return {"d": d, "style": style, "cellkind": cellkind, "fmt": fmt, "frames": fr, "timesteps": steps}


def encode(case):
    """Returns (text, expected) where expected[k] holds the values the file encodes for frame k."""
    d, style, fmt = case["d"], case["style"], case["fmt"]
    out = []
    expected = []
    P = lambda v: fmt % v  # noqa: E731
    for fr, ts in zip(case["frames"], case["timesteps"]):
        cell = fr["cell"]
        H, lo = cell["H"], cell["lo"]
        L = np.diag(H)
        N = len(fr["ids"])
        out.append("ITEM: TIMESTEP\n%d\nITEM: NUMBER OF ATOMS\n%d\n" % (ts, N))
        exp = {"timestep": ts, "nparticle": N}
        if cell["kind"] == "ortho":
            out.append("ITEM: BOX BOUNDS %s\n" % fr["flags"])
            slo = [P(lo[k]) for k in range(d)]
            shi = [P(lo[k] + L[k]) for k in range(d)]
            for k in range(d):
                out.append(f"{slo[k]} {shi[k]}\n")
            if d == 2:
                out.append("-0.5 0.5\n")
            plo = np.array([float(s) for s in slo])
            phi = np.array([float(s) for s in shi])
            exp["boxbounds"] = np.stack([plo, phi], axis=1)
            exp["boxlength"] = phi - plo
            exp["hmatrix"] = np.diag(phi - plo)
            exp["realbounds"] = None
            rlo, HH = plo, np.diag(phi - plo)
        else:
            xy = H[1, 0]
            xz = H[2, 0] if d == 3 else 0.0
            yz = H[2, 1] if d == 3 else 0.0
            hi = lo + L
            zlo, zhi = (lo[2], hi[2]) if d == 3 else (-0.5, 0.5)
            lines = [
                (lo[0] + min(0.0, xy, xz, xy + xz), hi[0] + max(0.0, xy, xz, xy + xz), xy),
                (lo[1] + min(0.0, yz), hi[1] + max(0.0, yz), xz),
                (zlo, zhi, yz),
            ]
            out.append("ITEM: BOX BOUNDS xy xz yz %s\n" % fr["flags"])
            parsed = []
            for a, b, c in lines:
                sa, sb, sc = P(a), P(b), P(c)
                out.append(f"{sa} {sb} {sc}\n")
                parsed.append((float(sa), float(sb), float(sc)))
            (xlb, xhb, pxy), (ylb, yhb, pxz), (zlb, zhb, pyz) = parsed
            xlo = xlb - min(0.0, pxy, pxz, pxy + pxz)
            xhi = xhb - max(0.0, pxy, pxz, pxy + pxz)
            ylo = ylb - min(0.0, pyz)
            yhi = yhb - max(0.0, pyz)
            real = np.array([[xlo, xhi], [ylo, yhi], [zlb, zhb]])
            HH = np.array([[xhi - xlo, 0, 0], [pxy, yhi - ylo, 0], [pxz, pyz, zhb - zlb]])[:d, :d]
            exp["boxbounds"] = np.array([[xlb, xhb], [ylb, yhb], [zlb, zhb]])[:d]
            exp["realbounds"] = real[:d]
            exp["boxlength"] = (real[:, 1] - real[:, 0])[:d]
            exp["hmatrix"] = HH
            rlo = real[:d, 0]
        cols = {"x": "x y z", "xs": "xs ys zs", "xu": "xu yu zu"}[style].split()
        ncoord = 3 if (d == 3 or fr["zcol"]) else 2
        out.append("ITEM: ATOMS id type " + " ".join(cols[:ncoord] + fr["extra_names"]) + "\n")
        pos = np.zeros((N, d))
        types = np.zeros(N, dtype=int)
        wrapped = False
        for row in range(N):
            i = fr["ids"][row]
            if style == "xs":
                vals = fr["f"][row]
            else:
                vals = lo + (fr["f"][row] + fr["exc"][row]) @ H
            svals = [P(v) for v in vals]
            if ncoord > d:
                svals.append(P(0.0))
            sextra = [P(v) for v in fr["extras"][row]]
            out.append(" ".join([str(i), str(fr["types"][row])] + svals + sextra) + "\n")
            pv = np.array([float(s) for s in svals[:d]])
            if style == "xs":
                p = rlo + pv @ HH
            elif style == "xu" or cell["kind"] == "tri":
                p = pv
            else:
                p = pv.copy()
                blo, bhi = exp["boxbounds"][:, 0], exp["boxbounds"][:, 1]
                bl = exp["boxlength"]
                for k in range(d):
                    if p[k] < blo[k]:
                        p[k] = p[k] + bl[k]
                        wrapped = True
                    elif p[k] > bhi[k]:
                        p[k] = p[k] - bl[k]
                        wrapped = True
            pos[i - 1] = p
            types[i - 1] = fr["types"][row]
        exp["positions"] = pos
        exp["particle_type"] = types
        exp["wrapped"] = wrapped
        expected.append(exp)
    return "".join(out), expected


def compare(tag, snaps, expected, case):
    d = case["d"]
    require(hasattr(snaps, "nsnapshots") and hasattr(snaps, "snapshots"), f"{tag}: result is not a Snapshots object: {snaps!r:.200}")
    require(snaps.nsnapshots == len(expected), f"{tag}: nsnapshots = {snaps.nsnapshots}, file holds {len(expected)} frames")
    require(len(snaps.snapshots) == len(expected), f"{tag}: {len(snaps.snapshots)} snapshots returned for {len(expected)} frames")
    for k, (s, e) in enumerate(zip(snaps.snapshots, expected)):
        t = f"{tag} frame {k}"
        require(s is not None, f"{t}: snapshot is None")
        require(int(s.timestep) == e["timestep"], f"{t}: timestep {s.timestep} != {e['timestep']}")
        require(int(s.nparticle) == e["nparticle"], f"{t}: nparticle {s.nparticle} != {e['nparticle']}")
        equal(f"{t}: particle_type", s.particle_type, e["particle_type"])
        scale = max(1.0, np.abs(e["boxbounds"]).max(), np.abs(e["positions"]).max(initial=0.0))
        atol = 4e-15 * scale * 8
        close(f"{t}: boxbounds", s.boxbounds, e["boxbounds"], rtol=1e-12, atol=atol)
        close(f"{t}: boxlength", s.boxlength, e["boxlength"], rtol=1e-12, atol=atol)
        close(f"{t}: hmatrix", s.hmatrix, e["hmatrix"], rtol=1e-12, atol=atol)
        if e["realbounds"] is not None:
            require(s.realbounds is not None, f"{t}: realbounds missing for a triclinic cell")
            close(f"{t}: realbounds", s.realbounds, e["realbounds"], rtol=1e-12, atol=atol)
        close(f"{t}: positions", s.positions, e["positions"], rtol=1e-12, atol=atol)
        if case["style"] == "x" and case["cellkind"] == "ortho":
            p = arr(f"{t}: positions", s.positions, shape=(e["nparticle"], d))
            lo, hi = e["boxbounds"][:, 0], e["boxbounds"][:, 1]
            require(np.all(p >= lo - atol) and np.all(p <= hi + atol), f"{t}: wrapped coordinates left outside the box")


def check(case):
    text, expected = encode(case)
    fn = os.path.join(os.getcwd(), "case.dump")
    with open(fn, "w") as f:
        f.write(text)
    d = case["d"]
    compare("read_lammps_wrapper", read_lammps_wrapper(fn, d), expected, case)
    rd = DumpReader(fn, ndim=d)
    rd.read_onefile()
    compare("DumpReader(default filetype)", rd.snapshots, expected, case)
    rd = DumpReader(fn, ndim=d, filetype=DumpFileType.LAMMPS)
    rd.read_onefile()
    compare("DumpReader(LAMMPS)", rd.snapshots, expected, case)

    fr0 = case["frames"]
    shuffled = any(not np.array_equal(fr["ids"], np.arange(1, len(fr["ids"]) + 1)) for fr in fr0)
    origin = any(np.any(fr["cell"]["lo"] != 0) for fr in fr0)
    tilt = any(np.any(fr["cell"]["H"] != np.diag(np.diag(fr["cell"]["H"]))) for fr in fr0)
    negtilt = any(np.any(fr["cell"]["H"] < 0) for fr in fr0)
    nontrivial = bool(shuffled or origin or tilt or case["style"] != "x" or len(fr0) >= 2)
    tags = [f"d{d}", case["style"], case["cellkind"], f"frames{len(fr0)}", "fmt" + case["fmt"],
            "shuffled" if shuffled else "ordered", "origin" if origin else "origin0"]
    if negtilt:
        tags.append("negtilt")
    ts = case["timesteps"]
    if len(ts) > 1:
        tags.append("timesteps-increasing" if all(b > a for a, b in zip(ts, ts[1:])) else
                    ("timesteps-repeat-consecutive" if any(b == a for a, b in zip(ts, ts[1:])) else "timesteps-unordered"))
    if any(e["wrapped"] for e in expected):
        tags.append("wrap-applied")
    if any(fr["extra_names"] for fr in fr0):
        tags.append("extras")
    if len({len(fr["ids"]) for fr in fr0}) > 1:
        tags.append("N-varies")
    if any(len(fr["ids"]) == 0 for fr in fr0):
        tags.append("empty-frame-last-only" if all(len(fr["ids"]) > 0 for fr in fr0[:-1]) else "empty-frame-not-last")
    return {"nontrivial": nontrivial, "tags": tags}


def describe(case):
    text, _ = encode(case)
    return {"d": case["d"], "style": case["style"], "cell": case["cellkind"], "text": text[:700]}


def _facet(name, n, nt, **kw):
    return Facet(name, dump_st(**kw), check, quick=n, thorough=nt, describe=describe, shards_quick=2,
                 rule="see RULE; region: " + ", ".join(f"{k}={v}" for k, v in kw.items()))


FACETS = [
    _facet("ortho_x_xu", 300, 20000, cellkinds=("ortho",), styles=("x", "xu")),
    _facet("ortho_xs", 300, 20000, cellkinds=("ortho",), styles=("xs",)),
    _facet("tri_x", 200, 20000, cellkinds=("tri",), styles=("x",)),
    _facet("tri_xs", 300, 20000, cellkinds=("tri",), styles=("xs",)),
    _facet("tri_xu", 200, 20000, cellkinds=("tri",), styles=("xu",)),
    _facet("multi_frame", 300, 20000, frames=(2, 4)),
]

# coverage-guided shards (pbt/fuzz.py: atheris mutates the byte stream behind the same strategy, reader modules
# instrumented for edge coverage, same round-trip oracle); runs = byte buffers tried
FUZZ = {
    "multi_frame": {"quick": 1200, "thorough": 60000},
    "tri_xs": {"quick": 1200, "thorough": 40000},
    "ortho_xs": {"quick": 1200, "thorough": 40000},
    "ortho_x_xu": {"quick": 1200, "thorough": 40000},
}

