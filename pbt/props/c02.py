"""C02 — minimum-image displacements: lattice translations only, into the half-cell.

CLAUSES (statement / quantifier split into axes; facet.assertion that decides each; populated class tags)
-----------------------------------------------------------------------------------------------------------------------
 clause / axis                                   decided by                                   classes (evidence tags)
-----------------------------------------------------------------------------------------------------------------------
 S1 out - in = integer combination of cell       generic,ties (1) `dn` integer to 1e-9*scale;  ortho / tri / general-*; d2 / d3;
    vectors (lattice translations only)          cell_stream via the reference                 maxshift0..4; |f|>1.5, |f|>8.5, |f|>30
 S2 only PERIODIC axes are translated; the       generic,ties (1) `dn[:, ppp==0] == 0`;        mask-partial / mask-full / mask-none;
    fractional components along non-periodic     differential (6) with the mask in the         rep-mask-list/-tuple/-bool/-float, default-mask
    axes are untouched                           reference
 S3 periodic fractional coordinates of the       generic,ties (2) |fo| <= 1/2 + 1e-9*scale;    whole-batch-short-but-beyond-half-cell,
    result lie in [-1/2, 1/2]                    cell_stream (same, for the cell AT CALL TIME) batch-corner-short, batch-all-inside
 S4 invariance under prior lattice shifts of     generic,ties (3) out(in + (s*ppp).H) == out   shift-small (|s|<=3) / shift-far (|s|<=40);
    periodic axes (away from half-cell ties)     (ties: equal modulo one lattice vector)       tie / no-tie
 S5 idempotence                                  generic,ties (4) f(f(x)) == f(x) (no-tie)     all classes
 S6 orthogonal cells: shortest periodic image    generic,ties (5) brute force over images:     ortho (incl. int cells); far images use the
                                                 full product |n|<=6 for small near batches,   per-axis minimum (exact for diagonal cells,
                                                 per-axis minimum over |n| <= |f|max+2 else    images up to |n| = 52)
 Q1 every invertible 2x2 / 3x3 cell matrix       generic cell kinds; cell_stream kinds         ortho, tri (either tilt sign), general-full /
                                                                                               -upper / -lower-permuted / -single-entry /
                                                                                               -rotated-ortho; rep-int-cell (int64)
 Q2 every set of displacement vectors, shape     generic: n = 0, 1, 2..8, size boundaries      n0, n1, n2-8, size-boundary-127..130,
    (n,d) or (d,)                                127..130, 255..258, 511..513, 1023..1025;     -255..258, -511..513, -1023..1025;
                                                 (d,) call for one row of EVERY case (7);      single-row-checked; call-single(d,) and
                                                 layouts: C, Fortran order, strided view,      call-big-batch in cell_stream;
                                                 int64 vectors                                 rep-vec-fortran / rep-vec-strided / rep-int-both
 Q3 all real magnitudes: near (|f| <= 0.55,      generic fmax classes 0.55 / 0.75 / 1 / 4 /    all-|f|<=0.55, all-|f|<=1, far-images,
    <= 1), far images up to |f| ~ 50             12 / 50; cell_stream mode far (|f| <= 46)     |f|>1.5, |f|>8.5, |f|>30; call-far
 Q4 every periodicity mask in {0,1}^d            all 2^d masks (incl. all-zero), also omitted  mask-*; default-mask (d = 3, documented
                                                 (documented default [1,1,1])                  default)
 Q5 every integer lattice shift                  shift in [-3,3]^d or [-40,40]^d               shift-small / shift-far
 H1 (histories) every call is the minimum image  cell_stream: reference for the contents at    call-right-after-inplace-update, update-*,
    for the cell contents AT CALL TIME           call time, shared buffer updated in place     call-corner-short / -all-inside / -far /
                                                                                               -single(d,) / -big-batch
 H2 results handed out earlier stay what they    generic (8): first result re-compared after   kept-results-rechecked (cell_stream),
    were (no recycled work buffer)               the later calls; cell_stream: ALL results of  every generic case
                                                 the history re-compared bit-for-bit
-----------------------------------------------------------------------------------------------------------------------
Round-3 audit: weak before = Q2 ((d,) only for half of the n = 1 cases; n <= 8; C-contiguous float64 only), Q3 (|f| <= 4),
Q4 (mask never omitted, all-zero mask had no tag), Q5 (|s| <= 3), S6 (brute force limited to |n| <= 6), H1 (history calls used
mixed magnitudes |f| <= 1.5 only: no whole-batch class, no (d,), no big batch), H2 (not asserted).  All have classes now.
Deliberately not asserted: the SHAPE returned for a (d,) input (the statement promises values only); that the input
displacement array is left unmodified (not promised); anything at exact half-cell ties beyond "one of the two images".
"""
from __future__ import annotations

import itertools

import numpy as np
from hypothesis import strategies as st
from hypothesis.extra import numpy as hnp

from ..gen import cell_st, fl, nice_float
from hypothesis.stateful import invariant, precondition, rule

from ..harness import Facet, RecordingMachine, Violation
from ..ref import geom
from ..util import arr, close, require

from PyMatterSim.utils.pbc import remove_pbc

RULE = ("generated cells (ortho / LAMMPS lower-triangular / general well-conditioned, also int64) x displacement sets given "
        "as fractional coordinates f (magnitude classes |f| <= 0.55 / 0.75 / 1 / 4 / 12 / 50; batches of 0, 1, 2..8 and "
        "127..130, 255..258, 511..513, 1023..1025 vectors; whole-batch classes: every member short but beyond the half "
        "cell, every member inside; layouts C / Fortran / strided / int64; a (d,) call for one row of every case) x all "
        "periodicity masks (array, list, tuple, bool, float, omitted) x integer lattice shifts |s| <= 3 or <= 40; non-trivial = "
        "some vector needs a non-zero lattice shift on a periodic axis and (cell non-orthogonal or mask partial or "
        "|n|>=2). cell_stream: histories over one cell buffer updated in place, calls with the same batch classes, all "
        "earlier results re-compared after every step")
ASSUMPTIONS = ["cell matrices have condition number <= ~50 (well-conditioned), so fractional coordinates are "
               "recoverable to 1e-9", "half-cell ties are only asserted modulo one lattice vector",
               "tolerances scale with 1 + |f|max (far images: |f| <= 50, shifted inputs up to |f| <= 90)",
               "a (d,) input must give the VALUES of the minimum image (size d); its returned shape is not asserted"]
MANIFEST = {
    "text": ("remove_pbc is compared with an independent fractional-rounding reference and with the six clauses of the "
             "statement (lattice translations only, non-periodic components untouched, half cell, shift invariance, "
             "idempotence, shortest image for orthogonal cells) over orthogonal / triclinic / general cells, all masks "
             "(also omitted / list / tuple / bool), batches of 0..1025 vectors incl. block-size boundaries, (d,) "
             "vectors, far images up to 50 cells, whole-batch short-cut classes, integer / Fortran / strided "
             "representations (facets generic, ties); histories over a cell array updated in place with every earlier "
             "result re-checked bit-for-bit (facet cell_stream)."),
    "note": ("Trusted base: pbt/ref/geom.py (numpy.linalg.solve + floor(x+1/2)). Cells well-conditioned (cond <= ~50); "
             "half-cell ties asserted modulo one lattice vector only; returned shape of a (d,) input not asserted."),
    "technique": ("property-based testing (Hypothesis): metamorphic relations + reference-model differential; stateful "
                  "model-based testing of call histories (RuleBasedStateMachine)"),
}

EPS = 1e-9
BOUNDARY_N = [127, 128, 129, 130, 255, 256, 257, 258, 127, 128, 129, 130, 255, 256, 257, 258,
              511, 512, 513, 1023, 1024, 1025]      # around block sizes 128 / 256 / 512 / 1024 (EXTENSION_3 class 1)


@st.composite
def general_cell(draw, d):
    """Well-conditioned full matrix: rotation-free construction L + small off-diagonal in all entries."""
    L = np.array([draw(nice_float(1.0, 20.0)) for _ in range(d)])
    off = draw(hnp.arrays(np.float64, (d, d), elements=fl(-0.3, 0.3), fill=st.nothing()))
    H = np.diag(L) + off * L.min()
    np.fill_diagonal(H, L)
    # structured sub-classes of "any invertible cell matrix": a shape test that looks at one triangle only, at one
    # entry, or at orthogonality of the cell vectors must not change the contract
    shape = draw(st.sampled_from(["full", "full", "upper", "lower-permuted", "single-entry", "rotated-ortho"]))
    if shape == "upper":
        H = np.triu(H)
    elif shape == "lower-permuted":
        ax = list(draw(st.permutations(range(d))))
        H = np.tril(H)[ax][:, ax]
    elif shape == "single-entry":
        i, j = draw(st.sampled_from([(a, b) for a in range(d) for b in range(d) if a != b]))
        v = H[i, j] if abs(H[i, j]) > 0.05 * L.min() else 0.25 * L.min()
        H = np.diag(L)
        H[i, j] = v
    elif shape == "rotated-ortho":
        a = draw(fl(0.2, 1.3))
        R = np.eye(d)
        i, j = draw(st.sampled_from([(a_, b_) for a_ in range(d) for b_ in range(a_ + 1, d)]))
        R[i, i] = R[j, j] = np.cos(a)
        R[i, j], R[j, i] = -np.sin(a), np.sin(a)
        H = np.diag(L) @ R
    return {"d": d, "kind": "general", "H": H, "lo": np.zeros(d), "origin": "zero", "shape": shape}


def corner_rows(H, rng_rows):
    """Rows short in every Cartesian component (below half the smallest perpendicular width w of the cell) but aimed at
    the oblique corner where a fractional coordinate exceeds 1/2.  rng_rows = [(axis k, sign, u[d]), ...]."""
    Hinv = np.linalg.inv(H)
    w = 0.5 / np.sqrt((Hinv * Hinv).sum(axis=0)).max()
    rows = []
    for k, s, u in rng_rows:
        sg = np.where(Hinv[:, k] >= 0, 1.0, -1.0) * s
        rows.append((w * sg * np.asarray(u)) @ Hinv)
    return np.array(rows)


def bulk_rows(seed, n, d, fmax, batch, H):
    """Bulk fractional coordinates for batches of hundreds of vectors from numpy's generator seeded by Hypothesis
    (DESIGN 1.3 exception); the case stores the arrays, so replays are self-contained."""
    rng = np.random.default_rng(seed)
    grid = rng.integers(-64, 65, (n, d)) / 64.0 * fmax
    cont = rng.uniform(-fmax, fmax, (n, d))
    f = np.where(rng.random((n, d)) < 0.5, grid, cont)
    if batch == "corner-short":
        us = rng.choice([0.999, 0.97, 0.9, 0.8], (n, d))
        f = corner_rows(H, [(int(rng.integers(0, d)), float(rng.choice([1.0, -1.0])), us[i]) for i in range(n)])
    elif batch == "all-inside":
        f = f / (2.0 * fmax) * 0.98
    return f


@st.composite
def case_st(draw, tie=False):
    d = draw(st.sampled_from([2, 3]))
    ck = draw(st.sampled_from(["ortho", "tri", "general"]))
    cell = draw(general_cell(d)) if ck == "general" else draw(cell_st(d, ck, origin="zero"))
    smax = 3
    if tie:
        # dyadic boxes, fractional coordinates exactly k + 1/2 on some axes
        H = np.diag([float(2 ** draw(st.integers(0, 4))) for _ in range(d)])
        cell = {"d": d, "kind": "ortho", "H": H, "lo": np.zeros(d), "origin": "zero"}
        n = draw(st.integers(1, 6))
        f = draw(hnp.arrays(np.float64, (n, d), elements=st.integers(-8, 8).map(lambda k: k / 2.0)))
        batch = "ties"
    else:
        size = draw(st.sampled_from(["small"] * 9 + ["one"] * 3 + ["boundary"] * 3 + ["empty"]))
        n = draw({"small": st.integers(1, 8), "one": st.just(1), "empty": st.just(0), "boundary": st.sampled_from(BOUNDARY_N)}[size])
        # magnitude classes: displacements between particles of one box have |f| <= 1 (the usual callers), plus far
        # images: unwrapped trajectories / image-shifted particles, tens of cells apart
        fmax = draw(st.sampled_from([0.55, 0.75, 1.0, 4.0, 4.0, 12.0, 50.0]))
        # whole-batch classes (EXTENSION_3 class 4): a short-cut that inspects the batch as a whole (largest Cartesian
        # component below half the smallest perpendicular width -> "nothing to fold") is switched off by one long
        # member, so batches whose members ALL sit in the critical region are constructed, not hoped for: every vector
        # short in every Cartesian component but aimed at the oblique corner of a tilted cell, where a fractional
        # coordinate exceeds 1/2 (H=[[10,0],[5,10]], r=(4,-4): s_x=0.6).
        batch = draw(st.sampled_from(["mixed", "mixed", "corner-short", "corner-short", "all-inside"]))
        if batch == "corner-short" and ck == "ortho":
            batch = "mixed"
        if n > 8:
            f = bulk_rows(draw(st.integers(0, 2 ** 32 - 1)), n, d, fmax, batch, cell["H"])
        elif n == 0:
            f = np.zeros((0, d))
        else:
            el = st.one_of(st.integers(-64, 64).map(lambda k: k / 64.0 * fmax), fl(-fmax, fmax))
            f = draw(hnp.arrays(np.float64, (n, d), elements=el, fill=st.nothing()))
            if batch == "corner-short":
                f = corner_rows(cell["H"], [(draw(st.integers(0, d - 1)), draw(st.sampled_from([1.0, -1.0])),
                                             [draw(st.sampled_from([0.999, 0.97, 0.9, 0.8])) for _ in range(d)])
                                            for _ in range(n)])
            elif batch == "all-inside":
                f = f / (2.0 * fmax) * 0.98          # every |f| < 1/2: nothing to fold, the input must come back
        smax = draw(st.sampled_from([3, 3, 40]))
    ppp = np.array(draw(st.sampled_from(list(itertools.product([0, 1], repeat=d)))), dtype=int)
    if draw(st.integers(0, 3)) > 0:
        ppp = np.ones(d, dtype=int) if draw(st.booleans()) else ppp
    if n > 8:
        shift = np.random.default_rng(draw(st.integers(0, 2 ** 32 - 1))).integers(-smax, smax + 1, (n, d))
    else:
        shift = draw(hnp.arrays(np.int64, (n, d), elements=st.integers(-smax, smax)))
    srow = draw(st.integers(0, max(0, n - 1))) if n <= 8 else draw(st.sampled_from([0, n - 1, n - 2, 127, 128, n // 2]))
    # argument representations a caller may use for the same values: a hand-built integer cell such as
    # np.diag([10, 10, 10]) (int64), integer displacement arrays, the mask as a list / tuple / bool array or omitted
    # (documented default [1,1,1]), Fortran-ordered or strided displacement arrays (a column slice of a wider table)
    rep = draw(st.sampled_from(["float", "float", "float", "float", "int-cell", "int-both", "mask-list", "mask-tuple",
                                "mask-bool", "mask-float", "default-mask", "vec-fortran", "vec-strided"]))
    if rep in ("int-cell", "int-both") and not tie:
        Hi = np.rint(cell["H"] * (1.0 if np.abs(np.diag(cell["H"])).min() >= 2.0 else 4.0))
        if abs(np.linalg.det(Hi)) >= 0.5 * np.prod(np.abs(np.diag(Hi))) and np.all(np.diag(Hi) != 0):
            cell = dict(cell, H=Hi)
            if batch == "corner-short":     # rows were aimed at the corner of the un-rounded cell
                batch = "mixed"
        else:
            rep = "float"
    if rep == "default-mask":
        if d == 3:
            ppp = np.ones(3, dtype=int)
        else:
            rep = "float"
    return {"d": d, "cell": cell, "f": f, "ppp": ppp, "shift": shift, "single": n == 1, "tie": tie, "rep": rep,
            "batch": batch, "srow": srow, "smax": smax}


def shortest_per_axis(R, H, ppp, kmax):
    """Orthogonal (diagonal) cell: the squared length of an image is a sum over axes, so the shortest image is the
    per-axis minimum over n in [-kmax, kmax] on periodic axes.  Returns the minimum lengths."""
    d2 = np.zeros(len(R))
    ks = np.arange(-kmax, kmax + 1, dtype=float)
    for a in range(H.shape[0]):
        if ppp[a]:
            d2 += ((R[:, a, None] + ks[None, :] * H[a, a]) ** 2).min(axis=1)
        else:
            d2 += R[:, a] ** 2
    return np.sqrt(d2)


def check(case):
    H = case["cell"]["H"]
    d = case["d"]
    ppp = case["ppp"]
    f = case["f"]
    R = f @ H
    rep = case.get("rep", "float")
    if rep == "int-both":
        R = np.rint(R)
    n = len(R)
    Hin, Rin = H.copy(), R.copy()

    def as_cell(M):      # same values, the representation drawn for this case
        return M.astype(np.int64) if rep in ("int-cell", "int-both") and np.all(M == np.rint(M)) else M.copy()

    def as_vec(V):
        if rep == "int-both" and np.all(V == np.rint(V)):
            return V.astype(np.int64)
        if rep == "vec-fortran":
            return np.asfortranarray(V.copy())
        if rep == "vec-strided":      # every second column of a wider table
            wide = np.zeros((V.shape[0], 2 * V.shape[1]))
            wide[:, ::2] = V
            wide[:, 1::2] = 7.25
            return wide[:, ::2]
        return V.copy()

    def as_mask(m):
        return {"mask-list": lambda: [int(x) for x in m], "mask-tuple": lambda: tuple(int(x) for x in m),
                "mask-bool": lambda: np.asarray(m).astype(bool),
                "mask-float": lambda: np.asarray(m).astype(np.float64)}.get(rep, lambda: m.copy())()

    _lib = remove_pbc

    def remove_pbc_rep(V, M, m):
        if rep == "default-mask":     # documented default: periodic in all three dimensions
            return _lib(as_vec(V), as_cell(M))
        return _lib(as_vec(V), as_cell(M), as_mask(m))

    tags = [f"d{d}", case["cell"]["kind"], "rep-" + rep, "batch-" + case.get("batch", "mixed"),
            "mask-none" if not ppp.any() else ("mask-partial" if not ppp.all() else "mask-full"),
            *(["general-" + case["cell"]["shape"]] if "shape" in case["cell"] else []),
            "n0" if n == 0 else ("n1" if n == 1 else ("n2-8" if n <= 8 else f"size-boundary-{n}"))]
    if n == 0:
        # the empty set of displacements: an empty result with d columns (no vector to move)
        o0 = arr("remove_pbc(empty batch)", remove_pbc_rep(R, H, ppp))
        require(o0.size == 0, f"empty batch returned {o0.shape}")
        return {"nontrivial": False, "tags": tags}

    raw = remove_pbc_rep(R, H, ppp)
    out = np.array(arr("remove_pbc", raw, shape=(n, d)), dtype=float)      # copy taken at return
    scale = np.abs(f).max() + 1.0
    tol = 1e-9 * scale

    fo = geom.frac_coords(out, H)
    fi = geom.frac_coords(Rin, H)
    # (1) lattice translations only, zero on non-periodic axes
    dn = fi - fo
    require(np.all(np.abs(dn - np.round(dn)) < tol),
            lambda: f"output differs from input by a non-integer lattice combination: {dn[:6].tolist()}")
    require(np.all(np.abs(dn[:, ppp == 0]) < tol),
            lambda: f"non-periodic fractional components changed: {dn[:6].tolist()} ppp={ppp.tolist()}")
    # (2) into the half cell
    bad = np.abs(fo[:, ppp == 1]) > 0.5 + tol
    require(not bad.any(), lambda: f"periodic fractional coordinates outside [-1/2,1/2] in row "
            f"{int(np.argwhere(bad)[0][0])} of {n}: {fo[np.argwhere(bad)[0][0]].tolist()} ppp={ppp.tolist()}")
    # (6) differential against the independent reference (away from ties)
    ref, tie = geom.min_image(Rin, H, ppp)
    ok = ~tie
    if ok.any():
        close("remove_pbc vs reference", out[ok], ref[ok], rtol=1e-9, atol=1e-9 * np.abs(H).max() * scale)
    # ties: equal modulo one lattice vector per tied axis
    if tie.any():
        dd = geom.frac_coords(out[tie] - ref[tie], H)
        require(np.all(np.abs(dd - np.round(dd)) < tol) and np.all(np.abs(dd) < 1 + tol),
                lambda: f"tie handling moved a vector by more than one lattice vector: {dd.tolist()}")
    # (3) invariance under lattice shifts of periodic axes
    Rs = Rin + (case["shift"] * ppp) @ H
    sscale = scale + float(np.abs(case["shift"]).max())
    out_s = arr("remove_pbc(shifted)", remove_pbc_rep(Rs, H, ppp), shape=(n, d)).astype(float)
    near_half = (np.abs(np.abs(fi - np.round(fi)) - 0.5) < 1e-6) & (ppp == 1)
    okr = ~near_half.any(axis=1)
    if okr.any():
        close("shift invariance", out_s[okr], out[okr], rtol=1e-9, atol=1e-8 * np.abs(H).max() * sscale)
    if (~okr).any():
        dd = geom.frac_coords(out_s[~okr] - out[~okr], H)
        require(np.all(np.abs(dd - np.round(dd)) < 10 * 1e-9 * sscale) and np.all(np.abs(dd) < 1 + 10 * 1e-9 * sscale),
                lambda: f"shifted tie differs by more than one lattice vector: {dd.tolist()}")
    # (4) idempotence (ties excluded: rint of +-0.5 +- ulp may flip)
    out2 = arr("remove_pbc twice", remove_pbc_rep(out, H, ppp), shape=(n, d)).astype(float)
    if ok.any():
        close("idempotence", out2[ok], out[ok], rtol=1e-9, atol=1e-9 * np.abs(H).max() * scale)
    # (5) orthogonal cells: shortest of all periodic images
    if case["cell"]["kind"] == "ortho":
        dout = np.sqrt((out ** 2).sum(axis=1))
        if n <= 8 and np.abs(f).max() <= 5.0:
            rng = [range(-6, 7) if p else [0] for p in ppp]
            imgs = np.array(list(itertools.product(*rng)), dtype=float) @ H
            allimg = Rin[:, None, :] + imgs[None, :, :]
            dmin = np.sqrt((allimg ** 2).sum(axis=2)).min(axis=1)
        else:
            dmin = shortest_per_axis(Rin, H, ppp, int(np.ceil(np.abs(f).max())) + 2)
        require(np.all(np.abs(dout - dmin) <= 1e-9 * scale * (1 + dmin)),
                lambda: f"not the shortest image: |out|={dout[:6].tolist()} min={dmin[:6].tolist()}")
    # (7) a single vector of shape (d,) gives the values of its minimum image (one row of every case)
    k = int(case.get("srow", 0)) % n
    o1 = arr("remove_pbc((d,) input)", _lib(as_vec(Rin)[k], as_cell(H), as_mask(ppp)))
    require(o1.size == d, f"(d,) input returned shape {o1.shape}")
    o1 = o1.reshape(-1).astype(float)
    if not tie[k]:
        close("(d,) input vs reference", o1, ref[k], rtol=1e-9, atol=1e-9 * np.abs(H).max() * scale)
    f1 = geom.frac_coords(o1, H)[0]
    require(np.all(np.abs(f1[ppp == 1]) <= 0.5 + tol),
            lambda: f"(d,) input: periodic fractional coordinates outside [-1/2,1/2]: {f1.tolist()} ppp={ppp.tolist()}")
    # (8) the result handed out first is still what it was after the later calls
    require(np.array_equal(np.asarray(raw, dtype=float), out), "the array returned by the first call changed during later calls")
    # inputs untouched
    require(np.array_equal(H, Hin), "hmatrix modified")

    nshift = np.round(fi - fo)
    moved = np.any(nshift[:, ppp == 1] != 0)
    nontrivial = bool(moved and (case["cell"]["kind"] != "ortho" or not ppp.all() or np.abs(nshift).max() >= 2))
    fm = np.abs(f).max()
    tags += ["all-|f|<=0.55" if fm <= 0.55 else ("all-|f|<=1" if fm <= 1 else "far-images"),
             *[t for t, v in (("|f|>1.5", 1.5), ("|f|>8.5", 8.5), ("|f|>30", 30.0)) if fm > v],
             "inside-cartesian-half-box" if np.all(np.abs(R) <= 0.5 * np.abs(np.diag(H))) else "outside-cartesian-half-box",
             "tie" if tie.any() else "no-tie", "single" if case["single"] else "batch", "single-row-checked",
             "shift-far" if case.get("smax", 3) > 3 else "shift-small",
             f"maxshift{int(min(np.abs(nshift).max(), 4))}"]
    if n > 8 and np.any(nshift[-1, ppp == 1] != 0):
        tags.append("big-batch-last-row-folded")
    Hinv_ = np.linalg.inv(H)
    wmin = 0.5 / np.sqrt((Hinv_ * Hinv_).sum(axis=0)).max()
    if np.abs(R).max() < wmin and np.any(np.abs(fi[:, ppp == 1]) > 0.5 + 1e-6):
        tags.append("whole-batch-short-but-beyond-half-cell")   # every member short, some member needs folding
    return {"nontrivial": nontrivial, "tags": tags}


def describe(case):
    return {"H": np.round(case["cell"]["H"], 4).tolist(), "f": np.round(case["f"], 4).tolist()[:3], "n": len(case["f"]),
            "ppp": case["ppp"].tolist(), "kind": case["cell"]["kind"], "rep": case.get("rep"), "batch": case.get("batch")}


# ----------------------------------------------------------------------------- histories


class CellStream(RecordingMachine):
    """History facet: one preallocated cell array is updated IN PLACE between calls (frame streaming, NPT / shear
    runs), interleaved with calls on other array objects.  Every call must be the minimum image for the cell contents
    at call time, whatever was computed before (no hidden state keyed on array identity / shape), for every batch
    class of the generic facet (mixed, all members short but beyond the half cell, all inside, far images, a (d,)
    vector, a batch of 127..258 vectors); every result handed out earlier must still be what it was at return."""

    def __init__(self):
        super().__init__()
        self.d = None
        self.buf = None
        self.last_update = None  # step index of the last in-place update
        self.calls_since_update = 0
        self.kept = []           # (object returned by the library, copy taken at return, step number)

    def _newcell(self, d, diag, off, kind):
        H = np.diag(np.array(diag[:d], dtype=float))
        if kind != "ortho":
            o = np.array(off, dtype=float).reshape(3, 3)[:d, :d] * H.diagonal().min()
            if kind == "tri":
                o = np.tril(o, -1)
            np.fill_diagonal(o, 0.0)
            H = H + o
        return H

    @precondition(lambda self: self.buf is None)
    @rule(d=st.sampled_from([2, 3]))
    def r_init(self, d):
        self.step("init", d=d)
        self.do_init(d=d)

    def do_init(self, d):
        self.d = d
        self.buf = np.diag(np.full(d, 5.0))

    @precondition(lambda self: self.buf is not None)
    @rule(diag=st.lists(st.integers(4, 80).map(lambda k: k / 4.0), min_size=3, max_size=3),
          off=st.lists(st.integers(-12, 12).map(lambda k: k / 40.0), min_size=9, max_size=9),
          kind=st.sampled_from(["ortho", "tri", "general"]), how=st.sampled_from(["assign", "scale"]))
    def r_update(self, diag, off, kind, how):
        self.step("update", diag=diag, off=off, kind=kind, how=how)
        self.do_update(diag=diag, off=off, kind=kind, how=how)

    def do_update(self, diag, off, kind, how):
        if how == "scale":
            self.buf *= diag[0] / 8.0  # e.g. an isotropic barostat step
        else:
            self.buf[...] = self._newcell(self.d, diag, off, kind)
        self.calls_since_update = 0
        self.tag("update-" + how)

    def _vectors(self, Hnow, fr, mode, seed):
        """Fractional coordinates of the batch of this call; (f, single)."""
        d = self.d
        f = np.array(fr, dtype=float).reshape(-1, 3)[:, :d]
        rng = np.random.default_rng(seed)
        tilted = bool(np.any(Hnow - np.diag(np.diag(Hnow))))
        if mode == "corner-short" and tilted:
            us = rng.choice([0.999, 0.97, 0.9, 0.8], (len(f), d))
            f = corner_rows(Hnow, [(int(rng.integers(0, d)), float(rng.choice([1.0, -1.0])), us[i]) for i in range(len(f))])
        elif mode == "all-inside":
            f = f / 3.0 * 0.98              # fr in [-1.5, 1.5] -> every |f| < 1/2
        elif mode == "far":
            f = f * 31.0                    # up to 46.5 cells away (31 k/64 is a half-integer for k = +-32, +-96 only)
        elif mode == "big":
            f = rng.uniform(-2.0, 2.0, (int(rng.choice(BOUNDARY_N[:8])), d))
        elif mode not in ("given", "single"):
            mode = "given"
        return f, mode

    def _check(self, H, fr, ppp, same_object, mode="given", seed=0):
        d = self.d
        ppp = np.array(ppp[:d], dtype=int)
        Hnow = np.array(H, dtype=float, copy=True)
        f, mode = self._vectors(Hnow, fr, mode, seed)
        R = f @ Hnow
        Harg = H if same_object else Hnow.copy()
        if mode == "single":
            R = R[:1]
            f = f[:1]
            raw = remove_pbc(R[0].copy(), Harg, ppp.copy())
            o = arr("remove_pbc((d,) input)", raw)
            require(o.size == d, f"(d,) input returned shape {o.shape}")
            out = o.reshape(1, d)
        else:
            raw = remove_pbc(R.copy(), Harg, ppp.copy())
            out = arr("remove_pbc", raw, shape=R.shape)
        self.kept.append((raw, np.array(raw, copy=True), len(self.log)))
        require(np.array_equal(np.asarray(H), Hnow), "hmatrix modified by remove_pbc")
        ref, tie = geom.min_image(R, Hnow, ppp)
        ok = ~tie
        scale = np.abs(f).max() + 1.0
        if ok.any():
            close("remove_pbc vs reference for the current cell contents", out[ok], ref[ok], rtol=1e-9,
                  atol=1e-9 * np.abs(Hnow).max() * scale)
        fo = geom.frac_coords(out, Hnow)
        require(np.all(np.abs(fo[:, ppp == 1]) <= 0.5 + 1e-9 * scale),
                lambda: f"periodic fractional coordinates outside [-1/2,1/2] for the current cell: {fo[:6].tolist()}")
        self.tag("call-" + {"single": "single(d,)", "big": "big-batch"}.get(mode, mode))
        fi = geom.frac_coords(R, Hnow)
        Hinv = np.linalg.inv(Hnow)
        if (np.abs(R).max() < 0.5 / np.sqrt((Hinv * Hinv).sum(axis=0)).max()
                and np.any(np.abs(fi[:, ppp == 1]) > 0.5 + 1e-6)):
            self.tag("whole-batch-short-but-beyond-half-cell")

    MODES = ["given", "given", "given", "corner-short", "corner-short", "corner-short", "corner-short", "all-inside", "far", "single", "big"]

    @precondition(lambda self: self.buf is not None)
    @rule(fr=st.lists(st.integers(-96, 96).map(lambda k: k / 64.0), min_size=3, max_size=12).filter(lambda x: len(x) % 3 == 0),
          ppp=st.lists(st.integers(0, 1), min_size=3, max_size=3), mode=st.sampled_from(MODES), seed=st.integers(0, 2 ** 31 - 1))
    def r_call(self, fr, ppp, mode, seed):
        self.step("call", fr=fr, ppp=ppp, mode=mode, seed=seed)
        self.do_call(fr=fr, ppp=ppp, mode=mode, seed=seed)

    def do_call(self, fr, ppp, mode="given", seed=0):
        first_after_update = self.calls_since_update == 0 and any(n == "update" for n, _ in self.log[:-1])
        earlier_call = any(n == "call" for n, _ in self.log[:-1])
        self._check(self.buf, fr, ppp, same_object=True, mode=mode, seed=seed)
        self.calls_since_update += 1
        if first_after_update and earlier_call:
            self.info["nontrivial"] = True
            self.tag("call-right-after-inplace-update")
        self.tag("call-shared-buffer")

    @precondition(lambda self: self.buf is not None)
    @rule(fr=st.lists(st.integers(-96, 96).map(lambda k: k / 64.0), min_size=3, max_size=6).filter(lambda x: len(x) % 3 == 0),
          ppp=st.lists(st.integers(0, 1), min_size=3, max_size=3), diag=st.lists(st.integers(4, 80).map(lambda k: k / 4.0), min_size=3, max_size=3),
          mode=st.sampled_from(["given", "given", "far", "single"]))
    def r_other(self, fr, ppp, diag, mode):
        self.step("other", fr=fr, ppp=ppp, diag=diag, mode=mode)
        self.do_other(fr=fr, ppp=ppp, diag=diag, mode=mode)

    def do_other(self, fr, ppp, diag, mode="given"):
        self._check(np.diag(np.array(diag[:self.d], dtype=float)), fr, ppp, same_object=False, mode=mode)
        self.tag("call-other-array")

    def check_invariants_now(self):
        # results handed out earlier must stay what they were (a recycled work buffer returned to the caller is right
        # at the moment of return and wrong after the next call of the same shape)
        for raw, copy, stepno in self.kept:
            require(np.array_equal(np.asarray(raw), copy),
                    f"the array returned by the call of step {stepno} changed after a later call")
        if len(self.kept) >= 2:
            self.tag("kept-results-rechecked")

    @invariant()
    def inv(self):
        self.check_invariants_now()


def describe_history(log):
    return [(n, {k: (v if not isinstance(v, list) or len(v) <= 9 else v[:9]) for k, v in kw.items()}) for n, kw in log[:8]]


FACETS = [
    Facet("generic", case_st(False), check, quick=3000, thorough=300000, describe=describe, shards_quick=4,
          quick_budget_s=240.0, rule="random cells/vectors/masks; non-trivial as in RULE"),
    Facet("ties", case_st(True), check, quick=500, thorough=30000, describe=describe, quick_budget_s=240.0,
          rule="dyadic orthogonal boxes with fractional coordinates exactly k/2; non-trivial as in RULE"),
    Facet("cell_stream", machine=CellStream, quick=300, thorough=20000, steps=10, describe=describe_history,
          quick_budget_s=240.0,
          rule="histories of calls sharing one cell array that is updated in place between calls, interleaved with calls "
               "on other arrays; batch classes as in generic; all earlier results re-compared after every step; "
               "non-trivial = a call on the shared array right after an in-place update that follows an earlier call"),
]
