"""C02 — minimum-image displacements: lattice translations only, into the half-cell."""
from __future__ import annotations

import itertools

import numpy as np
from hypothesis import strategies as st
from hypothesis.extra import numpy as hnp

from ..gen import cell_st, fl, nice_float
from ..harness import Facet, Violation
from ..ref import geom
from ..util import arr, close, require

from PyMatterSim.utils.pbc import remove_pbc

RULE = ("generated cells (ortho / LAMMPS lower-triangular / general well-conditioned) x displacement sets given as "
        "fractional coordinates f in [-4,4]^d x all periodicity masks x integer lattice shifts; non-trivial = some "
        "vector needs a non-zero lattice shift on a periodic axis and (cell non-orthogonal or mask partial or |n|>=2)")
ASSUMPTIONS = ["cell matrices have condition number <= ~50 (well-conditioned), so fractional coordinates are "
               "recoverable to 1e-9", "half-cell ties are only asserted modulo one lattice vector"]

EPS = 1e-9


@st.composite
def general_cell(draw, d):
    """Well-conditioned full matrix: rotation-free construction L + small off-diagonal in all entries."""
    L = np.array([draw(nice_float(1.0, 20.0)) for _ in range(d)])
    off = draw(hnp.arrays(np.float64, (d, d), elements=fl(-0.3, 0.3)))
    H = np.diag(L) + off * L.min()
    np.fill_diagonal(H, L)
    return {"d": d, "kind": "general", "H": H, "lo": np.zeros(d), "origin": "zero"}


@st.composite
def case_st(draw, tie=False):
    d = draw(st.sampled_from([2, 3]))
    ck = draw(st.sampled_from(["ortho", "tri", "general"]))
    cell = draw(general_cell(d)) if ck == "general" else draw(cell_st(d, ck, origin="zero"))
    if tie:
        # dyadic boxes, fractional coordinates exactly k + 1/2 on some axes
        H = np.diag([float(2 ** draw(st.integers(0, 4))) for _ in range(d)])
        cell = {"d": d, "kind": "ortho", "H": H, "lo": np.zeros(d), "origin": "zero"}
        n = draw(st.integers(1, 6))
        f = draw(hnp.arrays(np.float64, (n, d), elements=st.integers(-8, 8).map(lambda k: k / 2.0)))
    else:
        n = draw(st.integers(1, 8))
        el = st.one_of(st.integers(-64, 64).map(lambda k: k / 16.0), fl(-4.0, 4.0))
        f = draw(hnp.arrays(np.float64, (n, d), elements=el))
    ppp = np.array(draw(st.sampled_from(list(itertools.product([0, 1], repeat=d)))), dtype=int)
    if draw(st.integers(0, 3)) > 0:
        ppp = np.ones(d, dtype=int) if draw(st.booleans()) else ppp
    shift = draw(hnp.arrays(np.int64, (n, d), elements=st.integers(-3, 3)))
    single = draw(st.booleans()) if n == 1 else False
    return {"d": d, "cell": cell, "f": f, "ppp": ppp, "shift": shift, "single": single, "tie": tie}


def check(case):
    H = case["cell"]["H"]
    d = case["d"]
    ppp = case["ppp"]
    f = case["f"]
    R = f @ H
    n = len(R)
    Hin, Rin = H.copy(), R.copy()
    out = arr("remove_pbc", remove_pbc(R.copy(), H.copy(), ppp.copy()), shape=(n, d))
    scale = np.abs(f).max() + 1.0
    tol = 1e-9 * scale

    fo = geom.frac_coords(out, H)
    fi = geom.frac_coords(Rin, H)
    # (1) lattice translations only, zero on non-periodic axes
    dn = fi - fo
    require(np.all(np.abs(dn - np.round(dn)) < tol),
            lambda: f"output differs from input by a non-integer lattice combination: {dn.tolist()}")
    require(np.all(np.abs(dn[:, ppp == 0]) < tol),
            lambda: f"non-periodic fractional components changed: {dn.tolist()} ppp={ppp.tolist()}")
    # (2) into the half cell
    require(np.all(np.abs(fo[:, ppp == 1]) <= 0.5 + tol),
            lambda: f"periodic fractional coordinates outside [-1/2,1/2]: {fo.tolist()} ppp={ppp.tolist()}")
    # (6) differential against the independent reference (away from ties)
    ref, tie = geom.min_image(Rin, H, ppp)
    ok = ~tie
    if ok.any():
        close("remove_pbc vs reference", out[ok], ref[ok], rtol=1e-9, atol=1e-9 * np.abs(H).max() * scale)
    # ties: equal modulo one lattice vector per tied axis
    if tie.any():
        dd = geom.frac_coords(out[tie] - ref[tie], H)
        require(np.all(np.abs(dd - np.round(dd)) < tol) and np.all(np.abs(dd) < 1 + tol),
                lambda: f"tie handling moved a vector by more than one lattice vector: {dd.tolist()}")
    # (3) invariance under lattice shifts of periodic axes
    Rs = Rin + (case["shift"] * ppp) @ H
    out_s = arr("remove_pbc(shifted)", remove_pbc(Rs.copy(), H.copy(), ppp.copy()), shape=(n, d))
    near_half = (np.abs(np.abs(fi - np.round(fi)) - 0.5) < 1e-6) & (ppp == 1)
    okr = ~near_half.any(axis=1)
    if okr.any():
        close("shift invariance", out_s[okr], out[okr], rtol=1e-9, atol=1e-8 * np.abs(H).max() * scale)
    if (~okr).any():
        dd = geom.frac_coords(out_s[~okr] - out[~okr], H)
        require(np.all(np.abs(dd - np.round(dd)) < 10 * tol) and np.all(np.abs(dd) < 1 + 10 * tol),
                lambda: f"shifted tie differs by more than one lattice vector: {dd.tolist()}")
    # (4) idempotence (ties excluded: rint of +-0.5 +- ulp may flip)
    out2 = arr("remove_pbc twice", remove_pbc(out.copy(), H.copy(), ppp.copy()), shape=(n, d))
    if ok.any():
        close("idempotence", out2[ok], out[ok], rtol=1e-9, atol=1e-9 * np.abs(H).max() * scale)
    # (5) orthogonal cells: shortest of all periodic images
    if case["cell"]["kind"] == "ortho":
        rng = [range(-6, 7) if p else [0] for p in ppp]
        imgs = np.array(list(itertools.product(*rng)), dtype=float) @ H
        allimg = Rin[:, None, :] + imgs[None, :, :]
        dmin = np.sqrt((allimg ** 2).sum(axis=2)).min(axis=1)
        dout = np.sqrt((out ** 2).sum(axis=1))
        require(np.all(np.abs(dout - dmin) <= 1e-9 * (1 + dmin)),
                lambda: f"not the shortest image: |out|={dout.tolist()} min={dmin.tolist()}")
    # (7) a single vector of shape (d,) gives the same values
    if case["single"]:
        o1 = np.asarray(remove_pbc(Rin[0].copy(), H.copy(), ppp.copy()))
        require(o1.size == d, f"(d,) input returned {o1.shape}")
        close("(d,) input", o1.reshape(-1), out[0], rtol=1e-12, atol=1e-12 * np.abs(H).max() * scale)
    # inputs untouched
    require(np.array_equal(H, Hin), "hmatrix modified")

    nshift = np.round(fi - fo)
    moved = np.any(nshift[:, ppp == 1] != 0)
    nontrivial = bool(moved and (case["cell"]["kind"] != "ortho" or not ppp.all() or np.abs(nshift).max() >= 2))
    tags = [f"d{d}", case["cell"]["kind"], "mask-partial" if not ppp.all() else "mask-full",
            "tie" if tie.any() else "no-tie", "single" if case["single"] else "batch",
            f"maxshift{int(min(np.abs(nshift).max(), 4))}"]
    return {"nontrivial": nontrivial, "tags": tags}


def describe(case):
    return {"H": np.round(case["cell"]["H"], 4).tolist(), "f": np.round(case["f"], 4).tolist()[:3],
            "ppp": case["ppp"].tolist(), "kind": case["cell"]["kind"]}


FACETS = [
    Facet("generic", case_st(False), check, quick=3000, thorough=300000, describe=describe, shards_quick=4,
          rule="random cells/vectors/masks; non-trivial as in RULE"),
    Facet("ties", case_st(True), check, quick=500, thorough=30000, describe=describe,
          rule="dyadic orthogonal boxes with fractional coordinates exactly k/2; non-trivial as in RULE"),
]
