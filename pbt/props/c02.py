"""C02 — minimum-image displacements: lattice translations only, into the half-cell."""
from __future__ import annotations

import itertools

import numpy as np
from hypothesis import strategies as st
from hypothesis.extra import numpy as hnp

from ..gen import cell_st, fl, nice_float
from hypothesis.stateful import invariant, precondition, rule

from ..harness import Facet, RecordingMachine, Violation
from ..ref import geom
from ..util import arr, close, require

from PyMatterSim.utils.pbc import remove_pbc

RULE = ("generated cells (ortho / LAMMPS lower-triangular / general well-conditioned) x displacement sets given as "
        "fractional coordinates f in [-4,4]^d x all periodicity masks x integer lattice shifts; non-trivial = some "
        "vector needs a non-zero lattice shift on a periodic axis and (cell non-orthogonal or mask partial or |n|>=2)")
ASSUMPTIONS = ["cell matrices have condition number <= ~50 (well-conditioned), so fractional coordinates are "
               "recoverable to 1e-9", "half-cell ties are only asserted modulo one lattice vector"]

EPS = 1e-9


@st.composite
def general_cell(draw, d):
    """Well-conditioned full matrix: rotation-free construction L + small off-diagonal in all entries."""
    L = np.array([draw(nice_float(1.0, 20.0)) for _ in range(d)])
    off = draw(hnp.arrays(np.float64, (d, d), elements=fl(-0.3, 0.3), fill=st.nothing()))
    H = np.diag(L) + off * L.min()
    np.fill_diagonal(H, L)
    # structured sub-classes of "any invertible cell matrix": a shape test that looks at one triangle only, at one
    # entry, or at orthogonality of the cell vectors must not change the contract
    shape = draw(st.sampled_from(["full", "full", "upper", "lower-permuted", "single-entry", "rotated-ortho"]))
    if shape == "upper":
        H = np.triu(H)
    elif shape == "lower-permuted":
        ax = list(draw(st.permutations(range(d))))
        H = np.tril(H)[ax][:, ax]
    elif shape == "single-entry":
        i, j = draw(st.sampled_from([(a, b) for a in range(d) for b in range(d) if a != b]))
        v = H[i, j] if abs(H[i, j]) > 0.05 * L.min() else 0.25 * L.min()
        H = np.diag(L)
        H[i, j] = v
    elif shape == "rotated-ortho":
        a = draw(fl(0.2, 1.3))
        R = np.eye(d)
        i, j = draw(st.sampled_from([(a_, b_) for a_ in range(d) for b_ in range(a_ + 1, d)]))
        R[i, i] = R[j, j] = np.cos(a)
        R[i, j], R[j, i] = -np.sin(a), np.sin(a)
        H = np.diag(L) @ R
    return {"d": d, "kind": "general", "H": H, "lo": np.zeros(d), "origin": "zero", "shape": shape}


@st.composite
def case_st(draw, tie=False):
    d = draw(st.sampled_from([2, 3]))
    ck = draw(st.sampled_from(["ortho", "tri", "general"]))
    cell = draw(general_cell(d)) if ck == "general" else draw(cell_st(d, ck, origin="zero"))
    if tie:
        # dyadic boxes, fractional coordinates exactly k + 1/2 on some axes
        H = np.diag([float(2 ** draw(st.integers(0, 4))) for _ in range(d)])
        cell = {"d": d, "kind": "ortho", "H": H, "lo": np.zeros(d), "origin": "zero"}
        n = draw(st.integers(1, 6))
        f = draw(hnp.arrays(np.float64, (n, d), elements=st.integers(-8, 8).map(lambda k: k / 2.0)))
    else:
        n = draw(st.integers(1, 8))
        # magnitude classes: displacements between particles of one box have |f| <= 1 (the usual callers), plus far images
        fmax = draw(st.sampled_from([0.55, 0.75, 1.0, 4.0]))
        el = st.one_of(st.integers(-64, 64).map(lambda k: k / 64.0 * fmax), fl(-fmax, fmax))
        f = draw(hnp.arrays(np.float64, (n, d), elements=el, fill=st.nothing()))
        # whole-batch classes (EXTENSION_3 class 4): a short-cut that inspects the batch as a whole (largest Cartesian
        # component below half the smallest perpendicular width -> "nothing to fold") is switched off by one long
        # member, so batches whose members ALL sit in the critical region are constructed, not hoped for: every vector
        # short in every Cartesian component but aimed at the oblique corner of a tilted cell, where a fractional
        # coordinate exceeds 1/2 (H=[[10,0],[5,10]], r=(4,-4): s_x=0.6).
        batch = draw(st.sampled_from(["mixed", "mixed", "corner-short", "corner-short", "all-inside"]))
        if batch == "corner-short" and ck != "ortho":
            Hinv = np.linalg.inv(cell["H"])
            w = 0.5 / np.sqrt((Hinv * Hinv).sum(axis=0)).max()      # half the smallest perpendicular width
            rows = []
            for _ in range(n):
                k = draw(st.integers(0, d - 1))
                sg = np.where(Hinv[:, k] >= 0, 1.0, -1.0) * draw(st.sampled_from([1.0, -1.0]))
                u = np.array([draw(st.sampled_from([0.999, 0.97, 0.9, 0.8])) for _ in range(d)])
                rows.append((w * sg * u) @ Hinv)
            f = np.array(rows)
        elif batch == "all-inside":
            f = f / (2.0 * fmax) * 0.98          # every |f| < 1/2: nothing to fold, the input must come back
    ppp = np.array(draw(st.sampled_from(list(itertools.product([0, 1], repeat=d)))), dtype=int)
    if draw(st.integers(0, 3)) > 0:
        ppp = np.ones(d, dtype=int) if draw(st.booleans()) else ppp
    shift = draw(hnp.arrays(np.int64, (n, d), elements=st.integers(-3, 3)))
    single = draw(st.booleans()) if n == 1 else False
    # argument representations a caller may use for the same values: a hand-built integer cell such as
    # np.diag([10, 10, 10]) (int64), integer displacement arrays, the mask as a list
    rep = draw(st.sampled_from(["float", "float", "float", "int-cell", "int-both", "mask-list"]))
    if rep in ("int-cell", "int-both") and not tie:
        Hi = np.rint(cell["H"] * (1.0 if np.abs(np.diag(cell["H"])).min() >= 2.0 else 4.0))
        if abs(np.linalg.det(Hi)) >= 0.5 * np.prod(np.abs(np.diag(Hi))) and np.all(np.diag(Hi) != 0):
            cell = dict(cell, H=Hi)
        else:
            rep = "float"
    return {"d": d, "cell": cell, "f": f, "ppp": ppp, "shift": shift, "single": single, "tie": tie, "rep": rep,
            "batch": "ties" if tie else batch}


def check(case):
    H = case["cell"]["H"]
    d = case["d"]
    ppp = case["ppp"]
    f = case["f"]
    R = f @ H
    rep = case.get("rep", "float")
    if rep == "int-both":
        R = np.rint(R)
    n = len(R)
    Hin, Rin = H.copy(), R.copy()

    def as_cell(M):      # same values, the representation drawn for this case
        return M.astype(np.int64) if rep in ("int-cell", "int-both") and np.all(M == np.rint(M)) else M.copy()

    def as_vec(V):
        return V.astype(np.int64) if rep == "int-both" and np.all(V == np.rint(V)) else V.copy()

    def as_mask(m):
        return [int(x) for x in m] if rep == "mask-list" else m.copy()

    _lib = remove_pbc

    def remove_pbc_rep(V, M, m):
        return _lib(as_vec(V), as_cell(M), as_mask(m))

    out = arr("remove_pbc", remove_pbc_rep(R, H, ppp), shape=(n, d)).astype(float)
    scale = np.abs(f).max() + 1.0
    tol = 1e-9 * scale

    fo = geom.frac_coords(out, H)
    fi = geom.frac_coords(Rin, H)
    # (1) lattice translations only, zero on non-periodic axes
    dn = fi - fo
    require(np.all(np.abs(dn - np.round(dn)) < tol),
            lambda: f"output differs from input by a non-integer lattice combination: {dn.tolist()}")
    require(np.all(np.abs(dn[:, ppp == 0]) < tol),
            lambda: f"non-periodic fractional components changed: {dn.tolist()} ppp={ppp.tolist()}")
    # (2) into the half cell
    require(np.all(np.abs(fo[:, ppp == 1]) <= 0.5 + tol),
            lambda: f"periodic fractional coordinates outside [-1/2,1/2]: {fo.tolist()} ppp={ppp.tolist()}")
    # (6) differential against the independent reference (away from ties)
    ref, tie = geom.min_image(Rin, H, ppp)
    ok = ~tie
    if ok.any():
        close("remove_pbc vs reference", out[ok], ref[ok], rtol=1e-9, atol=1e-9 * np.abs(H).max() * scale)
    # ties: equal modulo one lattice vector per tied axis
    if tie.any():
        dd = geom.frac_coords(out[tie] - ref[tie], H)
        require(np.all(np.abs(dd - np.round(dd)) < tol) and np.all(np.abs(dd) < 1 + tol),
                lambda: f"tie handling moved a vector by more than one lattice vector: {dd.tolist()}")
    # (3) invariance under lattice shifts of periodic axes
    Rs = Rin + (case["shift"] * ppp) @ H
    out_s = arr("remove_pbc(shifted)", remove_pbc_rep(Rs, H, ppp), shape=(n, d)).astype(float)
    near_half = (np.abs(np.abs(fi - np.round(fi)) - 0.5) < 1e-6) & (ppp == 1)
    okr = ~near_half.any(axis=1)
    if okr.any():
        close("shift invariance", out_s[okr], out[okr], rtol=1e-9, atol=1e-8 * np.abs(H).max() * scale)
    if (~okr).any():
        dd = geom.frac_coords(out_s[~okr] - out[~okr], H)
        require(np.all(np.abs(dd - np.round(dd)) < 10 * tol) and np.all(np.abs(dd) < 1 + 10 * tol),
                lambda: f"shifted tie differs by more than one lattice vector: {dd.tolist()}")
    # (4) idempotence (ties excluded: rint of +-0.5 +- ulp may flip)
    out2 = arr("remove_pbc twice", remove_pbc_rep(out, H, ppp), shape=(n, d)).astype(float)
    if ok.any():
        close("idempotence", out2[ok], out[ok], rtol=1e-9, atol=1e-9 * np.abs(H).max() * scale)
    # (5) orthogonal cells: shortest of all periodic images
    if case["cell"]["kind"] == "ortho":
        rng = [range(-6, 7) if p else [0] for p in ppp]
        imgs = np.array(list(itertools.product(*rng)), dtype=float) @ H
        allimg = Rin[:, None, :] + imgs[None, :, :]
        dmin = np.sqrt((allimg ** 2).sum(axis=2)).min(axis=1)
        dout = np.sqrt((out ** 2).sum(axis=1))
        require(np.all(np.abs(dout - dmin) <= 1e-9 * (1 + dmin)),
                lambda: f"not the shortest image: |out|={dout.tolist()} min={dmin.tolist()}")
    # (7) a single vector of shape (d,) gives the same values
    if case["single"]:
        o1 = np.asarray(remove_pbc(Rin[0].copy(), H.copy(), ppp.copy()))
        require(o1.size == d, f"(d,) input returned {o1.shape}")
        close("(d,) input", o1.reshape(-1), out[0], rtol=1e-12, atol=1e-12 * np.abs(H).max() * scale)
    # inputs untouched
    require(np.array_equal(H, Hin), "hmatrix modified")

    nshift = np.round(fi - fo)
    moved = np.any(nshift[:, ppp == 1] != 0)
    nontrivial = bool(moved and (case["cell"]["kind"] != "ortho" or not ppp.all() or np.abs(nshift).max() >= 2))
    tags = [f"d{d}", case["cell"]["kind"], "mask-partial" if not ppp.all() else "mask-full", "rep-" + rep,
            *(["general-" + case["cell"]["shape"]] if "shape" in case["cell"] else []),
            "all-|f|<=0.55" if np.abs(f).max() <= 0.55 else ("all-|f|<=1" if np.abs(f).max() <= 1 else "far-images"),
            "inside-cartesian-half-box" if np.all(np.abs(R) <= 0.5 * np.abs(np.diag(H))) else "outside-cartesian-half-box",
            "tie" if tie.any() else "no-tie", "single" if case["single"] else "batch",
            f"maxshift{int(min(np.abs(nshift).max(), 4))}", "batch-" + case.get("batch", "mixed")]
    Hinv_ = np.linalg.inv(H)
    wmin = 0.5 / np.sqrt((Hinv_ * Hinv_).sum(axis=0)).max()
    if np.abs(R).max() < wmin and np.any(np.abs(fi[:, ppp == 1]) > 0.5 + 1e-6):
        tags.append("whole-batch-short-but-beyond-half-cell")   # every member short, some member needs folding
    return {"nontrivial": nontrivial, "tags": tags}


def describe(case):
    return {"H": np.round(case["cell"]["H"], 4).tolist(), "f": np.round(case["f"], 4).tolist()[:3],
            "ppp": case["ppp"].tolist(), "kind": case["cell"]["kind"]}


# ----------------------------------------------------------------------------- histories


class CellStream(RecordingMachine):
    """History facet: one preallocated cell array is updated IN PLACE between calls (frame streaming, NPT / shear
    runs), interleaved with calls on other array objects.  Every call must be the minimum image for the cell contents
    at call time, whatever was computed before (no hidden state keyed on array identity / shape)."""

    def __init__(self):
        super().__init__()
        self.d = None
        self.buf = None
        self.last_update = None  # step index of the last in-place update
        self.calls_since_update = 0

    def _newcell(self, d, diag, off, kind):
        H = np.diag(np.array(diag[:d], dtype=float))
        if kind != "ortho":
            o = np.array(off, dtype=float).reshape(3, 3)[:d, :d] * H.diagonal().min()
            if kind == "tri":
                o = np.tril(o, -1)
            np.fill_diagonal(o, 0.0)
            H = H + o
        return H

    @precondition(lambda self: self.buf is None)
    @rule(d=st.sampled_from([2, 3]))
    def r_init(self, d):
        self.step("init", d=d)
        self.do_init(d=d)

    def do_init(self, d):
        self.d = d
        self.buf = np.diag(np.full(d, 5.0))

    @precondition(lambda self: self.buf is not None)
    @rule(diag=st.lists(st.integers(4, 80).map(lambda k: k / 4.0), min_size=3, max_size=3),
          off=st.lists(st.integers(-12, 12).map(lambda k: k / 40.0), min_size=9, max_size=9),
          kind=st.sampled_from(["ortho", "tri", "general"]), how=st.sampled_from(["assign", "scale"]))
    def r_update(self, diag, off, kind, how):
        self.step("update", diag=diag, off=off, kind=kind, how=how)
        self.do_update(diag=diag, off=off, kind=kind, how=how)

    def do_update(self, diag, off, kind, how):
        if how == "scale":
            self.buf *= diag[0] / 8.0  # e.g. an isotropic barostat step
        else:
            self.buf[...] = self._newcell(self.d, diag, off, kind)
        self.calls_since_update = 0
        self.tag("update-" + how)

    def _check(self, H, fr, ppp, same_object):
        d = self.d
        f = np.array(fr, dtype=float).reshape(-1, 3)[:, :d]
        ppp = np.array(ppp[:d], dtype=int)
        Hnow = np.array(H, dtype=float, copy=True)
        R = f @ Hnow
        out = arr("remove_pbc", remove_pbc(R.copy(), H if same_object else Hnow.copy(), ppp.copy()), shape=R.shape)
        require(np.array_equal(np.asarray(H), Hnow), "hmatrix modified by remove_pbc")
        ref, tie = geom.min_image(R, Hnow, ppp)
        ok = ~tie
        scale = np.abs(f).max() + 1.0
        if ok.any():
            close("remove_pbc vs reference for the current cell contents", out[ok], ref[ok], rtol=1e-9,
                  atol=1e-9 * np.abs(Hnow).max() * scale)
        fo = geom.frac_coords(out, Hnow)
        require(np.all(np.abs(fo[:, ppp == 1]) <= 0.5 + 1e-9 * scale),
                lambda: f"periodic fractional coordinates outside [-1/2,1/2] for the current cell: {fo.tolist()}")

    @precondition(lambda self: self.buf is not None)
    @rule(fr=st.lists(st.integers(-96, 96).map(lambda k: k / 64.0), min_size=3, max_size=12).filter(lambda x: len(x) % 3 == 0),
          ppp=st.lists(st.integers(0, 1), min_size=3, max_size=3))
    def r_call(self, fr, ppp):
        self.step("call", fr=fr, ppp=ppp)
        self.do_call(fr=fr, ppp=ppp)

    def do_call(self, fr, ppp):
        first_after_update = self.calls_since_update == 0 and any(n == "update" for n, _ in self.log[:-1])
        earlier_call = any(n == "call" for n, _ in self.log[:-1])
        self._check(self.buf, fr, ppp, same_object=True)
        self.calls_since_update += 1
        if first_after_update and earlier_call:
            self.info["nontrivial"] = True
            self.tag("call-right-after-inplace-update")
        self.tag("call-shared-buffer")

    @precondition(lambda self: self.buf is not None)
    @rule(fr=st.lists(st.integers(-96, 96).map(lambda k: k / 64.0), min_size=3, max_size=6).filter(lambda x: len(x) % 3 == 0),
          ppp=st.lists(st.integers(0, 1), min_size=3, max_size=3), diag=st.lists(st.integers(4, 80).map(lambda k: k / 4.0), min_size=3, max_size=3))
    def r_other(self, fr, ppp, diag):
        self.step("other", fr=fr, ppp=ppp, diag=diag)
        self.do_other(fr=fr, ppp=ppp, diag=diag)

    def do_other(self, fr, ppp, diag):
        self._check(np.diag(np.array(diag[:self.d], dtype=float)), fr, ppp, same_object=False)
        self.tag("call-other-array")


def describe_history(log):
    return [(n, {k: (v if not isinstance(v, list) or len(v) <= 9 else v[:9]) for k, v in kw.items()}) for n, kw in log[:8]]


FACETS = [
    Facet("generic", case_st(False), check, quick=3000, thorough=300000, describe=describe, shards_quick=4,
          rule="random cells/vectors/masks; non-trivial as in RULE"),
    Facet("ties", case_st(True), check, quick=500, thorough=30000, describe=describe,
          rule="dyadic orthogonal boxes with fractional coordinates exactly k/2; non-trivial as in RULE"),
    Facet("cell_stream", machine=CellStream, quick=300, thorough=20000, steps=10, describe=describe_history,
          rule="histories of calls sharing one cell array that is updated in place between calls, interleaved with calls "
               "on other arrays; non-trivial = a call on the shared array right after an in-place update that follows an "
               "earlier call"),
]
