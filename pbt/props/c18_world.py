"""C18 helper: the shared state of one history (a 'world'), its pristine byte copies, and the comparison helpers.

A world is a pure function of a handful of plain values (seed, d, N, T, K, origin, cell), so the same arguments rebuild
a bit-identical deep copy (used for the copy differential) and a replay needs only those values.  The bulk arrays come
from `numpy.random.default_rng` seeded with Hypothesis-drawn integers (DESIGN 1.3: allowed, merely shrinks poorly);
for purity checks the actual coordinates do not matter, the entry points / parameters / order of calls do.

Valid-input domain of the ORDINARY worlds (variant "plain"; by construction, cf. DESIGN 1.4 / 3):
  * type ids exactly 1..K (K 1..6; six species: more than gr / sq have partial columns for, 'only overall' branch), all
    present, identical in every frame; same N and box in every frame
  * no coincident particles (jittered sub-lattice, min distance >= 0.4 lattice spacing in frame 0)
  * box edges / origins are multiples of 1/8, so "centred" and "sumzero" boxes have bounds summing to exactly 0.0
  * synthetic neighbour / weight files in the library format (`id cn neighborlist`, 1-based ids), every particle has
    1..4 neighbours, never itself; weights positive
  * unit vectors for the nematic input; float (not int) parameter matrices; cut-offs below half the shortest edge

Unusual-but-accepted worlds (VARIANTS other than "plain"; "off-domain": purity is promised for ANY call, values are not):
  lab-gap     species labels 1..K-1, K+1   ({2} / {1,3} / {1,2,4} / ...: a dump of a sub-set of the species)
  lab-shift   species labels 2..K+1        ({2} / {2,3} / {2,3,4} / ...)
  lab-zero    species labels 0..K-1        ({0} / {0,1} / ...: 0-based type ids as HOOMD writes them)
  perm-types  the type array is permuted from frame to frame (swap Monte Carlo), composition fixed
  int32-types particle_type is int32 instead of the readers' int64
  noncontig   positions are non-contiguous views (every second column of a wider array) instead of C-contiguous arrays
  logtimes    frames at t0, t0+s, t0+3s, t0+7s, ... (logarithmic dumps: the non-linear branch of the time correlations)
  mixed-ppp   periodic along some axes only (ppp with at least one 0 and one 1: slab / wire geometries)
  dup-times   one time step occurs twice in a row (a restart writes its first frame again)
  back-times  the time step goes back once (runs concatenated after reset_timestep): the frames are NOT in time order
  sheared     (triclinic cells) the tilt xy grows from frame to frame, box lengths fixed: every frame has its own cell matrix
Degenerate worlds (DEGENERATE; the library legitimately RETURNS NaN / inf there, so repeat-equality and the file round trips
are exercised on non-finite values; an exception is a refusal as in the other unusual worlds):
  pinned      a subset of the particles (one of every species, >= 2) has bit-identical coordinates in all frames of the
              wrapped and of the unwrapped trajectory: msd == 0, alpha2 = 0/0 for a condition selecting only them
  revisit     a later frame is an exact copy of frame 0 ([f0,f0] / [f0,f1,f0] / [f0,f0,f1]): msd == 0 at some lag for ALL
              particles (log-style displacement from frame 0, and the lag-2 entry of the linear average)
  zerofield   (S2 smoothing widths 0.15 x the usual: g_i(r) == 0 in some bins, S2 = NaN;) the real scalar field is identically zero, the complex / vector / tensor fields are zero in frame 0 and for
              particle 0, time steps are logarithmic for 3 frames, particle 1 has NO neighbour in the synthetic lists
              (cn = 0: means over nothing): normalisations hit 0/0 and x/0
Every world carries the condition masks mask_pin (the pinned set, all frames), mask_mob (its complement) and mask_gap (the
ordinary mask with NO particle selected in one origin frame); in the non-degenerate worlds the "pinned set" moves like
all other particles and entries do not pass mask_gap.
In the label variants the per-species parameter tables have one row per LAMMPS type up to the largest label (KP rows),
which is what a user analysing a dump of a sub-set of species passes; dict arguments have every label as a key.
Sizes: T = 1 ... 8 frames (T = 1: a single configuration), any N >= 8.  Argument order: the dict arguments (masses,
diameters, radii) are inserted in ascending key order in one world in three only (else reversed / rotated), the column list
of the vector reader is descending in every second world -- any order is valid input and an in-place sort() is invisible on
sorted input; dicts and lists are compared INCLUDING their order.  `mask_int` is the ordinary selection as an integer
property (0 / 1..3) for routines that cast a condition with astype(bool).
"""
from __future__ import annotations

import os
import re

import numpy as np
import pandas as pd

from ..gen import snapshot_from
from ..harness import Violation

ORIGINS = ("zero", "centred", "sumzero", "arbitrary")
VARIANTS = ("plain", "lab-gap", "lab-shift", "lab-zero", "perm-types", "int32-types", "noncontig", "logtimes",
            "mixed-ppp", "dup-times", "back-times", "sheared", "pinned", "revisit", "zerofield")
DEGENERATE = ("pinned", "revisit", "zerofield")  # valid physics whose results legitimately contain NaN / inf


def labels_for(variant, K):
    """Species labels of a world, ascending."""
    if variant == "lab-gap":
        return list(range(1, K)) + [K + 1]
    if variant == "lab-shift":
        return list(range(2, K + 2))
    if variant == "lab-zero":
        return list(range(0, K))
    return list(range(1, K + 1))


# ============================================================================= comparison helpers


def freeze(a):
    a = np.asarray(a)
    return (a.dtype.str, tuple(a.shape), a.tobytes())


def _where_diff(a, b):
    try:
        bad = np.argwhere(~((a == b) | ((a != a) & (b != b))))
        if len(bad):
            ti = tuple(int(i) for i in bad[0])
            return f"{len(bad)}/{a.size} entries differ, first at {ti}: {a[ti]!r} vs {b[ti]!r}"
    except Exception:  # noqa: BLE001
        pass
    return "contents differ"


def same(a, b, path="result"):
    """None when a and b are identical (arrays: dtype, shape, array_equal with equal_nan; DataFrames: columns, index,
    values; containers recursively), else a message."""
    if isinstance(a, pd.DataFrame) or isinstance(b, pd.DataFrame):
        if not (isinstance(a, pd.DataFrame) and isinstance(b, pd.DataFrame)):
            return f"{path}: {type(a).__name__} vs {type(b).__name__}"
        ca, cb = [str(c) for c in a.columns], [str(c) for c in b.columns]
        if ca != cb:
            return f"{path}: columns {ca} vs {cb}"
        if a.shape != b.shape:
            return f"{path}: shape {a.shape} vs {b.shape}"
        if list(a.index) != list(b.index):
            return f"{path}: row index differs"
        for k, c in enumerate(ca):
            m = same(np.asarray(a.iloc[:, k].values), np.asarray(b.iloc[:, k].values), f"{path}[{c!r}]")
            if m:
                return m
        return None
    if isinstance(a, pd.Series) or isinstance(b, pd.Series):
        if not (isinstance(a, pd.Series) and isinstance(b, pd.Series)):
            return f"{path}: {type(a).__name__} vs {type(b).__name__}"
        return same(np.asarray(a.values), np.asarray(b.values), path)
    if isinstance(a, np.ndarray) or isinstance(b, np.ndarray):
        if not (isinstance(a, np.ndarray) and isinstance(b, np.ndarray)):
            return f"{path}: {type(a).__name__} vs {type(b).__name__}"
        if a.dtype != b.dtype:
            return f"{path}: dtype {a.dtype} vs {b.dtype}"
        if a.shape != b.shape:
            return f"{path}: shape {a.shape} vs {b.shape}"
        if a.dtype == object:
            for k, (x, y) in enumerate(zip(a.ravel().tolist(), b.ravel().tolist())):
                m = same(x, y, f"{path}.flat[{k}]")
                if m:
                    return m
            return None
        if a.tobytes() == b.tobytes():
            return None
        try:
            ok = np.array_equal(a, b, equal_nan=True)
        except TypeError:
            ok = np.array_equal(a, b)
        return None if ok else f"{path}: {_where_diff(a, b)}"
    if isinstance(a, dict) or isinstance(b, dict):
        if not (isinstance(a, dict) and isinstance(b, dict)):
            return f"{path}: {type(a).__name__} vs {type(b).__name__}"
        if list(a.keys()) != list(b.keys()):
            return f"{path}: keys {list(a.keys())} vs {list(b.keys())}"
        for k in a:
            m = same(a[k], b[k], f"{path}[{k!r}]")
            if m:
                return m
        return None
    if isinstance(a, (list, tuple)) or isinstance(b, (list, tuple)):
        if type(a) is not type(b):
            return f"{path}: {type(a).__name__} vs {type(b).__name__}"
        if len(a) != len(b):
            return f"{path}: length {len(a)} vs {len(b)}"
        for k, (x, y) in enumerate(zip(a, b)):
            m = same(x, y, f"{path}[{k}]")
            if m:
                return m
        return None
    if a is None or b is None:
        return None if (a is None and b is None) else f"{path}: {a!r} vs {b!r}"
    if isinstance(a, (str, bytes)) or isinstance(b, (str, bytes)):
        if a == b:
            return None
        if isinstance(a, str) and isinstance(b, str):
            la, lb = a.splitlines(), b.splitlines()
            for k, (x, y) in enumerate(zip(la, lb)):
                if x != y:
                    return f"{path}: text differs at line {k}: {x[:120]!r} vs {y[:120]!r}"
            return f"{path}: text length {len(la)} vs {len(lb)} lines"
        return f"{path}: {a!r:.80} vs {b!r:.80}"
    if isinstance(a, (bool, int, float, complex, np.generic)) and isinstance(b, (bool, int, float, complex, np.generic)):
        xa, xb = np.asarray(a), np.asarray(b)
        if xa.dtype != xb.dtype:
            return f"{path}: scalar type {xa.dtype} vs {xb.dtype}"
        if xa.tobytes() == xb.tobytes() or bool(np.array_equal(xa, xb, equal_nan=xa.dtype.kind in "fc")):
            return None
        return f"{path}: {a!r} vs {b!r}"
    try:
        ok = bool(a == b)
    except Exception:  # noqa: BLE001
        ok = False
    return None if ok else f"{path}: {a!r:.80} vs {b!r:.80}"


def detach(x):
    """Deep, detached copy of a result structure (arrays / DataFrames copied, containers rebuilt): what the caller saw
    when the call returned."""
    if isinstance(x, (pd.DataFrame, pd.Series)):
        return x.copy(deep=True)
    if isinstance(x, np.ndarray):
        if x.dtype == object:
            out = np.empty(x.shape, dtype=object)
            out.ravel()[:] = [detach(v) for v in x.ravel().tolist()]
            return out
        return np.array(x, copy=True)
    if isinstance(x, dict):
        return {k: detach(v) for k, v in x.items()}
    if isinstance(x, (list, tuple)):
        return type(x)(detach(v) for v in x)
    return x


def fingerprint(x):
    """Cheap exact fingerprint of a result structure (bytes of every array / DataFrame leaf): equal fingerprints <=> nothing
    changed; on a mismatch `same` decides (and words the message)."""
    if isinstance(x, np.ndarray):
        if x.dtype == object:
            return ("o", tuple(fingerprint(v) for v in x.ravel().tolist()))
        return (x.dtype.str, x.shape, x.tobytes())
    if isinstance(x, pd.DataFrame):
        v = x.to_numpy()
        return ("df", tuple(str(c) for c in x.columns), fingerprint(v) if v.dtype != object else repr(x.values.tolist()))
    if isinstance(x, pd.Series):
        return ("s", fingerprint(x.to_numpy()))
    if isinstance(x, dict):
        return ("d", tuple((repr(k), fingerprint(v)) for k, v in x.items()))
    if isinstance(x, (list, tuple)):
        return (type(x).__name__, tuple(fingerprint(v) for v in x))
    return repr(x)


def has_arrays(x):
    if isinstance(x, (pd.DataFrame, pd.Series, np.ndarray)):
        return True
    if isinstance(x, dict):
        return any(has_arrays(v) for v in x.values())
    if isinstance(x, (list, tuple)):
        return any(has_arrays(v) for v in x)
    return False


_NUM = re.compile(r"^[+-]?(\d+)(\.(\d*))?([eE]([+-]?\d+))?$|^[+-]?(\.(\d+))([eE]([+-]?\d+))?$")


def token(tok):
    """(value, tolerance) of one number as written in a text file.  The tolerance is half a unit of the last written
    digit ('to the written precision'); an integer token (no point, no exponent) is exact for integral values and
    may be a truncation ('%d' of a float) otherwise; empty / nan tokens are NaN."""
    t = tok.strip()
    if t == "" or t.lower().lstrip("+-") == "nan":
        return float("nan"), 0.0
    if t.lower().lstrip("+-") in ("inf", "infinity"):
        return float(t), 0.0
    m = _NUM.match(t)
    if not m:
        raise Violation(f"non-numeric token {tok!r} in an output table")
    v = float(t)
    if m.group(1) is not None:
        point, dec, exp = m.group(2) is not None, m.group(3) or "", m.group(5)
    else:
        point, dec, exp = True, m.group(7), m.group(9)
    if not point and exp is None:
        return v, -1.0  # integer token
    return v, 0.5 * 10.0 ** (int(exp or 0) - len(dec))


def table_check(what, path, want, sep=None, skip=0, columns=None):
    """Invariant 3 for a text table: same shape as the returned values, same NaN/inf pattern, every entry within the
    precision it was written with (derived from the token itself, not from a format string of the current source)."""
    with open(need_file(path, what), "r", encoding="utf-8") as f:
        lines = f.read().splitlines()
    if columns is not None:
        hdr = [h.strip() for h in (lines[0].split(sep) if lines else [])]
        if hdr != [str(c) for c in columns]:
            raise Violation(f"{what}: file header {hdr} != returned columns {[str(c) for c in columns]}")
    rows = [ln.split(sep) for ln in lines[skip:] if ln.strip() != ""]
    w = np.asarray(want)
    if w.ndim == 1:
        w = w[:, None]
    if w.dtype.kind not in "fiub":
        try:
            w = w.astype(float)
        except (TypeError, ValueError) as e:
            raise Violation(f"{what}: returned table is not real-valued ({e})")
    if len(rows) != w.shape[0] or any(len(r) != w.shape[1] for r in rows):
        raise Violation(f"{what}: file {os.path.basename(path)!r} holds {len(rows)} rows of widths "
                        f"{sorted({len(r) for r in rows})[:3]}, the returned values have shape {w.shape}")
    name = os.path.basename(path)
    for i, r in enumerate(rows):
        for j, tok in enumerate(r):
            v, tol = token(tok)
            x = float(w[i, j])
            if v != v or x != x:
                if not (v != v and x != x):
                    raise Violation(f"{what}: {name} row {i} col {j}: file {tok!r} vs returned {x!r} (NaN mismatch)")
                continue
            if np.isinf(v) or np.isinf(x):
                if v != x:
                    raise Violation(f"{what}: {name} row {i} col {j}: file {tok!r} vs returned {x!r}")
                continue
            if tol < 0:
                ok = (v == x) if x == np.floor(x) else abs(v - x) < 1.0
                lim = "integer token"
            else:
                lim = tol * (1 + 1e-9) + 4e-16 * abs(x)
                ok = abs(v - x) <= lim
            if not ok:
                raise Violation(f"{what}: the file does not hold the returned values to the written precision: {name} row {i} "
                                f"col {j}: written {tok!r}, returned {x!r} (|diff| {abs(v - x):.3e}, allowed {lim})")


def file_exact(name, got, want):
    m = same(np.asarray(got), np.asarray(want), name)
    if m:
        raise Violation(f"{m} -- the saved file does not hold the returned values exactly")


def need_file(path, what):
    if not os.path.exists(path):
        raise Violation(f"{what}: requested output file {os.path.basename(path)!r} was not written")
    return path


# ============================================================================= the world


class World:
    """Everything the analyses of one history share."""

    def __init__(self, seed, d, N, T, K, origin, cell, root, like=None, variant="plain"):
        """`like`: another world of the same (d, N, T, K, origin, cell) whose time steps are taken over, so that the new
        world can be written INTO the array objects of `like` (mutate_to) -- time steps are plain ints of a frozen
        dataclass and cannot be overwritten in place."""
        self.kw = dict(seed=seed, d=d, N=N, T=T, K=K, origin=origin, cell=cell, variant=variant)
        self.d, self.N, self.T, self.K, self.origin, self.cellkind = d, N, T, K, origin, cell
        if variant not in VARIANTS:
            raise ValueError(f"harness: unknown world variant {variant!r}")
        self.variant = variant
        self.tolerant = variant != "plain"  # off-domain: a refusal (exception) of the library is not a violation
        self.degenerate = variant in DEGENERATE
        self.labels = labels_for(variant, K)
        KP = self.KP = max(K, max(self.labels))  # rows of the per-species parameter tables
        self.root = root
        os.makedirs(root, exist_ok=True)
        rng = np.random.default_rng([int(seed), d, N, T, K, ORIGINS.index(origin), int(cell == "tri")])

        # ---- cell (all numbers multiples of 1/8 -> exact sums)
        base = N ** (1.0 / d)
        L = np.round(8.0 * base * rng.choice([1.0, 1.125, 1.25], size=d)) / 8.0
        H = np.diag(L)
        if cell == "tri":
            H[1, 0] = L[0] * rng.choice([-0.25, 0.25, 0.375])
            if d == 3:
                H[2, 0] = L[0] * rng.choice([-0.25, 0.0, 0.25])
                H[2, 1] = L[1] * rng.choice([-0.375, 0.25])
        if origin == "zero":
            lo = np.zeros(d)
        elif origin == "centred":
            lo = -L / 2.0
        elif origin == "sumzero":
            lo = rng.integers(-32, 33, size=d) / 8.0
            lo[-1] = -(np.sum(2.0 * lo[:-1] + L[:-1]) + L[-1]) / 2.0
            if np.all(lo == -L / 2.0):
                lo[0] += 0.5
                lo[-1] -= 0.5
        else:
            lo = rng.integers(-48, 49, size=d) / 8.0
            if np.sum(2.0 * lo + L) == 0.0:
                lo[0] += 0.125
        self.L, self.H, self.lo = L, H, lo
        self.Lmin = float(L.min())
        cellrec = {"d": d, "kind": cell, "H": H, "lo": lo, "origin": origin}

        # ---- trajectory: jittered sub-lattice + small random displacements (unwrapped), and its wrapped twin
        m = int(np.ceil(N ** (1.0 / d) - 1e-9))
        cells = np.array(np.unravel_index(rng.permutation(m ** d)[:N], (m,) * d)).T.astype(float)
        f0 = (cells + 0.5 + rng.uniform(-0.3, 0.3, size=(N, d))) / m
        xu = [lo + f0 @ H]
        for _ in range(T - 1):
            xu.append(xu[-1] + rng.normal(0.0, 0.12, size=(N, d)))
        t = list(range(1, K + 1)) + list(rng.integers(1, K + 1, size=N - K))
        types = np.array(t, dtype=int)[rng.permutation(N)]
        # the "pinned set": one particle of every species, at least 2, about a quarter of the system
        rp = np.random.default_rng([int(seed), 909, N, K])
        pin = [int(rp.choice(np.flatnonzero(types == k))) for k in range(1, K + 1)]
        rest = [int(i) for i in rp.permutation(N) if i not in pin]
        pin += rest[:max(0, max(2, N // 4) - len(pin))]
        self.pin = np.array(sorted(pin))
        if variant == "pinned":
            for k in range(1, T):
                xu[k][self.pin] = xu[0][self.pin]
        if variant == "revisit":
            if T <= 3:
                pattern = {1: [[0]], 2: [[0, 0]], 3: [[0, 1, 0], [0, 0, 1]]}[T]
                pattern = pattern[int(seed) % len(pattern)]
            else:  # frame j (1 <= j < T) is an exact copy of frame 0
                pattern = list(range(T))
                pattern[1 + int(seed) % (T - 1)] = 0
            xu = [xu[i].copy() for i in pattern]
        # per-frame cell matrix: the same in all frames unless the trajectory is sheared (tilt grows by L_x / 8 per frame)
        Hs = [H.copy() for _ in range(T)]
        if variant == "sheared" and cell == "tri":
            for k in range(T):
                Hs[k][1, 0] += 0.125 * k * L[0]
        xw = []
        for p, Hk in zip(xu, Hs):
            f = (p - lo) @ np.linalg.inv(Hk)
            xw.append(lo + (f - np.floor(f)) @ Hk)
        types = np.array(self.labels, dtype=int)[types - 1]  # canonical 1..K -> the labels of this world
        t0 = int(rng.integers(0, 5000))
        self.step = int(rng.choice([50, 100, 1000]))
        if like is not None:
            t0, self.step = like.t0, like.step
        self.t0 = t0
        tseed = int(like.kw["seed"]) if like is not None else int(seed)  # time steps are plain ints: taken over from `like`
        mult = [0, 1, 3, 7, 15, 31, 63, 127] if variant in ("logtimes", "zerofield") else list(range(T))
        if variant == "dup-times":  # the same time step twice (a restart writes its first frame again)
            j = tseed % max(1, T - 1)
            mult = list(range(j + 1)) + list(range(j, T - 1))
        if variant == "back-times":  # the time step goes back (runs concatenated after reset_timestep): frames NOT in time order
            j = 1 + tseed % max(1, T - 1)
            mult = (list(range(T)) * 2)[j:j + T]
        self.timesteps = [t0 + mult[k] * self.step for k in range(T)]
        self.dt = 0.002
        # per-frame type arrays: identical unless the variant permutes them (composition fixed)
        frame_types = [types]
        for _ in range(T - 1):
            frame_types.append(types[np.random.default_rng([int(seed), 77, len(frame_types)]).permutation(N)]
                               if variant == "perm-types" else types)
        tdtype = np.int32 if variant == "int32-types" else int
        from PyMatterSim.reader.reader_utils import SingleSnapshot, Snapshots

        def mk(frames):
            sn = []
            for p, ts, ty, Hk in zip(frames, self.timesteps, frame_types, Hs):
                one = snapshot_from(dict(cellrec, H=Hk), p, ty, ts)
                if variant in ("int32-types", "noncontig"):
                    pos = one.positions
                    if variant == "noncontig":
                        wide = np.zeros((N, 2 * pos.shape[1]))
                        wide[:, 1::2] = -1.0
                        pos = wide[:, ::2]
                        pos[...] = one.positions
                    one = SingleSnapshot(timestep=one.timestep, nparticle=one.nparticle,
                                         particle_type=np.array(one.particle_type, dtype=tdtype), positions=pos,
                                         boxlength=one.boxlength, boxbounds=one.boxbounds, realbounds=one.realbounds,
                                         hmatrix=one.hmatrix)
                sn.append(one)
            return Snapshots(nsnapshots=len(sn), snapshots=sn)

        self.snaps = {"x": mk(xw), "xu": mk(xu)}
        if d == 2:
            ang = rng.uniform(-np.pi, np.pi, size=(T, N))
            self.snaps["orient"] = mk([np.stack([np.cos(a), np.sin(a)], axis=1) for a in ang])

        # ---- per-particle fields and parameter arrays (all passed to the library as they are, never as copies)
        A = {}
        A["ppp"] = np.ones(d, dtype=int)
        if variant == "mixed-ppp":  # slab / wire geometries: periodic along some axes only (at least one of each kind)
            A["ppp"][int(seed) % d] = 0
            if d == 3 and (int(seed) // 3) % 2:
                A["ppp"][(int(seed) + 1) % d] = 0
        A["ppp0"] = np.zeros(d, dtype=int)
        A["scalar"] = rng.normal(0.5, 1.0, size=(T, N))
        A["cplx"] = rng.normal(size=(T, N)) + 1j * rng.normal(size=(T, N))
        A["vec"] = rng.normal(size=(T, N, d))
        A["tens"] = rng.normal(size=(T, N, d, d))
        mask = rng.random((T, N)) < 0.6
        for k in range(T):
            mask[k, rng.permutation(N)[:3]] = True
        A["mask"] = mask
        A["mask_pin"] = np.zeros((T, N), dtype=bool)
        A["mask_pin"][:, self.pin] = True
        A["mask_mob"] = ~A["mask_pin"]
        A["mask_gap"] = mask.copy()
        self.gapframe = int(seed) % max(1, T - 1)  # an ORIGIN frame of the displacement averages
        A["mask_gap"][self.gapframe] = False
        # the same selection as an integer property (0 = not selected, 1..3 = selected): for routines that cast with astype(bool)
        A["mask_int"] = mask.astype(np.int64) * (1 + np.arange(N) % 3)[None, :]
        if variant == "zerofield":
            A["scalar"][...] = 0.0
            for k in ("cplx", "vec", "tens"):
                A[k][0] = 0
                A[k][:, 0] = 0
        qv = rng.integers(-2, 3, size=(7, d))
        qv[0] = 0
        qv[0, 0] = 1
        qv[1] = 0
        qv[1, -1] = -1
        for k in range(len(qv)):
            if not qv[k].any():
                qv[k, k % d] = 2
        qv[6] = qv[2][::-1] if d == 2 else np.roll(qv[2], 1)  # same |n| as row 2 (shared |q| for cubic boxes)
        A["qvec"] = qv.astype(np.int32)
        A["ngrids"] = np.array([3, 4] if d == 2 else [3, 2, 4], dtype=int)
        A["rcut_mat"] = self.Lmin * rng.uniform(0.3, 0.45, size=(KP, KP))
        A["s2sig"] = rng.uniform(0.1, 0.3, size=(KP, KP))
        if variant == "zerofield":
            A["s2sig"] *= 0.15  # narrow Gaussians: g_i(r) underflows to exactly 0 in some bins, S2 = 0 * log 0 = NaN
        diam = 0.9 + 0.2 * np.arange(KP)  # no table entry equal to 1.0: "normalise by the smallest" must not be the identity
        # insertion order of the dict arguments and order of the column list: any order is valid input; ascending in one
        # world in three only (a sort()/sorted() side effect is invisible on sorted input).  A mutate-and-restore partner
        # (`like`) takes the order over: these arguments are not arrays and keep their identity AND contents.
        oseed = int(like.kw["seed"]) if like is not None else int(seed)
        keys = list(range(1, KP + 1)) + ([0] if 0 in self.labels else [])
        if oseed % 3 == 1:
            keys = keys[::-1]
        elif oseed % 3 == 2:
            keys = keys[1:] + keys[:1]
        self.key_order = "ascending" if keys == sorted(keys) else "unsorted"
        self.diameters = {k: (float(diam[k - 1]) if k else 0.9) for k in keys}
        self.masses = {k: (0.8 + 0.5 * (k - 1) if k else 0.8) for k in keys}
        self.radii = {k: (0.4 + 0.1 * (k - 1) if k else 0.35) for k in keys}
        A["pcsig"] = (diam[:, None] + diam[None, :]) / 2.0
        e = rng.uniform(0.5, 1.5, size=(KP, KP))
        A["heps"] = (e + e.T) / 2.0
        s = rng.uniform(0.9, 1.1, size=(KP, KP))
        A["hsig"] = (s + s.T) / 2.0
        A["hrc"] = np.minimum(2.0 * A["hsig"], 0.45 * self.Lmin)
        A["hsig_hz"] = np.minimum(A["hsig"], 0.45 * self.Lmin)
        A["hrc_hz"] = A["hsig_hz"].copy()
        M = 5
        A["eigfreq"] = rng.uniform(0.5, 3.0, size=M)
        A["eigvec"] = rng.normal(size=(N * d, M))
        A["filC"] = np.exp(-np.arange(10) * 0.3) * np.cos(np.arange(10) * 0.7)
        A["filT"] = np.arange(10) * 0.01
        A["grpos"] = rng.uniform(0.2, 2.0, size=12)
        A["grbins"] = (np.arange(12) + 0.5) * 0.05
        self.A = A
        # inputs of the small utilities (own generator: the main stream above stays what it was)
        r2 = np.random.default_rng([int(seed), 4242, d, N])
        A["filC_odd"] = np.exp(-np.arange(9) * 0.25) * np.cos(np.arange(9) * 0.5)
        A["filT_odd"] = np.arange(9) * 0.01
        A["fitx"] = np.linspace(0.5, 3.0, 12)
        A["fity"] = 2.0 * np.exp(-0.7 * A["fitx"]) + 0.01 * r2.normal(size=12)
        A["moi"] = r2.normal(size=(N, 3))
        A["square"] = np.array([[0.0, 0.0], [1.0, 0.0], [1.0, 1.0], [0.0, 1.0]]) + r2.uniform(-0.05, 0.05, size=(4, 2))
        A["inside"] = np.array([0.5, 0.5]) + r2.uniform(-0.2, 0.2, size=2)
        A["direction"] = r2.normal(size=2)
        A["dist"] = r2.uniform(0.0, 3.0, size=9)
        A["rji"] = r2.normal(size=d)
        self.angles = [(float(a), float(b)) for a, b in zip(r2.uniform(0.05, 3.0, size=3), r2.uniform(-3.0, 3.0, size=3))]
        self.dudrs = [float(x) for x in r2.normal(size=3)]

        # ---- synthetic neighbour / weight files (own writer)
        nb_frames = []
        nl, wl = [], []
        for _ in range(T):
            rows = []
            nl.append("id cn neighborlist\n")
            wl.append("id cn weightlist\n")
            for i in range(N):
                cn = int(rng.integers(1, min(4, N - 1) + 1))
                others = np.array([j for j in range(N) if j != i])
                nei = rng.permutation(others)[:cn]
                wts = rng.uniform(0.1, 2.0, size=cn)
                if variant == "zerofield" and i == 1:  # an isolated particle: no neighbour at all (means over nothing)
                    nei, wts, cn = nei[:0], wts[:0], 0
                rows.append(nei)
                nl.append(f"{i + 1} {cn} " + " ".join(str(int(j) + 1) for j in nei) + "\n")
                wl.append(f"{i + 1} {cn} " + " ".join(f"{x:.6f}" for x in wts) + "\n")
            nb_frames.append(rows)
        self.files = {"neigh": os.path.join(root, "in_neighbors.dat"), "weights": os.path.join(root, "in_weights.dat"),
                      "voroindex": os.path.join(root, "in_voroindex.dat")}
        with open(self.files["neigh"], "w", encoding="utf-8") as f:
            f.write("".join(nl))
        with open(self.files["weights"], "w", encoding="utf-8") as f:
            f.write("".join(wl))
        # synthetic Voronoi-index table in the format cal_voro writes: id followed by the face counts <n0 n1 ... n7>
        r3 = np.random.default_rng([int(seed), 555, N, T])
        with open(self.files["voroindex"], "w", encoding="utf-8") as f:
            f.write("id   voro_index   0_to_7_faces\n")
            for k in range(T * N):
                f.write(f"{k % N + 1} 0 0 0 " + " ".join(str(int(x)) for x in r3.integers(0, 4, size=4)) + " 0\n")
        # a LAMMPS dump of the wrapped trajectory (own writer; orthogonal header, columns id type x.. vx.. order) and a log
        self.files["dump"] = os.path.join(root, "in_dump.atom")
        self.files["log"] = os.path.join(root, "in_log.lammps")
        hi = lo + L
        with open(self.files["dump"], "w", encoding="utf-8") as f:
            for k in range(T):
                f.write(f"ITEM: TIMESTEP\n{self.timesteps[k]}\nITEM: NUMBER OF ATOMS\n{N}\nITEM: BOX BOUNDS pp pp pp\n")
                for a in range(3):
                    f.write(f"{lo[a]:.6f} {hi[a]:.6f}\n" if a < d else "-0.500000 0.500000\n")
                f.write("ITEM: ATOMS id type " + " ".join("xyz"[:d]) + " " + " ".join("v" + c for c in "xyz"[:d]) + " order\n")
                for i in r3.permutation(N):
                    f.write(f"{i + 1} {int(frame_types[k][i])} " + " ".join(f"{x:.6f}" for x in xw[k][i]) + " "
                            + " ".join(f"{x:.6f}" for x in A["vec"][k, i]) + f" {A['scalar'][k, i]:.6f}\n")
        with open(self.files["log"], "w", encoding="utf-8") as f:
            f.write("LAMMPS (synthetic)\nunits lj\n")
            for sec in range(2):
                f.write("Per MPI rank memory allocation\nStep Temp PotEng Press\n")
                for k in range(3 + sec):
                    f.write(f"{k * 100} " + " ".join(f"{x:.5f}" for x in r3.normal(size=3)) + "\n")
                f.write("Loop time of 1.0 on 1 procs\n\n")
        self.moltypes = {int(self.labels[-1]): 1}
        if K >= 3:
            self.moltypes[int(self.labels[0])] = 2
        self.columnsids = [d + 3 + a for a in range(d)]
        if oseed % 2:
            self.columnsids.reverse()  # (vy, vx) is as valid a request as (vx, vy)
        cnl = np.zeros((N, 5), dtype=np.int32)
        for i, nei in enumerate(nb_frames[0]):
            cnl[i, 0] = len(nei)
            cnl[i, 1:1 + len(nei)] = nei
        A["cnlist"] = cnl

        # ---- which (cal_type, mode) combinations give a non-empty mobile subset in every origin frame (sq4 domain)
        self.sq4_ok = []
        a = 0.3
        cuts = np.square(np.array([self.diameters[int(tt)] for tt in types]) * a)
        for cal in ("slow", "fast"):
            good = True
            for n in range(T - 1):
                dr2 = np.square(xu[n + 1] - xu[n]).sum(axis=1)
                if np.any(np.abs(dr2 - cuts) <= 1e-9 * cuts):
                    good = False
                sel = dr2 < cuts if cal == "slow" else dr2 > cuts
                if sel.sum() < 1:
                    good = False
            if good:
                self.sq4_ok.append(cal)

        self.pristine = self._freeze_all()
        self.pristine_files = {k: open(p, "rb").read() for k, p in self.files.items()}
        self.pristine_dicts = {"masses": dict(self.masses), "diameters": dict(self.diameters), "radii": dict(self.radii),
                               "moltypes": dict(self.moltypes), "columnsids": list(self.columnsids),
                               "dudrs": list(self.dudrs), "angles": list(self.angles)}
        # Dynamics.sq4 with a condition: the selected AND mobile subset must be non-empty in every origin frame as well
        self.sq4_ok_cond = []
        for cal in self.sq4_ok:
            good = True
            for n in range(T - 1):
                dr2 = np.square(xu[n + 1] - xu[n]).sum(axis=1)
                sel = dr2 < cuts if cal == "slow" else dr2 > cuts
                if (sel & mask[n]).sum() < 1:
                    good = False
            if good:
                self.sq4_ok_cond.append(cal)

    # ------------------------------------------------------------------ same values in other objects / other values in the same objects
    def rebuild(self):
        """Replace every array reachable from the snapshots and every argument array by a freshly allocated, value-equal
        array (new SingleSnapshot / Snapshots objects as well)."""
        from PyMatterSim.reader.reader_utils import SingleSnapshot, Snapshots

        def cp(x):
            if x is None:
                return None
            if isinstance(x, np.ndarray) and x.ndim == 2 and not x.flags.c_contiguous and not x.flags.f_contiguous:
                wide = np.zeros((x.shape[0], 2 * x.shape[1]), dtype=x.dtype)  # keep the memory layout of the variant
                wide[:, 1::2] = -1
                view = wide[:, ::2]
                view[...] = x
                return view
            return np.array(x, copy=True)
        for name, snaps in list(self.snaps.items()):
            sn = [SingleSnapshot(timestep=s.timestep, nparticle=s.nparticle, particle_type=cp(s.particle_type),
                                 positions=cp(s.positions), boxlength=cp(s.boxlength), boxbounds=cp(s.boxbounds),
                                 realbounds=cp(s.realbounds), hmatrix=cp(s.hmatrix)) for s in snaps.snapshots]
            self.snaps[name] = Snapshots(nsnapshots=len(sn), snapshots=sn)
        self.A = {k: np.array(v, copy=True) for k, v in self.A.items()}
        self.masses = dict(self.masses)
        self.diameters = dict(self.diameters)
        self.radii = dict(self.radii)
        self.moltypes = dict(self.moltypes)
        self.columnsids = list(self.columnsids)
        self.dudrs = list(self.dudrs)
        self.angles = list(self.angles)

    _SCALARS = ("pristine", "pristine_files", "pristine_dicts", "L", "H", "lo", "Lmin", "sq4_ok", "sq4_ok_cond", "angles",
                "dudrs", "pin", "gapframe")

    def mutate_to(self, other):
        """Overwrite the contents of every array object (and input file) of this world IN PLACE with those of `other`
        (same structure); the objects stay the same.  `restore()` writes the original contents back."""
        self._saved = {k: getattr(self, k) for k in self._SCALARS}
        for (la, a), (lb, b) in zip(self._reachable(), other._reachable()):
            if la != lb:
                raise RuntimeError(f"harness: worlds differ in structure ({la} vs {lb})")
            if isinstance(a, np.ndarray):
                if not isinstance(b, np.ndarray) or a.shape != b.shape or a.dtype != b.dtype:
                    raise RuntimeError(f"harness: {la} differs in shape/dtype between the two worlds")
                a[...] = b
            elif a != b:
                raise RuntimeError(f"harness: non-array input {la} differs between the two worlds ({a!r} vs {b!r})")
        for k, p in self.files.items():
            with open(p, "wb") as f:
                f.write(other.pristine_files[k])
        for k in self._SCALARS:
            setattr(self, k, getattr(other, k))

    def restore(self):
        saved = self._saved
        for label, a in self._reachable():
            if isinstance(a, np.ndarray):
                dt, shape, raw = saved["pristine"][label]
                a[...] = np.frombuffer(raw, dtype=np.dtype(dt)).reshape(shape)
        for k, p in self.files.items():
            with open(p, "wb") as f:
                f.write(saved["pristine_files"][k])
        for k in self._SCALARS:
            setattr(self, k, saved[k])
        self._saved = None

    def restore_changed(self):
        """Write the pristine bytes back (in place) into every input array that no longer has them; returns their labels.
        Only used after the HARNESS overwrote returned arrays in place (a returned array may alias an input)."""
        changed = []
        for label, a in self._reachable():
            if isinstance(a, np.ndarray):
                dt, shape, raw = self.pristine[label]
                if a.dtype.str == dt and a.shape == shape and a.tobytes() != raw:
                    a[...] = np.frombuffer(raw, dtype=np.dtype(dt)).reshape(shape)
                    changed.append(label)
        return changed

    # ------------------------------------------------------------------ invariant 1
    FIELDS = ("particle_type", "positions", "boxlength", "boxbounds", "realbounds", "hmatrix")

    def _reachable(self):
        for sname, snaps in self.snaps.items():
            yield f"{sname}.nsnapshots", snaps.nsnapshots
            yield f"{sname}.len", len(snaps.snapshots)
            for n, sn in enumerate(snaps.snapshots):
                yield f"{sname}[{n}].timestep", sn.timestep
                yield f"{sname}[{n}].nparticle", sn.nparticle
                for fld in self.FIELDS:
                    yield f"{sname}[{n}].{fld}", getattr(sn, fld)
        for k, v in self.A.items():
            yield f"arg:{k}", v

    def _freeze_all(self):
        out = {}
        for label, v in self._reachable():
            out[label] = freeze(v) if isinstance(v, np.ndarray) else ("py", repr(v))
        return out

    def check_pure(self, after):
        """Invariant 1: every array reachable from the snapshots and every argument array has identical dtype, shape and
        bytes as before the first call; the input files and dict arguments are unchanged as well."""
        seen = set()
        for label, v in self._reachable():
            seen.add(label)
            want = self.pristine.get(label)
            if isinstance(v, np.ndarray):
                got = freeze(v)
                if want is None or want[0] == "py":
                    raise Violation(f"after {after}: input {label} became an array (was {want!r:.60})")
                if got[0] != want[0]:
                    raise Violation(f"after {after}: dtype of input {label} changed from {want[0]} to {got[0]}")
                if got[1] != want[1]:
                    raise Violation(f"after {after}: shape of input {label} changed from {want[1]} to {got[1]}")
                if got[2] != want[2]:
                    old = np.frombuffer(want[2], dtype=np.dtype(want[0])).reshape(want[1])
                    diff = old != v
                    if old.dtype.kind in "fc":
                        diff &= ~((old != old) & (v != v))
                    nbad = int(np.count_nonzero(diff))
                    ti = tuple(int(i) for i in np.argwhere(diff)[0]) if nbad else ()
                    detail = (f"{nbad}/{v.size} entries changed, first at {ti}: {old[ti]!r} -> {v[ti]!r}, max |change| "
                              f"{np.max(np.abs(np.asarray(v, dtype=complex) - old)):.3e}") if nbad else "bytes changed (sign of zero / NaN payload)"
                    raise Violation(f"after {after}: the call modified its input {label} in place: {detail}")
            else:
                if want != ("py", repr(v)):
                    raise Violation(f"after {after}: input {label} changed from {want!r:.80} to {v!r:.80}")
        missing = set(self.pristine) - seen
        if missing:
            raise Violation(f"after {after}: inputs disappeared: {sorted(missing)[:4]}")
        for k, p in self.files.items():
            if not os.path.exists(p):
                raise Violation(f"after {after}: input file {k} was removed")
            with open(p, "rb") as f:
                if f.read() != self.pristine_files[k]:
                    raise Violation(f"after {after}: input file {k} was modified")
        for name, want in self.pristine_dicts.items():
            got = getattr(self, name)
            if got != want or type(got) is not type(want) or (isinstance(want, dict) and list(got.items()) != list(want.items())):
                raise Violation(f"after {after}: the {type(want).__name__} argument {name!r} was modified: {want!r:.80} -> "
                                f"{getattr(self, name)!r:.80}")

    def cond(self, kind):
        """Condition mask [T, N] of one kind: 'mix' (ordinary), 'pin' (the pinned set), 'mob' (its complement), 'gap' (no
        particle selected in one origin frame; only passed in the degenerate worlds, 'mix' elsewhere)."""
        if kind == "gap" and not self.degenerate:
            kind = "mix"
        return self.A[{"mix": "mask", "pin": "mask_pin", "mob": "mask_mob", "gap": "mask_gap"}[kind]]

    def describe(self):
        return {"d": self.d, "N": self.N, "T": self.T, "K": self.K, "origin": self.origin, "cell": self.cellkind,
                "variant": self.variant, "labels": list(self.labels),
                "L": self.L.tolist(), "lo": self.lo.tolist()}
