"""C14 — time_correlation equals the origin-averaged (even spacing) / first-origin (uneven spacing) normalised
autocorrelation of a per-particle scalar, vector or tensor series, real or complex.

Oracle: pbt/ref/tcorr.py (einsum products written from the definition) and, in facet analytic_phase, the closed
form cos(phi (ts_k - ts_0)) for series a_i exp(i phi ts_k).

Facets
  even_spacing / uneven_spacing  random series, T 1..8, against the reference (all origins / first frame only)
  analytic_phase                 closed form, fixes the conjugation convention independently of the reference
  repeat_calls                   HISTORIES: 3..7 calls in one case that share state a memo could key on: the same
                                 condition array object refilled in place (buf[...] = B), the same Snapshots object whose
                                 frames are replaced in place (even schedule -> uneven -> back), alternation between
                                 inputs of one shape/dtype, the same arguments twice (bit-identical result), and every
                                 memory layout numpy hands to a caller (strided / reversed / Fortran-ordered /
                                 axis-swapped views, read-only arrays, float32 / complex64).  Every call must match the
                                 reference for the contents AT CALL TIME and leave the caller's array bit-identical.
  edge_sizes                     the smallest sizes for which the statement still defines a value (T = 1, 2, 3; N = 1;
                                 1-component vectors; 1x1 tensors), first timestep 0 / 2^31-1 / 1e9 / 5e9 / 1e12, dt from
                                 1e-15 to 1e6, series constant in time (C = 1 at every lag under both origin rules),
                                 purely imaginary series, real values stored as complex, one non-zero entry, values
                                 scaled by 1e+-30
  long_schedules                 T 5..40 with the schedules real trajectories have: powers of two, LAMMPS logarithmic
                                 blocks (first gaps equal, later ones not), logfreq(a,n,b), linear-then-log, even except
                                 the last / the first / one middle gap, two rates, alternating gaps, and even controls;
                                 (round 3) decaying-series: |A| falling by 10^-0.25 .. 10^-1 per frame, every lag accurate
                                 relative to the size of its own frame-pair products

  argument_forms (round 3)       the same numbers in the other representations callers hold them in: snapshot.timestep as
                                 Python int (LAMMPS readers) / np.int64 / np.uint64 (GSD reader) / np.int32, dt omitted /
                                 Python int / np.int64 / np.float64 / np.float32 / float; schedules of frames that only
                                 "all successive differences equal" classifies correctly: endpoint-consistent (uneven, but
                                 last - first = (T-1) x first gap and first gap = last gap), restart (a second run whose
                                 timesteps start again), duplicate-frame, checkpoint-rewind
  large_sizes (round 3)          sizes of real use: scalar / vector N 20..400, d 1..8, T up to 64 and 129..200; tensor N 8..48,
                                 d 1..5, T up to 32; values N(0, 9) / uniform [0, 1) (docs example) / 1 +- 1 % / multiples
                                 of 1/8, built from a drawn seed; Gram-matrix reference (one T x T matrix product)
  deep_sizes (thorough only)     scalar / vector N up to 3000, T up to 400; tensor N up to 150, T up to 48

CLAUSES (round 3 audit: clause / axis of the statement and quantifier -> facet, deciding assertion, populated class tags)
  1 "per-particle scalar, vector or tensor series"       every facet: _compare(c, want) at every lag, both directions;
       scalar / vector / tensor, d1..d4 (d-odd / d-even), tensor-general / -symmetric / -traceless-symmetric / -hermitian /
       -near-antisymmetric; (NEW) d5..d8 for vectors, d4, d5 for tensors, N7-31 .. N128-511 in large_sizes
       (WAS: N <= 6, d <= 4 / 3: size-gated paths -- 8-bit origin counts, blocks of 128 particles, a single-precision
       path for big inputs -- were out of reach)
  2 "(real or complex)"                                  real / complex; float32 / complex64 in repeat_calls;
       edge:purely-imaginary, edge:real-stored-as-complex.  Integer series are NOT generated: docs say "type should be
       float", and an integer scalar series with uneven spacing raises on the unchanged tree (reported, not asserted)
  3 "evenly spaced frames give, at lag k, the average over all origins"   even_spacing, long_schedules, large_sizes:
       reference with T-k origins per lag; T1..T40, (NEW) T41-128, T129-256; discriminates-origin-rule counts the cases
       whose expected table differs from the other rule's
  4 "real part of the particle-summed product of the value at the later time with the conjugate of the value at the
     earlier time"                                       reference (einsum / Gram matrix) + analytic_phase closed form
       cos(phi (ts_k - ts_0)); phi<0 / phi>0; tensors: trace of the matrix product (non-symmetric classes above)
  5 "divided by its lag-zero value"                      same comparison; C0>0 / C0<0, some-lag-above-1
  6 "unevenly spaced frames give the same with the first frame as the only origin"    uneven_spacing, long_schedules,
       argument_forms; pattern-* tags; (NEW) pattern-endpoint-consistent, pattern-restart, pattern-duplicate-frame,
       pattern-checkpoint-rewind, non-monotonic (WAS: strictly increasing schedules only)
  7 "The time axis is the frame time relative to the first frame times the time step"   _invoke: close(t, (ts-ts0)*dt)
       and (NEW) t[0] == 0 exactly; t0=0 / t0>0 / t0>=2^31-1 / crosses-2^31, dt-default / dt-given, edge:dt<=1e-9,
       edge:dt>=100, (NEW) dt-type-int / -int64 / -float32 / -float64, timestep-type-np.int64 / -np.uint64 / -np.int32,
       negative relative times (non-monotonic)
  8 "the value at lag zero is exactly one"               _invoke: c[0] == 1.0 (bit-exact), every call of every facet
  9 "all frame counts T >= 1"                            T1, T2 (edge:T=1, edge:T=2), T-odd / T-even
 10 "histories" (quantifier.over)                        repeat_calls (same-array-new-contents, same-snapshots-even<->uneven,
       same-arguments-twice, layouts)
 11 observe_at "DataFrame (t, time_corr)" + outputfile   columns, length T, real dtype, finite; csv-* / no-file:* tags
  Not asserted: which factor carries the conjugate (unobservable after taking the real part); float16 / longdouble
  series; condition given as a list (no .shape) or outputfile as a Path (annotation says str).

Preconditions imposed by construction:
  * condition is an ndarray of shape (T, N), (T, N, d) or (T, N, d, d) with T = number of snapshots and N = nparticle;
    dtype float64 / complex128 everywhere, float32 / complex64 only in repeat_calls (docs: "npt.NDArray ... type should
    be float"; the code comments add "or complex-number"; bool / int must be converted by the caller and lists have no
    .shape, so neither is generated)
  * timesteps are integers below 2^53, strictly increasing everywhere except in the argument_forms schedules restart /
    duplicate-frame / checkpoint-rewind (concatenated runs); "unevenly spaced" = at least two different successive
    differences (T >= 3), whatever their sign; np.uint64 timesteps only with non-decreasing schedules, np.int32 only
    while (max - min) x integer dt stays below 2^31
  * the lag-zero value C(0) is bounded away from zero: |C(0)| >= 0.05 * (sum of absolute values of its terms).
    For scalars and vectors C(0) = mean sum |A|^2 and one entry of frame 0 has modulus >= 0.5; general tensors whose
    tr(A.conj(A)) nearly cancels are replaced by their symmetric part (time_corr.py L101 divides by results[0]).
    A NEGATIVE lag-zero value is allowed (near-antisymmetric tensors): the statement divides by it whatever its sign.
  * outputfile is a str ("" = nothing written); None is not generated (annotation says str)
Tolerances (DESIGN 1.4):
  * float64 recomputation of sums of <= 54 products averaged over <= 40 origins: |dC_k| <= ~2e-14 * S_k with S_k the
    mean sum of absolute values; result = C_k / C_0, hence atol_k = 1e-13 (S_k + |C_k/C_0| S_0) / |C_0| plus rtol 1e-10.
    large_sizes / deep_sizes: n products per frame pair, T - k origins, in the library and in the reference: the factor
    1e-13 becomes max(1e-13, 2 (n + T + 6) eps) (first-order bound for any summation order).
  * float32 / complex64 input: the values are exactly representable in float64, so the reference value is that of the
    definition applied to the very numbers passed; the library may legitimately do the arithmetic in single precision
    (unit round-off u = 2^-24): n products + n-1 additions + averaging over T origins give <= (n + T + 6) u S_k;
    factor 2 (n + T + 6) 2^-24 instead of 1e-13 (n = number of products per frame pair <= 54).
  * time axis: one subtraction of integers and one multiplication: rtol 1e-12, plus 4 eps max|ts| dt so that the
    algebraically equal form ts*dt - ts0*dt stays quiet.
  * CSV: both columns agree with the returned table to half a unit of the 8th decimal (the file is written at %.8f).
  * every atol carries an absolute floor of 1e-200: generated doubles may be subnormal, and a product that underflows
    has an absolute, not a relative, error (5e-324 / |C(0)|).
  * "same arguments twice": bit-identical, but only when the very same objects are passed again (a copy at another
    address may legitimately take a different SIMD path).
"""
from __future__ import annotations

import os
import warnings

import numpy as np
from hypothesis import strategies as st
from hypothesis.extra import numpy as hnp

from .. import gen
from ..gen import fl, nice_float
from ..harness import Facet, Violation
from ..ref import tcorr
from ..util import arr, close, col, columns, require

from PyMatterSim.dynamic.time_corr import time_correlation

RULE = ("per-particle series of shape (T,N), (T,N,d), (T,N,d,d) (d 1..4 / 1..3), float64 or complex128, T 1..8, N 1..6, "
        "evenly spaced timesteps t0 + k*delta (T = 1, 2 count as even) or unevenly spaced ones (log, palindromic, "
        "one outlier, random), dt given or default; non-trivial = T >= 3 and the all-origins and the first-origin "
        "definitions differ by more than 1e-6 at some lag (the case tells the two apart). repeat_calls: histories of "
        "3..7 calls sharing array / Snapshots objects, all memory layouts, float32/complex64; non-trivial = two "
        "successive calls whose expected tables differ. edge_sizes: T 1..5, N 1..3, extreme t0 / dt, degenerate "
        "contents; non-trivial = at least two edge classes at once. long_schedules: T 5..40, realistic log / "
        "nearly-even schedules; non-trivial as for even/uneven_spacing. argument_forms: T 1..10, timesteps as Python / "
        "numpy (int64, uint64, int32) integers, dt as int / numpy scalars / omitted, endpoint-consistent and non-monotonic "
        "(restart, duplicate frame, checkpoint rewind) schedules. large_sizes: N 20..400 (tensor 8..48), T up to 200 (32), "
        "d up to 8 (5), seed-built values; deep_sizes (thorough): N up to 3000, T up to 400")
ASSUMPTIONS = [
    "condition is an ndarray of dtype float64 or complex128 (float32 / complex64 in repeat_calls only, compared at "
    "single-precision tolerance), shape (T, N[, d[, d]]) matching the snapshots; lists / ints / bools are not generated",
    "timesteps are integers (Python or numpy, signed or unsigned); evenly spaced = all successive differences equal; "
    "schedules that repeat or go back (concatenated runs) are unevenly spaced and their time axis may be negative",
    "dt is a positive number in any numeric representation (float, int, numpy scalar)",
    "lag-zero value bounded away from 0 by construction (|C(0)| >= 0.05 x absolute term sum); its sign is free",
    "tensor product = trace of the matrix product A(later) . conj(A(earlier)) (DESIGN C14)",
    "a call must not modify the caller's condition array: the property quantifies over histories, and a call that "
    "rewrites its input changes what the next call on the same array is given (checked bit-for-bit in repeat_calls)",
    "outputfile is a str; '' or omitted = no file is created in the working directory; an existing file is replaced",
]

HALF8 = 0.505e-8
TINY = 1e-200  # absolute floor: generated doubles may be subnormal, where products lose RELATIVE accuracy (underflow)


def _cell(d=2):
    return {"d": d, "kind": "ortho", "H": np.diag([10.0] * d), "lo": np.zeros(d), "origin": "zero"}


_TS_TYPES = {"np.int64": np.int64, "np.uint64": np.uint64, "np.int32": np.int32}


def _snapshots(ts, N, ts_repr="int"):
    """Frames carrying the timesteps `ts`.  ts_repr: the type of snapshot.timestep -- a Python int (LAMMPS readers:
    int(f.readline())) or a numpy integer scalar (the GSD reader stores frame.configuration.step as it comes)."""
    from PyMatterSim.reader.reader_utils import Snapshots

    cell = _cell()
    pos = np.zeros((N, 2))
    types = np.ones(N, dtype=int)
    snaps = [gen.snapshot_from(cell, pos, types, t) for t in ts]
    if ts_repr != "int":
        import dataclasses

        snaps = [dataclasses.replace(sn, timestep=_TS_TYPES[ts_repr](t)) for sn, t in zip(snaps, ts)]
    return Snapshots(nsnapshots=len(snaps), snapshots=snaps)


# ----------------------------------------------------------------------------- generators

_el = st.one_of(st.integers(-80, 80).map(lambda k: k / 8.0), fl(-10.0, 10.0))


@st.composite
def timesteps_st(draw, T, spacing):
    t0 = draw(st.one_of(st.just(0), st.integers(1, 10 ** 6)))
    if spacing == "even" or T <= 2:
        delta = draw(st.integers(1, 5000))
        return [t0 + k * delta for k in range(T)], "even"
    pat = draw(st.sampled_from(["log", "palindrome", "outlier", "random", "two-values"]))
    n = T - 1
    if pat == "log":
        base = draw(st.integers(1, 10))
        diffs = [base * 2 ** k for k in range(n)]
    elif pat == "palindrome":
        half = [draw(st.integers(1, 50)) for _ in range((n + 1) // 2)]
        diffs = half + half[: n // 2][::-1]
    elif pat == "outlier":
        delta = draw(st.integers(1, 1000))
        diffs = [delta] * n
        diffs[draw(st.integers(0, n - 1))] = delta + draw(st.sampled_from([-1, 1, 2, 7, 1000])) if delta > 1 else delta + 1
    elif pat == "two-values":
        a, b = draw(st.integers(1, 100)), draw(st.integers(1, 100))
        diffs = [a if draw(st.booleans()) else b for _ in range(n)]
    else:
        diffs = [draw(st.integers(1, 5000)) for _ in range(n)]
    diffs = [max(1, int(x)) for x in diffs]
    if len(set(diffs)) == 1:  # must be uneven
        diffs[-1] += 1
    ts = [t0]
    for x in diffs:
        ts.append(ts[-1] + x)
    return ts, pat


@st.composite
def series_case(draw, spacing):
    rank = draw(st.sampled_from(["scalar", "vector", "tensor"]))
    cplx = draw(st.booleans())
    T = draw(st.integers(1, 8)) if spacing == "even" else draw(st.integers(3, 8))
    N = draw(st.integers(1, 6))
    tkind = ""
    if rank == "scalar":
        shape = (T, N)
    elif rank == "vector":
        shape = (T, N, draw(st.integers(1, 4)))
    else:
        dd = draw(st.integers(1, 3))
        shape = (T, N, dd, dd)
        tkind = draw(st.sampled_from(["general", "general", "symmetric", "traceless-symmetric", "hermitian"]
                                     + (["near-antisymmetric"] if dd > 1 else [])))
    A = draw(hnp.arrays(np.float64, shape, elements=_el))
    if cplx:
        A = A + 1j * draw(hnp.arrays(np.float64, shape, elements=_el))
    if rank == "tensor":
        At = np.swapaxes(A, 2, 3)
        if tkind in ("symmetric", "traceless-symmetric"):
            A = (A + At) / 2.0
            if tkind == "traceless-symmetric":
                tr = np.trace(A, axis1=2, axis2=3)
                A = A - tr[:, :, None, None] * np.eye(shape[2])[None, None] / shape[2]
        elif tkind == "hermitian":
            A = (A + np.conj(At)) / 2.0
        elif tkind == "near-antisymmetric":  # tr(A.conj(A)) < 0: the normaliser is negative
            A = (A - At) / 2.0 + 0.05 * A * np.eye(shape[2])[None, None]
    # one entry of frame 0 bounded away from zero
    idx = (0, 0) + (0,) * (len(shape) - 2)
    if rank == "tensor" and shape[2] > 1 and tkind != "general":
        idx = (0, 0, 0, 1)
    if abs(A[idx]) < 0.5:
        A[idx] = draw(st.sampled_from([0.5, -1.0, 2.0, -3.5])) * ((1 + 1j) if cplx else 1.0)
        if rank == "tensor" and idx[2] != idx[3]:
            A[0, 0, 1, 0] = {"hermitian": np.conj(A[idx]), "near-antisymmetric": -A[idx]}.get(tkind, A[idx])
    ts, pat = draw(timesteps_st(T, spacing))
    even = tcorr.evenly_spaced(ts)
    C, S = tcorr.unnormalised(A, even)
    fixed = False
    if not abs(C[0]) >= 0.05 * S[0] or S[0] == 0.0:
        # ill-conditioned normaliser (only possible for general tensors): use the symmetric part
        A = (A + np.swapaxes(A, 2, 3)) / 2.0
        if not np.any(A[0]):
            A[0, 0] = np.eye(shape[2])
        fixed = True
    dt = draw(st.one_of(st.none(), nice_float(0.0005, 10.0)))
    return {"A": A, "ts": ts, "dt": dt, "rank": rank, "cplx": cplx, "tkind": tkind + ("-symmetrised" if fixed else ""),
            "pattern": pat, "outfile": draw(st.booleans())}


@st.composite
def phase_case(draw):
    rank = draw(st.sampled_from(["scalar", "vector", "tensor"]))
    spacing = draw(st.sampled_from(["even", "uneven"]))
    T = draw(st.integers(2, 8)) if spacing == "even" else draw(st.integers(3, 8))
    N = draw(st.integers(1, 5))
    t0 = draw(st.integers(0, 1000))
    n = T - 1
    if spacing == "even":
        diffs = [draw(st.integers(1, 40))] * n
    else:
        diffs = [draw(st.integers(1, 40)) for _ in range(n)]
        if len(set(diffs)) == 1:
            diffs[0] += 1
    ts = [t0]
    for x in diffs:
        ts.append(ts[-1] + x)
    if rank == "scalar":
        shape = (N,)
    elif rank == "vector":
        shape = (N, draw(st.integers(1, 3)))
    else:
        dd = draw(st.integers(2, 3))
        shape = (N, dd, dd)
    amp = draw(hnp.arrays(np.float64, shape, elements=_el)) + 1j * draw(hnp.arrays(np.float64, shape, elements=_el))
    if rank == "tensor":
        amp = (amp + np.swapaxes(amp, 1, 2)) / 2.0  # complex symmetric: tr(M conj M) = sum |M_jk|^2 is real, > 0
    first = (0,) * len(shape)
    if abs(amp[first]) < 0.5:
        amp[first] = 1.0 - 0.5j
    phi = draw(st.one_of(st.sampled_from([0.01, 0.1, 0.5]), fl(0.001, 0.5))) * draw(st.sampled_from([-1.0, 1.0]))
    return {"amp": amp, "ts": ts, "phi": phi, "rank": rank, "spacing": spacing,
            "dt": draw(nice_float(0.001, 2.0))}


# ----------------------------------------------------------------------------- generators of the extension

_grid = st.integers(-80, 80).map(lambda k: k / 8.0)  # exactly representable in float32


def _shape_for(rank, T, N, d):
    return {"scalar": (T, N), "vector": (T, N, d), "tensor": (T, N, d, d)}[rank]


@st.composite
def content_st(draw, rank, cplx, shape, grid=False, tkind="general"):
    """One series with a lag-zero value bounded away from zero under BOTH origin rules."""
    el = _grid if grid else _el
    A = draw(hnp.arrays(np.float64, shape, elements=el))
    if cplx:
        A = A + 1j * draw(hnp.arrays(np.float64, shape, elements=el))
    if rank == "tensor" and tkind == "symmetric":
        A = (A + np.swapaxes(A, 2, 3)) / 2.0
    idx = (0, 0) + (0,) * (len(shape) - 2)
    if abs(A[idx]) < 0.5:
        A[idx] = draw(st.sampled_from([0.5, -1.0, 2.0, -3.5])) * ((1 + 1j) if cplx else 1.0)
    if rank == "tensor" and not tcorr.well_conditioned(A):
        A = (A + np.swapaxes(A, 2, 3)) / 2.0  # symmetric: tr(A conj A) = sum |A_jk|^2
        if not np.any(A[0]):
            A[0, 0] = np.eye(shape[2])
    return A


def _cumulate(t0, diffs):
    ts = [int(t0)]
    for x in diffs:
        ts.append(ts[-1] + max(1, int(x)))
    return ts


_how = st.sampled_from(["buffer"] * 5 + ["fresh"] * 2 + ["strided", "reversed", "fortran", "swapped", "readonly"])


@st.composite
def repeat_case(draw):
    rank = draw(st.sampled_from(["scalar", "vector", "tensor"]))
    cplx = draw(st.booleans())
    T = draw(st.integers(1, 8))
    N = draw(st.integers(1, 5))
    d = draw(st.integers(1, 3))
    shape = _shape_for(rank, T, N, d)
    grid = draw(st.booleans())  # all values multiples of 1/8: single-precision copies are exact
    contents = [draw(content_st(rank, cplx, shape, grid)) for _ in range(draw(st.integers(2, 3)))]
    # schedules of one length: even, the same with one gap changed, an unrelated uneven one, another even one
    t0 = draw(st.sampled_from([0, 0, 1, 1000, 10 ** 6, 10 ** 9]))
    delta = draw(st.integers(1, 2000))
    n = T - 1
    scheds = [_cumulate(t0, [delta] * n)]
    if T >= 3:
        diffs = [delta] * n
        diffs[draw(st.sampled_from([n - 1, n - 1, 0, draw(st.integers(0, n - 1))]))] += draw(st.sampled_from([1, 1, delta, 1000]))
        scheds.append(_cumulate(t0, diffs))
        scheds.append(draw(timesteps_st(T, "uneven"))[0])
    scheds.append(_cumulate(draw(st.sampled_from([0, t0, 77])), [draw(st.integers(1, 2000))] * n))
    dts = [None, draw(nice_float(0.0005, 10.0))]
    steps = []
    for _ in range(draw(st.integers(3, 7))):
        steps.append({
            "content": draw(st.integers(0, len(contents) - 1)),
            "sched": draw(st.integers(0, len(scheds) - 1)),
            "how": draw(_how),
            "single": bool(grid and draw(st.integers(0, 3)) == 0),
            "axis": draw(st.integers(0, len(shape) - 1)),
            "snaps": draw(st.sampled_from(["same", "same", "fresh"])),
            "dt": draw(st.sampled_from([0, 0, 1])),
            "out": draw(st.sampled_from([None, None, None, "", "tc_rep.csv"])),
            "twice": draw(st.integers(0, 3)) == 0,
        })
    return {"rank": rank, "cplx": cplx, "shape": shape, "grid": grid, "contents": contents, "scheds": scheds,
            "dts": dts, "steps": steps}


_T0_EDGE = [0, 0, 1, 1000, 2 ** 31 - 1, 10 ** 9, 5 * 10 ** 9, 10 ** 12]
_DT_EDGE = [None, 1e-15, 1e-9, 1e-5, 0.002, 1.0, 100.0, 1e6]


@st.composite
def edge_case(draw):
    rank = draw(st.sampled_from(["scalar", "vector", "tensor"]))
    T = draw(st.sampled_from([1, 1, 2, 2, 3, 3, 4, 5]))
    N = draw(st.sampled_from([1, 1, 1, 2, 3]))
    d = draw(st.sampled_from([1, 1, 2, 3] if rank == "vector" else [1, 1, 2]))
    shape = _shape_for(rank, T, N, d)
    kind = draw(st.sampled_from(["random", "constant-in-time", "purely-imaginary", "real-stored-as-complex",
                                 "one-nonzero-entry", "scaled"]))
    cplx = {"purely-imaginary": True, "real-stored-as-complex": True}.get(kind, draw(st.booleans()))
    base_cplx = cplx and kind not in ("purely-imaginary", "real-stored-as-complex")
    A = draw(content_st(rank, base_cplx, shape))
    edge = []
    if kind == "constant-in-time":
        A = np.repeat(A[:1], T, axis=0)
    elif kind == "purely-imaginary":
        A = 1j * A
    elif kind == "real-stored-as-complex":
        A = A.astype(np.complex128)
    elif kind == "one-nonzero-entry":
        B = np.zeros_like(A)
        first = (slice(None), 0) + (0,) * (len(shape) - 2)
        B[first] = A[first]
        A = B  # frame 0 keeps its entry of modulus >= 0.5; tensors: one diagonal entry, tr(A conj A) = |a|^2
    elif kind == "scaled":
        A = A * draw(st.sampled_from([1e-30, 1e-8, 1e8, 1e30]))
    if kind != "random":
        edge.append(kind)
    t0 = draw(st.sampled_from(_T0_EDGE))
    delta = draw(st.sampled_from([1, 1, 2, 1000, 10 ** 6]))
    diffs = [delta] * (T - 1)
    spacing = "even"
    if T >= 3 and draw(st.booleans()):
        diffs[draw(st.sampled_from([0, T - 2]))] += draw(st.sampled_from([1, delta]))
        spacing = "one-gap-changed"
    ts = _cumulate(t0, diffs)
    dt = draw(st.sampled_from(_DT_EDGE))
    edge += [f"T={T}"] if T <= 2 else []
    edge += ["N=1"] if N == 1 else []
    edge += ["d=1"] if rank != "scalar" and d == 1 else []
    edge += ["t0>=2^31-1"] if t0 >= 2 ** 31 - 1 else []
    edge += ["dt<=1e-9"] if dt is not None and dt <= 1e-9 else []
    edge += ["dt>=100"] if dt is not None and dt >= 100 else []
    out = draw(st.sampled_from([None, None, "", "tc_edge.csv", "sub dir/tc edge.dat", "abs:tc_abs.csv"]))
    return {"A": A, "ts": ts, "dt": dt, "rank": rank, "cplx": cplx, "tkind": "general" if rank == "tensor" else "",
            "pattern": spacing, "outfile": out, "edge": edge}


_LONG_PATTERNS = ["pow2-times", "pow2-gaps", "log-blocks", "linear-then-log", "logfreq", "even-except-last",
                  "even-except-first", "even-except-one-middle", "two-rates", "alternating-gaps", "even", "even"]


@st.composite
def long_schedule_st(draw, T):
    pat = draw(st.sampled_from(_LONG_PATTERNS))
    t0 = draw(st.sampled_from([0, 0, 1, 1000, 10 ** 6, 10 ** 9, 5 * 10 ** 9]))
    n = T - 1
    base = draw(st.sampled_from([1, 1, 2, 5, 10, 100, 1000]))
    if pat == "pow2-times":  # t0 + base * (0, 1, 2, 4, 8, ...): the first two gaps are equal
        rel = [0] + [base * 2 ** k for k in range(n)]
    elif pat == "pow2-gaps":  # gaps base * (1, 2, 4, ...), e.g. timesteps 1, 2, 4, 8 when t0 = base = 1
        rel = [base * (2 ** k - 1) for k in range(T)]
    elif pat == "log-blocks":  # LAMMPS logarithmic blocks: each block restarts the sequence 0, 1, 2, 4, 8, ...
        m = draw(st.integers(3, 8))
        offs = [0] + [base * 2 ** k for k in range(m - 1)]
        period = offs[-1] * draw(st.sampled_from([2, 2, 3])) if draw(st.booleans()) else offs[-1] + base
        rel = [(k // m) * period + offs[k % m] for k in range(T)]
    elif pat == "linear-then-log":  # q equal gaps, then doubling gaps
        q = draw(st.integers(2, min(8, n)))
        gaps = [base] * q + [base * 2 ** (k + 1) for k in range(n - q)]
        rel = [0] + list(np.cumsum(gaps, dtype=object))
    elif pat == "logfreq":  # LAMMPS logfreq(a, nper, b): a*(1..nper) * b^k
        nper, b = draw(st.sampled_from([(3, 10), (9, 10), (2, 4), (4, 8), (1, 2), (5, 10)]))
        if base * nper * b ** (n // nper) + t0 >= 2 ** 52:
            base = 1  # keep every timestep exactly representable as a double
        rel = [base * (1 + k % nper) * b ** (k // nper) for k in range(T)]
        rel = [r - rel[0] for r in rel]
    else:
        delta = draw(st.integers(1, 5000))
        gaps = [delta] * n
        other = delta + draw(st.sampled_from([1, 1, -1, delta, 1000, 7])) if delta > 1 else delta + draw(st.sampled_from([1, 2, 1000]))
        if pat == "even-except-last":
            gaps[-1] = other
        elif pat == "even-except-first":
            gaps[0] = other
        elif pat == "even-except-one-middle":
            gaps[draw(st.integers(1, max(1, n - 2)))] = other
        elif pat == "two-rates":
            j = draw(st.integers(1, n - 1))
            gaps = [delta] * j + [other] * (n - j)
        elif pat == "alternating-gaps":
            gaps = [delta if k % 2 == 0 else other for k in range(n)]
        rel = [0] + list(np.cumsum(gaps, dtype=object))
    return [int(t0 + r) for r in rel], pat


@st.composite
def long_case(draw):
    rank = draw(st.sampled_from(["scalar", "vector", "tensor"]))
    cplx = draw(st.booleans())
    T = draw(st.one_of(st.integers(5, 12), st.integers(13, 40)))
    N = draw(st.integers(1, 4))
    d = draw(st.integers(1, 3))
    shape = _shape_for(rank, T, N, d)
    tkind = draw(st.sampled_from(["general", "general", "symmetric"])) if rank == "tensor" else ""
    A = draw(content_st(rank, cplx, shape, tkind=tkind or "general"))
    ts, pat = draw(long_schedule_st(T))
    more = []
    if draw(st.integers(0, 3)) == 0:
        # dynamic range (round 3): a relaxing quantity, |A| falling by 10^-dec per frame.  Each lag is a sum of products of
        # ITS frame pairs, accurate relative to their size S_k -- not relative to the lag-zero power (a transform-based
        # autocorrelation has an absolute error eps x S_0 at every lag)
        dec = draw(st.sampled_from([0.25, 0.5, 1.0]))
        A = A * (10.0 ** (-dec * np.arange(T))).reshape((-1,) + (1,) * (A.ndim - 1))
        more.append("decaying-series")
    return {"A": A, "ts": ts, "dt": draw(st.one_of(st.none(), nice_float(0.0005, 10.0))), "rank": rank, "cplx": cplx,
            "tkind": tkind, "pattern": pat, "outfile": draw(st.integers(0, 3)) == 0, "long": True, "more_tags": more}


# ----------------------------------------------------------------------------- generators of round 3

_FORM_PATTERNS = ["even", "uneven-random", "endpoint-consistent", "endpoint-consistent", "restart", "duplicate-frame",
                  "checkpoint-rewind"]


@st.composite
def form_schedule_st(draw, T):
    """Schedules that a detection of even spacing other than "all successive differences equal" gets wrong:
      endpoint-consistent  uneven, but last - first = (T-1) * first gap (= the mean gap equals the first gap), and the
                           first and the last gap are equal as well
      restart              a second run appended whose timesteps start again at the first timestep (t0, t0+g, ..., t0, ...)
      duplicate-frame      a continuation run that writes its first frame at the last timestep of the previous run
      checkpoint-rewind    a continuation from an earlier checkpoint: timesteps go back by one or two gaps
    The statement covers them: frames whose successive differences are not all equal are unevenly spaced (first frame
    is the only origin) and the time axis is the frame time relative to the first frame, whatever its sign."""
    pat = draw(st.sampled_from(_FORM_PATTERNS))
    t0 = draw(st.sampled_from([0, 0, 1, 1000, 10 ** 6, 10 ** 9, 3 * 10 ** 9]))
    g = draw(st.sampled_from([1, 2, 5, 10, 100, 1000, 5000]))
    n = T - 1
    if pat == "endpoint-consistent" and n >= 4 and g >= 2:
        gaps = [g] * n
        i, j = draw(st.permutations(range(1, n - 1)))[:2]  # first and last gap stay equal to g
        e = draw(st.integers(1, g - 1))
        gaps[i] += e
        gaps[j] -= e
        return _cumulate(t0, gaps), pat
    if pat == "restart" and T >= 3:
        m = draw(st.integers(2, T - 1))  # frames of the first run
        return [t0 + g * (k if k < m else k - m) for k in range(T)], pat
    if pat == "duplicate-frame" and T >= 3:
        m = draw(st.integers(1, T - 2))
        return [t0 + g * (k if k <= m else k - 1) for k in range(T)], pat
    if pat == "checkpoint-rewind" and T >= 4:
        m = draw(st.integers(2, T - 2))
        back = draw(st.integers(2, min(3, m + 1)))
        return [t0 + g * (k if k <= m else k - back) for k in range(T)], pat
    if pat == "even" or T <= 2:
        return [t0 + g * k for k in range(T)], "even"
    gaps = [draw(st.integers(1, 3 * g)) for _ in range(n)]
    if len(set(gaps)) == 1:
        gaps[-1] += 1
    return _cumulate(t0, gaps), "uneven-random"


_DT_FORMS = [None, 1, 2, 5, np.int64(3), np.float64(0.005), np.float32(0.5), np.float32(0.001953125), 0.002, 0.25]


@st.composite
def form_case(draw):
    """Argument representations (EXTENSION_2 class 3) and schedules of frames (class 7)."""
    rank = draw(st.sampled_from(["scalar", "vector", "tensor"]))
    cplx = draw(st.booleans())
    T = draw(st.sampled_from([1, 2, 3, 4, 5, 5, 6, 6, 7, 8, 9, 10]))
    N = draw(st.integers(1, 5))
    d = draw(st.integers(1, 3))
    shape = _shape_for(rank, T, N, d)
    tkind = draw(st.sampled_from(["general", "general", "symmetric"])) if rank == "tensor" else ""
    A = draw(content_st(rank, cplx, shape, tkind=tkind or "general"))
    ts, pat = draw(form_schedule_st(T))
    dt = draw(st.sampled_from(_DT_FORMS))
    if isinstance(dt, (np.float32, np.int64)) and ts[0] < 2 ** 24 and draw(st.booleans()):
        # a numpy-scalar dt next to timesteps beyond the integers a float32 holds exactly (2^24)
        off = 2 ** 24 * draw(st.sampled_from([1, 3, 64, 200]))
        ts = [t + off for t in ts]
    mono = all(b > a for a, b in zip(ts[:-1], ts[1:]))
    reprs = ["int", "np.int64", "np.int64"]
    if mono:
        reprs += ["np.uint64", "np.uint64"]  # unsigned arithmetic is only defined for non-decreasing schedules
    span = (max(ts) - min(ts)) * (int(dt) if isinstance(dt, (int, np.integer)) else 1)
    if max(ts) < 2 ** 31 and span < 2 ** 31:
        reprs += ["np.int32"]
    return {"A": A, "ts": ts, "dt": dt, "rank": rank, "cplx": cplx, "tkind": tkind, "pattern": pat,
            "outfile": draw(st.integers(0, 3)) == 0, "ts_repr": draw(st.sampled_from(reprs))}


_T_SMALL, _T_MID, _T_BIG = st.integers(2, 12), st.integers(13, 64), st.integers(129, 200)


@st.composite
def large_case(draw, deep=False):
    """Sizes of real use (EXTENSION_2 class 4): hundreds of particles, up to 200 frames (deep: thousands / 400), more
    components.  The series is built in check from a Hypothesis-drawn seed (numpy Generator), not element by element."""
    rank = draw(st.sampled_from(["scalar", "vector", "tensor"]))
    cplx = draw(st.booleans())
    bucket = draw(st.sampled_from(["small-T", "small-T", "mid-T", "mid-T", "big-T"]))
    if rank == "tensor":
        T = draw({"small-T": st.integers(2, 8), "mid-T": st.integers(9, 24 if not deep else 36),
                  "big-T": st.integers(25, 32 if not deep else 48)}[bucket])
        N = draw(st.integers(8, 48 if not deep else 150))
        if T > 24:
            N = min(N, 24 if not deep else 100)
        d = draw(st.integers(1, 5))
    else:
        T = draw({"small-T": _T_SMALL, "mid-T": _T_MID,
                  "big-T": _T_BIG if not deep else st.sampled_from([201, 255, 256, 257, 300, 399, 400])}[bucket])
        N = draw(st.one_of(st.sampled_from([20, 63, 64, 65, 127, 128, 129, 200, 255, 256, 257, 333, 400] if not deep else
                                           [128, 129, 500, 512, 1000, 1024, 1025, 2000, 3000]),
                           st.integers(20, 127), st.integers(128, 400 if not deep else 3000)))
        d = draw(st.integers(1, 8))
    spacing = draw(st.sampled_from(["even", "even", "uneven"] if bucket == "big-T" else ["even", "uneven"]))
    if T <= 2:
        spacing = "even"
    if spacing == "even":
        t0 = draw(st.sampled_from([0, 0, 1000, 10 ** 6, 5 * 10 ** 9]))
        g = draw(st.integers(1, 5000))
        ts, pat = [t0 + g * k for k in range(T)], "even"
    elif T >= 5:
        # (power-of-two / logfreq schedules of more than ~50 frames leave the exactly representable integers: dropped)
        ts, pat = draw(long_schedule_st(T).filter(lambda r: not tcorr.evenly_spaced(r[0]) and max(r[0]) < 2 ** 53))
    else:
        ts, pat = draw(timesteps_st(T, "uneven"))
    return {"rank": rank, "cplx": cplx, "T": T, "N": N, "d": d, "seed": draw(st.integers(0, 2 ** 32 - 1)),
            "values": draw(st.sampled_from(["normal", "uniform01", "near-constant", "eighths"])),
            "tkind": draw(st.sampled_from(["general", "general", "symmetric"])) if rank == "tensor" else "",
            "ts": ts, "pattern": pat, "dt": draw(st.one_of(st.none(), nice_float(0.0005, 10.0))),
            "outfile": draw(st.integers(0, 5)) == 0, "deep": deep}


def _large_series(case):
    rng = np.random.default_rng(case["seed"])
    shape = _shape_for(case["rank"], case["T"], case["N"], case["d"])

    def block():
        v = case["values"]
        if v == "normal":
            return rng.normal(size=shape) * 3.0
        if v == "uniform01":  # docs/dynamics.md example: np.random.rand(nsnapshots, nparticle)
            return rng.random(size=shape)
        if v == "near-constant":  # e.g. a local density: 1 +- 1 %
            return 1.0 + 0.01 * rng.normal(size=shape)
        return rng.integers(-80, 81, size=shape) / 8.0

    A = block()
    if case["cplx"]:
        A = A + 1j * block()
    if case["rank"] == "tensor" and case["tkind"] == "symmetric":
        A = (A + np.swapaxes(A, 2, 3)) / 2.0
    idx = (0, 0) + (0,) * (len(shape) - 2)
    if abs(A[idx]) < 0.5:
        A[idx] = 2.0
    if case["rank"] == "tensor":
        c, sc = tcorr.lag_zero(A, tcorr.evenly_spaced(case["ts"]))
        if not (sc > 0.0 and abs(c) >= 0.1 * sc):  # cancelling tr(A conj A): use the symmetric part
            A = (A + np.swapaxes(A, 2, 3)) / 2.0
    return A


# ----------------------------------------------------------------------------- checks


EPS = float(np.finfo(float).eps)


def _listing():
    """Relative paths of every file below the scratch working directory."""
    out = set()
    for root, _dirs, files in os.walk("."):
        for f in files:
            out.add(os.path.normpath(os.path.join(root, f)))
    return out


def _check_csv(path, t, c):
    T = len(t)
    require(os.path.isfile(path), lambda: f"outputfile {path!r} not written")
    with open(path) as fh:
        lines = [ln.strip() for ln in fh if ln.strip()]
    require(lines and lines[0] == "t,time_corr", lambda: f"csv header {lines[:1]!r}")
    try:
        data = np.array([[float(x) for x in ln.split(",")] for ln in lines[1:]], dtype=float).reshape(-1, 2)
    except ValueError as e:
        raise Violation(f"csv unparsable: {e}")
    require(data.shape == (T, 2), f"csv has shape {data.shape}, expected {(T, 2)} (one row per frame, written anew "
                                  f"by every call)")
    bad = np.abs(data[:, 0] - t) > HALF8 + 4e-16 * np.abs(t)
    require(not bad.any(), lambda: f"csv t column differs from returned: {data[:, 0].tolist()} vs {t.tolist()}")
    close("csv time_corr vs returned", data[:, 1], c, rtol=0.0, atol=HALF8)


def _invoke(snaps, cond, ts, dt=None, outputfile=None):
    """One call of the code under test + everything that holds for every call: table layout, time axis, finite real
    values, lag zero exactly 1, files.  outputfile None = argument omitted, "" = passed explicitly as empty.
    Returns (t, c)."""
    kw = {}
    if dt is not None:
        kw["dt"] = dt
    if outputfile is not None:
        kw["outputfile"] = outputfile
    before = _listing()
    with warnings.catch_warnings():
        # the tensor branches add a complex trace to a float accumulator (= take the real part) and warn about it
        warnings.simplefilter("ignore", category=np.exceptions.ComplexWarning)
        res = time_correlation(snaps, cond, **kw)
    columns("time_correlation", res, ["t", "time_corr"])
    T = len(ts)
    t = arr("column t", col("time_correlation", res, "t"), shape=(T,)).astype(float)
    c = arr("column time_corr", col("time_correlation", res, "time_corr"), shape=(T,))
    require(c.dtype.kind == "f", f"time_corr column is not real: dtype {c.dtype}")
    dtv = 0.002 if dt is None else dt
    tmax = float(max(abs(int(x)) for x in ts))
    close("time axis (timestep - first timestep) * dt", t, tcorr.time_axis(ts, dtv), rtol=1e-12,
          atol=4 * EPS * tmax * abs(float(dtv)))
    # "relative to the first frame": x - x and x*dt - x*dt are exactly 0 in IEEE arithmetic for every finite x
    require(t[0] == 0.0, lambda: f"time axis starts at {t[0]!r}, not at 0 (frame time relative to the first frame)")
    require(np.all(np.isfinite(c)), lambda: f"non-finite correlation values {c.tolist()}")
    require(c[0] == 1.0, lambda: f"lag-zero value is {c[0]!r}, not exactly 1")
    created = _listing() - before
    if outputfile:
        rel = os.path.normpath(os.path.relpath(outputfile, os.getcwd()) if os.path.isabs(outputfile) else outputfile)
        require(created <= {rel}, lambda: f"files other than outputfile={outputfile!r} were created: {sorted(created)}")
        _check_csv(outputfile, t, c)
    else:
        require(not created, lambda: f"no outputfile requested ({outputfile!r}) but files were created: "
                                     f"{sorted(created)}")
    return t, c


def _call(case, A, ts):
    snaps = _snapshots(ts, A.shape[1], case.get("ts_repr", "int"))
    out = case.get("outfile")
    if out is True:
        out = "tc.csv"
    elif not isinstance(out, str):
        out = None
    elif out.startswith("abs:"):  # absolute path below the scratch working directory
        out = os.path.join(os.getcwd(), out[4:])
    if out and os.path.dirname(out):
        os.makedirs(os.path.dirname(out), exist_ok=True)
    return _invoke(snaps, A.copy(), ts, dt=case.get("dt"), outputfile=out)


def _compare(name, got, want, atol, rtol=1e-10):
    bad = np.abs(got - want) > atol + rtol * np.abs(want)
    if bad.any():
        k = int(np.argmax(bad))
        raise Violation(f"{name}: {int(bad.sum())}/{len(want)} lags differ; first at lag index {k}: got {got[k]!r}, "
                        f"want {want[k]!r} (atol {float(np.atleast_1d(atol)[min(k, np.size(atol) - 1)]):.2e}); "
                        f"got {got.tolist()} want {want.tolist()}")


def check_series(case, A=None, unnormalised=tcorr.unnormalised, factor=1e-13):
    A = case["A"] if A is None else A
    ts = case["ts"]
    T = len(ts)
    even = tcorr.evenly_spaced(ts)
    t, c = _call(case, A, ts)
    C, S = unnormalised(A, even)
    if not (abs(C[0]) >= 0.05 * S[0] and S[0] > 0):
        raise RuntimeError("harness: ill-conditioned normaliser generated")  # generator bug, not a finding
    want = C / C[0]
    atol = factor * (S + np.abs(want) * S[0]) / abs(C[0]) + TINY
    _compare(f"time_corr ({case['rank']}, {'complex' if case['cplx'] else 'real'}, "
             f"{'even: all origins' if even else 'uneven: first frame only'})", c, want, atol)
    # does the case tell the two definitions apart?
    Cother, _ = unnormalised(A, not even)
    other = Cother / Cother[0] if Cother[0] != 0 else np.full(T, np.inf)
    discr = bool(T >= 3 and np.max(np.abs(other - want)) > 1e-6)
    tags = [case["rank"], "complex" if case["cplx"] else "real",
            f"T{T}" if T <= 40 else "T41-128" if T <= 128 else "T129-256" if T <= 256 else "T257+",
            "even" if even else "uneven",
            "pattern-" + case["pattern"], f"N{A.shape[1]}" if A.shape[1] <= 6 else "N7-31" if A.shape[1] < 32 else "N32-127" if A.shape[1] < 128 else
            "N128-511" if A.shape[1] < 512 else "N512+", "t0=0" if ts[0] == 0 else "t0>0",
            "dt-default" if case["dt"] is None else "dt-given", "C0>0" if C[0] > 0 else "C0<0"]
    if case["rank"] != "scalar":
        tags.append(f"d{A.shape[2]}")
        tags.append("d-odd" if A.shape[2] % 2 else "d-even")
    if case["tkind"]:
        tags.append("tensor-" + case["tkind"])
    if case["outfile"]:
        tags.append("csv")
        if isinstance(case["outfile"], str):
            tags.append("csv-abs-path" if case["outfile"].startswith("abs:") else
                        "csv-in-subdir" if os.path.dirname(case["outfile"]) else "csv-plain-name")
    else:
        tags.append("no-file:outputfile-empty-string" if case["outfile"] == "" else "no-file:outputfile-omitted")
    if case.get("long"):
        tags.append("T5-12" if T <= 12 else "T13-24" if T <= 24 else "T25-40")
    if "ts_repr" in case:
        tags += ["timestep-type-" + case["ts_repr"], "dt-type-" + type(case["dt"]).__name__,
                 "monotonic" if all(b > a for a, b in zip(ts[:-1], ts[1:])) else "non-monotonic",
                 "T-odd" if T % 2 else "T-even"]
    tags += list(case.get("more_tags", ()))
    if discr:
        tags.append("discriminates-origin-rule")
    if np.any(want > 1.0 + 1e-9):
        tags.append("some-lag-above-1")
    if ts[0] >= 2 ** 31 - 1:
        tags.append("t0>=2^31-1")
    elif ts[-1] >= 2 ** 31:
        tags.append("crosses-2^31")
    edge = list(case.get("edge", ()))
    if "constant-in-time" in edge:
        # independent of the reference: every product equals the lag-zero product, under both origin rules
        _compare("series constant in time: C(k) = 1 at every lag", c, np.ones(T), atol)
    tags += ["edge:" + e for e in edge]
    if "edge" in case:
        tags.append(f"edge-classes-{min(len(edge), 5)}")
        return {"nontrivial": len(edge) >= 2, "tags": tags}
    return {"nontrivial": discr, "tags": tags}


def check_phase(case):
    ts = case["ts"]
    rel = np.array(ts, dtype=np.int64) - ts[0]
    A = case["amp"][None, ...] * np.exp(1j * case["phi"] * rel).reshape((-1,) + (1,) * case["amp"].ndim)
    t, c = _call(case, A, ts)
    want = np.cos(case["phi"] * rel)
    # conditioning: |a|^2 sums are all positive; exp/cos of arguments <= 140 rad: errors ~ 1e-14
    _compare(f"time_corr of a_i exp(i phi ts) ({case['rank']}, {case['spacing']}) vs cos(phi (ts - ts0))", c, want,
             atol=1e-11, rtol=0.0)
    T = len(ts)
    tags = [case["rank"], case["spacing"], f"T{T}", "phi<0" if case["phi"] < 0 else "phi>0"]
    return {"nontrivial": bool(T >= 3 and np.max(np.abs(want - 1.0)) > 1e-3), "tags": tags}


def check_large(case):
    A = _large_series(case)
    nterms = int(np.prod(A.shape[1:]))
    T = A.shape[0]
    # n products + n - 1 additions per frame pair, T - k origins, in the library AND in the reference: first-order bound
    # (n + T + 6) eps S_k each; 1e-13 is the floor used for the small facets
    factor = max(1e-13, 2.0 * (nterms + T + 6) * EPS)
    case = dict(case, more_tags=["values-" + case["values"],
                                 "terms<512" if nterms < 512 else "terms512-4095" if nterms < 4096 else "terms4096+"])
    return check_series(case, A=A, unnormalised=tcorr.gram_unnormalised, factor=factor)


def describe_large(case):
    return {k: case[k] for k in ("rank", "cplx", "T", "N", "d", "seed", "values", "tkind", "pattern", "dt")} | {
        "ts": case["ts"][:6]}


def describe_form(case):
    d = describe(case)
    d["ts_repr"] = case["ts_repr"]
    d["dt"] = repr(case["dt"])
    d["pattern"] = case["pattern"]
    return d


def _single(dtype):
    return np.complex64 if np.dtype(dtype).kind == "c" else np.float32


def _layout(how, C, axis):
    """The logical contents C in the memory layout `how`.  Returns (argument, base) where base owns the memory
    (checked for stray writes as well)."""
    if how == "fresh":
        a = C.copy()
        return a, a
    if how == "strided":  # every second element along one axis of a larger array; the gaps hold NaN
        shp = list(C.shape)
        shp[axis] *= 2
        base = np.full(shp, np.nan, dtype=C.dtype)
        idx = [slice(None)] * C.ndim
        idx[axis] = slice(1, None, 2)
        a = base[tuple(idx)]
        a[...] = C
        return a, base
    if how == "reversed":  # negative stride along time
        base = C[::-1].copy()
        return base[::-1], base
    if how == "fortran":
        a = np.asfortranarray(C)
        return a, a
    if how == "swapped":  # last two axes (or time and particle axes for scalars) stored transposed
        i, j = (C.ndim - 2, C.ndim - 1)
        base = np.ascontiguousarray(np.swapaxes(C, i, j))
        return np.swapaxes(base, i, j), base
    if how == "readonly":  # e.g. np.load(..., mmap_mode="r")
        a = C.copy()
        a.flags.writeable = False
        return a, a
    raise RuntimeError(how)


def check_repeat(case):
    contents, scheds, shape = case["contents"], case["scheds"], tuple(case["shape"])
    T, N = shape[0], shape[1]
    nterms = int(np.prod(shape[1:]))
    master = contents[0].dtype
    expected = {}

    def want_for(ci, si):
        if (ci, si) not in expected:
            want, C, S, even = tcorr.normalised(contents[ci], scheds[si])
            if not (abs(C[0]) >= 0.05 * S[0] and S[0] > 0):
                raise RuntimeError("harness: ill-conditioned normaliser generated")
            expected[(ci, si)] = (want, (S + np.abs(want) * S[0]) / abs(C[0]), even)
        return expected[(ci, si)]

    buffers = {}  # dtype -> persistent array object, refilled in place
    shared = None  # persistent Snapshots object, frames replaced in place
    shared_ts = None
    cell, pos, types = _cell(), np.zeros((N, 2)), np.ones(N, dtype=int)
    tags, prev, discr = [], None, False
    seen = {"buffer-content": {}, "snaps-even": None}
    for k, stp in enumerate(case["steps"]):
        ci, si, how = stp["content"], stp["sched"], stp["how"]
        ts = scheds[si]
        dtype = _single(master) if stp["single"] else master
        C = contents[ci].astype(dtype)  # exact when single: the case is on the 1/8 grid
        want, scale, even = want_for(ci, si)
        # ---- condition argument
        if how == "buffer":
            if dtype not in buffers:
                buffers[dtype] = np.empty(shape, dtype=dtype)
            elif seen["buffer-content"].get(dtype) not in (None, ci):
                tags.append("same-array-new-contents")
            buffers[dtype][...] = C
            seen["buffer-content"][dtype] = ci
            cond = base = buffers[dtype]
        else:
            cond, base = _layout(how, C, stp["axis"])
        # ---- snapshots argument
        if stp["snaps"] == "same":
            if shared is None:
                shared = _snapshots(ts, N)
            else:
                changed = False
                for f in range(T):
                    if shared_ts[f] != ts[f]:
                        shared.snapshots[f] = gen.snapshot_from(cell, pos, types, ts[f])  # list entry replaced in place
                        changed = True
                if changed:
                    tags.append("same-snapshots-new-timesteps")
                    if seen["snaps-even"] is not None and seen["snaps-even"] != even:
                        tags.append("same-snapshots-even<->uneven")
            shared_ts = list(ts)
            seen["snaps-even"] = even
            snaps = shared
        else:
            snaps = _snapshots(ts, N)
        dt = case["dts"][stp["dt"]]
        out = stp["out"]
        before_arg = cond.tobytes()
        before_base = base.tobytes()
        t, c = _invoke(snaps, cond, ts, dt=dt, outputfile=out)
        label = (f"call {k + 1}/{len(case['steps'])} ({case['rank']}, {np.dtype(dtype).name}, layout {how}, "
                 f"{'even: all origins' if even else 'uneven: first frame only'}, content #{ci}, schedule #{si})")
        require(cond.tobytes() == before_arg and base.tobytes() == before_base,
                lambda: f"{label}: the caller's condition array was modified by the call")
        require([int(sn.timestep) for sn in snaps.snapshots] == [int(x) for x in ts] and snaps.nsnapshots == T,
                lambda: f"{label}: the caller's snapshots were modified by the call")
        factor = 2.0 * (nterms + T + 6) * 2.0 ** -24 if stp["single"] else 1e-13
        _compare(f"time_corr, {label}", c, want, factor * scale + TINY)
        if stp["twice"]:
            t2, c2 = _invoke(snaps, cond, ts, dt=dt, outputfile=out)
            require(t2.tobytes() == t.tobytes() and c2.tobytes() == c.tobytes(),
                    lambda: f"{label}: the same objects passed twice in a row gave different tables: "
                            f"{c.tolist()} then {c2.tolist()}")
            require(cond.tobytes() == before_arg and base.tobytes() == before_base,
                    lambda: f"{label}: the caller's condition array was modified by the repeated call")
            tags.append("same-arguments-twice")
        if prev is not None:
            pw, pts, pdt = prev
            if np.max(np.abs(pw - want)) > 1e-6 or pts != ts or pdt != dt:
                discr = True
            if np.max(np.abs(pw - want)) > 1e-6 and pts == ts:
                tags.append("same-schedule-other-contents")
        prev = (want, ts, dt)
        tags += ["layout-" + how, np.dtype(dtype).name, "even" if even else "uneven",
                 "snapshots-" + stp["snaps"], "csv" if out else "no-file"]
    tags = sorted(set(tags)) + [case["rank"], f"T{T}", f"calls-{len(case['steps'])}"]
    return {"nontrivial": discr, "tags": tags, "extra": {"calls": len(case["steps"])}}


def describe_repeat(case):
    return {"rank": case["rank"], "complex": case["cplx"], "shape": list(case["shape"]), "scheds": case["scheds"],
            "steps": [(s["content"], s["sched"], s["how"], "single" if s["single"] else "double", s["snaps"],
                       "x2" if s["twice"] else "") for s in case["steps"]]}


def describe(case):
    return {"rank": case["rank"], "complex": case["cplx"], "shape": list(case["A"].shape), "ts": case["ts"],
            "dt": case["dt"], "tensor": case["tkind"], "A[:2,0]": np.round(case["A"][:2, 0], 3).tolist()}


def describe_phase(case):
    return {"rank": case["rank"], "spacing": case["spacing"], "ts": case["ts"], "phi": case["phi"],
            "amp0": np.round(case["amp"][0], 3).tolist()}


def describe_edge(case):
    d = describe(case)
    d["edge"] = case["edge"]
    d["outfile"] = case["outfile"]
    return d


FACETS = [
    Facet("even_spacing", series_case("even"), check_series, quick=1500, thorough=60000, describe=describe,
          shards_quick=3, rule="t0 + k*delta, T 1..8: mean over all T-k origins; non-trivial as in RULE"),
    Facet("uneven_spacing", series_case("uneven"), check_series, quick=1500, thorough=60000, describe=describe,
          shards_quick=3, rule="T 3..8 with >= 2 distinct successive differences: first frame only; non-trivial as in RULE"),
    Facet("analytic_phase", phase_case(), check_phase, quick=600, thorough=30000, describe=describe_phase,
          rule="a_i exp(i phi ts_k), complex amplitudes, scalar/vector/symmetric tensor, even and uneven spacing: "
               "closed form cos(phi (ts_k - ts_0)); non-trivial = T >= 3 and the cosine leaves 1 by > 1e-3"),
    Facet("repeat_calls", repeat_case(), check_repeat, quick=1200, thorough=40000, describe=describe_repeat,
          shards_quick=3,
          rule="3..7 calls per case on 2..3 contents x 2..4 schedules of one shape: same array refilled in place, same "
               "Snapshots object with frames replaced in place (even <-> uneven), fresh objects alternating, strided / "
               "reversed / Fortran / axis-swapped / read-only layouts, float32 / complex64, same objects twice in a row "
               "(bit-identical); each call = reference for the contents at call time, caller's array bit-identical "
               "afterwards; non-trivial = two successive calls whose expected tables differ"),
    Facet("edge_sizes", edge_case(), check_series, quick=900, thorough=30000, describe=describe_edge,
          rule="T 1..5, N 1..3, d 1..3; t0 in {0, 1, 1000, 2^31-1, 1e9, 5e9, 1e12}; dt in {default, 1e-15 .. 1e6}; "
               "constant in time (C = 1 at every lag), purely imaginary, real stored as complex, one non-zero entry, "
               "scaled by 1e+-30 / 1e+-8; outputfile omitted / '' / plain / sub-directory / absolute; "
               "non-trivial = at least two edge classes at once"),
    Facet("long_schedules", long_case(), check_series, quick=600, thorough=20000, describe=describe,
          shards_quick=3,
          rule="T 5..40, N 1..4: pow2-times, pow2-gaps, log-blocks, linear-then-log, logfreq, even-except-last / "
               "-first / -one-middle, two-rates, alternating-gaps, even; first timestep up to 5e9; evenness decided by "
               "the reference from the statement (all successive differences equal); non-trivial as in RULE"),
    Facet("argument_forms", form_case(), check_series, quick=900, thorough=30000, describe=describe_form,
          shards_quick=2,
          rule="T 1..10, N 1..5: snapshot.timestep as Python int / np.int64 / np.uint64 / np.int32, dt omitted / Python "
               "int / np.int64 / np.float64 / np.float32 / float; schedules: even, random uneven, endpoint-consistent "
               "(uneven with last - first = (T-1) x first gap and first gap = last gap), restart (timesteps start again), "
               "duplicate-frame, checkpoint-rewind; non-trivial as in RULE"),
    Facet("large_sizes", large_case(), check_large, quick=360, thorough=4000, describe=describe_large,
          shards_quick=3,
          rule="scalar / vector: N 20..400, d 1..8, T 2..64 and 129..200; tensor: N 8..48, d 1..5, T 2..32; values "
               "normal / uniform [0,1) / 1 +- 1 % / multiples of 1/8 from a drawn seed; Gram-matrix reference, tolerance "
               "factor 2 (n + T + 6) eps; non-trivial as in RULE"),
    Facet("deep_sizes", large_case(deep=True), check_large, quick=0, thorough=3000, describe=describe_large,
          rule="thorough tier only: scalar / vector N up to 3000, T up to 400; tensor N up to 150, T up to 48"),
]

MANIFEST = {
    "text": ("dynamic.time_corr.time_correlation is compared with an independent einsum reference on generated series of "
             "shape (T,N), (T,N,d), (T,N,d,d), float64 and complex128, T 1..8: evenly spaced timesteps -> mean over all "
             "origins (even_spacing), unevenly spaced -> first frame only (uneven_spacing, incl. palindromic / one-outlier "
             "/ two-value difference patterns); time axis (ts - ts0)*dt, lag-zero value exactly 1.0, CSV agreeing with the "
             "returned table at %.8f and no file when outputfile is '' or omitted; closed form cos(phi (ts - ts0)) for "
             "a_i exp(i phi ts) fixes the conjugation convention independently of the reference (analytic_phase). "
             "Histories (repeat_calls): 3..7 calls per case that share the condition array object (refilled in place), "
             "the Snapshots object (frames replaced in place, even <-> uneven), or alternate between inputs of one shape, "
             "in strided / reversed / Fortran / axis-swapped / read-only layouts and float32 / complex64: every call "
             "equals the reference for the contents at call time, identical objects twice give bit-identical tables, "
             "the caller's array is bit-identical afterwards. Minimal sizes and extreme magnitudes (edge_sizes): T = 1, "
             "2, N = 1, 1-component vectors, 1x1 tensors, first timestep up to 1e12, dt 1e-15 .. 1e6, series constant "
             "in time (C = 1 at all lags), purely imaginary, scaled by 1e+-30. Realistic long schedules "
             "(long_schedules, T up to 40): powers of two, LAMMPS logarithmic blocks, logfreq, linear-then-log, even "
             "except one gap (last / first / middle), two rates. Argument representations and schedules of frames "
             "(argument_forms): timesteps as Python / np.int64 / np.uint64 / np.int32 integers, dt as int / numpy scalar / "
             "omitted, uneven schedules whose end points and first / last gap look even, restarted / duplicated / rewound "
             "frames (time axis relative to the first frame, exactly 0 there). Sizes of real use (large_sizes: N up to 400, "
             "T up to 200, d up to 8; thorough tier deep_sizes: N up to 3000, T up to 400) against a Gram-matrix reference."),
    "note": ("Trusted base: numpy einsum / matmul, pbt/ref/tcorr.py. Tensor product = trace of A(later).conj(A(earlier)). "
             "The lag-zero normaliser is kept bounded away from 0 by construction (general tensors with cancelling "
             "tr(A conj A) are symmetrised); its sign is free. dtype float64/complex128, plus float32/complex64 in "
             "repeat_calls at a single-precision tolerance (values exactly representable, the library may compute in "
             "single precision). Lists, integer / bool series and outputfile=None are outside the documented domain and not "
             "generated (an integer scalar series with uneven spacing raises in the routine). Evenly spaced = all "
             "successive integer timestep differences equal."),
    "technique": ("property-based testing (Hypothesis): reference-model differential + closed-form oracle + "
                  "call-history (state carried between calls) differential"),
}
