"""C14 — time_correlation equals the origin-averaged (even spacing) / first-origin (uneven spacing) normalised
autocorrelation of a per-particle scalar, vector or tensor series, real or complex.

Oracle: pbt/ref/tcorr.py (einsum products written from the definition) and, in facet analytic_phase, the closed
form cos(phi (ts_k - ts_0)) for series a_i exp(i phi ts_k).

Preconditions imposed by construction:
  * condition has shape (T, N), (T, N, d) or (T, N, d, d) with T = number of snapshots and N = nparticle, dtype
    float64 or complex128 (docs: "type should be float"; bool must be converted by the caller)
  * timesteps strictly increasing integers; "unevenly spaced" = at least two different successive differences (T >= 3)
  * the lag-zero value C(0) is bounded away from zero: |C(0)| >= 0.05 * (sum of absolute values of its terms).
    For scalars and vectors C(0) = mean sum |A|^2 and one entry of frame 0 has modulus >= 0.5; general tensors whose
    tr(A.conj(A)) nearly cancels are replaced by their symmetric part (time_corr.py L101 divides by results[0]).
Tolerance (DESIGN 1.4): float64 recomputation of sums of <= 54 products: |dC_k| <= ~2e-14 * S_k with S_k the mean
sum of absolute values; result = C_k / C_0, hence atol_k = 1e-13 (S_k + |C_k/C_0| S_0) / |C_0| plus rtol 1e-10.
"""
from __future__ import annotations

import os
import warnings

import numpy as np
from hypothesis import strategies as st
from hypothesis.extra import numpy as hnp

from .. import gen
from ..gen import fl, nice_float
from ..harness import Facet, Violation
from ..ref import tcorr
from ..util import arr, close, col, columns, require

from PyMatterSim.dynamic.time_corr import time_correlation

RULE = ("per-particle series of shape (T,N), (T,N,d), (T,N,d,d) (d 1..4 / 1..3), float64 or complex128, T 1..8, N 1..6, "
        "evenly spaced timesteps t0 + k*delta (T = 1, 2 count as even) or unevenly spaced ones (log, palindromic, "
        "one outlier, random), dt given or default; non-trivial = T >= 3 and the all-origins and the first-origin "
        "definitions differ by more than 1e-6 at some lag (the case tells the two apart)")
ASSUMPTIONS = [
    "condition dtype float64 or complex128, shape (T, N[, d[, d]]) matching the snapshots",
    "timesteps strictly increasing integers",
    "lag-zero value bounded away from 0 by construction (|C(0)| >= 0.05 x absolute term sum)",
    "tensor product = trace of the matrix product A(later) . conj(A(earlier)) (DESIGN C14)",
]

HALF8 = 0.505e-8


def _cell(d=2):
    return {"d": d, "kind": "ortho", "H": np.diag([10.0] * d), "lo": np.zeros(d), "origin": "zero"}


def _snapshots(ts, N):
    from PyMatterSim.reader.reader_utils import Snapshots

    cell = _cell()
    pos = np.zeros((N, 2))
    types = np.ones(N, dtype=int)
    snaps = [gen.snapshot_from(cell, pos, types, t) for t in ts]
    return Snapshots(nsnapshots=len(snaps), snapshots=snaps)


# ----------------------------------------------------------------------------- generators

_el = st.one_of(st.integers(-80, 80).map(lambda k: k / 8.0), fl(-10.0, 10.0))


@st.composite
def timesteps_st(draw, T, spacing):
    t0 = draw(st.one_of(st.just(0), st.integers(1, 10 ** 6)))
    if spacing == "even" or T <= 2:
        delta = draw(st.integers(1, 5000))
        return [t0 + k * delta for k in range(T)], "even"
    pat = draw(st.sampled_from(["log", "palindrome", "outlier", "random", "two-values"]))
    n = T - 1
    if pat == "log":
        base = draw(st.integers(1, 10))
        diffs = [base * 2 ** k for k in range(n)]
    elif pat == "palindrome":
        half = [draw(st.integers(1, 50)) for _ in range((n + 1) // 2)]
        diffs = half + half[: n // 2][::-1]
    elif pat == "outlier":
        delta = draw(st.integers(1, 1000))
        diffs = [delta] * n
        diffs[draw(st.integers(0, n - 1))] = delta + draw(st.sampled_from([-1, 1, 2, 7, 1000])) if delta > 1 else delta + 1
    elif pat == "two-values":
        a, b = draw(st.integers(1, 100)), draw(st.integers(1, 100))
        diffs = [a if draw(st.booleans()) else b for _ in range(n)]
    else:
        diffs = [draw(st.integers(1, 5000)) for _ in range(n)]
    diffs = [max(1, int(x)) for x in diffs]
    if len(set(diffs)) == 1:  # must be uneven
        diffs[-1] += 1
    ts = [t0]
    for x in diffs:
        ts.append(ts[-1] + x)
    return ts, pat


@st.composite
def series_case(draw, spacing):
    rank = draw(st.sampled_from(["scalar", "vector", "tensor"]))
    cplx = draw(st.booleans())
    T = draw(st.integers(1, 8)) if spacing == "even" else draw(st.integers(3, 8))
    N = draw(st.integers(1, 6))
    tkind = ""
    if rank == "scalar":
        shape = (T, N)
    elif rank == "vector":
        shape = (T, N, draw(st.integers(1, 4)))
    else:
        dd = draw(st.integers(1, 3))
        shape = (T, N, dd, dd)
        tkind = draw(st.sampled_from(["general", "general", "symmetric", "traceless-symmetric", "hermitian"]
                                     + (["near-antisymmetric"] if dd > 1 else [])))
    A = draw(hnp.arrays(np.float64, shape, elements=_el))
    if cplx:
        A = A + 1j * draw(hnp.arrays(np.float64, shape, elements=_el))
    if rank == "tensor":
        At = np.swapaxes(A, 2, 3)
        if tkind in ("symmetric", "traceless-symmetric"):
            A = (A + At) / 2.0
            if tkind == "traceless-symmetric":
                tr = np.trace(A, axis1=2, axis2=3)
                A = A - tr[:, :, None, None] * np.eye(shape[2])[None, None] / shape[2]
        elif tkind == "hermitian":
            A = (A + np.conj(At)) / 2.0
        elif tkind == "near-antisymmetric":  # tr(A.conj(A)) < 0: the normaliser is negative
            A = (A - At) / 2.0 + 0.05 * A * np.eye(shape[2])[None, None]
    # one entry of frame 0 bounded away from zero
    idx = (0, 0) + (0,) * (len(shape) - 2)
    if rank == "tensor" and shape[2] > 1 and tkind != "general":
        idx = (0, 0, 0, 1)
    if abs(A[idx]) < 0.5:
        A[idx] = draw(st.sampled_from([0.5, -1.0, 2.0, -3.5])) * ((1 + 1j) if cplx else 1.0)
        if rank == "tensor" and idx[2] != idx[3]:
            A[0, 0, 1, 0] = {"hermitian": np.conj(A[idx]), "near-antisymmetric": -A[idx]}.get(tkind, A[idx])
    ts, pat = draw(timesteps_st(T, spacing))
    even = tcorr.evenly_spaced(ts)
    C, S = tcorr.unnormalised(A, even)
    fixed = False
    if not abs(C[0]) >= 0.05 * S[0] or S[0] == 0.0:
        # ill-conditioned normaliser (only possible for general tensors): use the symmetric part
        A = (A + np.swapaxes(A, 2, 3)) / 2.0
        if not np.any(A[0]):
            A[0, 0] = np.eye(shape[2])
        fixed = True
    dt = draw(st.one_of(st.none(), nice_float(0.0005, 10.0)))
    return {"A": A, "ts": ts, "dt": dt, "rank": rank, "cplx": cplx, "tkind": tkind + ("-symmetrised" if fixed else ""),
            "pattern": pat, "outfile": draw(st.booleans())}


@st.composite
def phase_case(draw):
    rank = draw(st.sampled_from(["scalar", "vector", "tensor"]))
    spacing = draw(st.sampled_from(["even", "uneven"]))
    T = draw(st.integers(2, 8)) if spacing == "even" else draw(st.integers(3, 8))
    N = draw(st.integers(1, 5))
    t0 = draw(st.integers(0, 1000))
    n = T - 1
    if spacing == "even":
        diffs = [draw(st.integers(1, 40))] * n
    else:
        diffs = [draw(st.integers(1, 40)) for _ in range(n)]
        if len(set(diffs)) == 1:
            diffs[0] += 1
    ts = [t0]
    for x in diffs:
        ts.append(ts[-1] + x)
    if rank == "scalar":
        shape = (N,)
    elif rank == "vector":
        shape = (N, draw(st.integers(1, 3)))
    else:
        dd = draw(st.integers(2, 3))
        shape = (N, dd, dd)
    amp = draw(hnp.arrays(np.float64, shape, elements=_el)) + 1j * draw(hnp.arrays(np.float64, shape, elements=_el))
    if rank == "tensor":
        amp = (amp + np.swapaxes(amp, 1, 2)) / 2.0  # complex symmetric: tr(M conj M) = sum |M_jk|^2 is real, > 0
    first = (0,) * len(shape)
    if abs(amp[first]) < 0.5:
        amp[first] = 1.0 - 0.5j
    phi = draw(st.one_of(st.sampled_from([0.01, 0.1, 0.5]), fl(0.001, 0.5))) * draw(st.sampled_from([-1.0, 1.0]))
    return {"amp": amp, "ts": ts, "phi": phi, "rank": rank, "spacing": spacing,
            "dt": draw(nice_float(0.001, 2.0))}


# ----------------------------------------------------------------------------- checks


def _call(case, A, ts):
    snaps = _snapshots(ts, A.shape[1])
    kw = {}
    if case.get("dt") is not None:
        kw["dt"] = case["dt"]
    if case.get("outfile"):
        kw["outputfile"] = "tc.csv"
    with warnings.catch_warnings():
        # the tensor branches add a complex trace to a float accumulator (= take the real part) and warn about it
        warnings.simplefilter("ignore", category=np.exceptions.ComplexWarning)
        res = time_correlation(snaps, A.copy(), **kw)
    columns("time_correlation", res, ["t", "time_corr"])
    T = len(ts)
    t = arr("column t", col("time_correlation", res, "t"), shape=(T,)).astype(float)
    c = arr("column time_corr", col("time_correlation", res, "time_corr"), shape=(T,))
    require(c.dtype.kind == "f", f"time_corr column is not real: dtype {c.dtype}")
    dt = 0.002 if case.get("dt") is None else case["dt"]
    close("time axis (timestep - first timestep) * dt", t, tcorr.time_axis(ts, dt), rtol=1e-12, atol=0.0)
    require(np.all(np.isfinite(c)), lambda: f"non-finite correlation values {c.tolist()}")
    require(c[0] == 1.0, lambda: f"lag-zero value is {c[0]!r}, not exactly 1")
    if case.get("outfile"):
        path = os.path.join(os.getcwd(), "tc.csv")
        require(os.path.exists(path), "outputfile not written")
        with open(path) as fh:
            lines = [ln.strip() for ln in fh if ln.strip()]
        require(lines and lines[0] == "t,time_corr", lambda: f"csv header {lines[:1]!r}")
        try:
            data = np.array([[float(x) for x in ln.split(",")] for ln in lines[1:]], dtype=float).reshape(-1, 2)
        except ValueError as e:
            raise Violation(f"csv unparsable: {e}")
        require(data.shape == (T, 2), f"csv has shape {data.shape}, expected {(T, 2)}")
        bad = np.abs(data[:, 0] - t) > HALF8 + 4e-16 * np.abs(t)
        require(not bad.any(), lambda: f"csv t column differs from returned: {data[:, 0].tolist()} vs {t.tolist()}")
        close("csv time_corr vs returned", data[:, 1], c, rtol=0.0, atol=HALF8)
    return t, c


def _compare(name, got, want, atol, rtol=1e-10):
    bad = np.abs(got - want) > atol + rtol * np.abs(want)
    if bad.any():
        k = int(np.argmax(bad))
        raise Violation(f"{name}: {int(bad.sum())}/{len(want)} lags differ; first at lag index {k}: got {got[k]!r}, "
                        f"want {want[k]!r} (atol {float(np.atleast_1d(atol)[min(k, np.size(atol) - 1)]):.2e}); "
                        f"got {got.tolist()} want {want.tolist()}")


def check_series(case):
    A, ts = case["A"], case["ts"]
    T = len(ts)
    even = tcorr.evenly_spaced(ts)
    t, c = _call(case, A, ts)
    C, S = tcorr.unnormalised(A, even)
    if not (abs(C[0]) >= 0.05 * S[0] and S[0] > 0):
        raise RuntimeError("harness: ill-conditioned normaliser generated")  # generator bug, not a finding
    want = C / C[0]
    atol = 1e-13 * (S + np.abs(want) * S[0]) / abs(C[0])
    _compare(f"time_corr ({case['rank']}, {'complex' if case['cplx'] else 'real'}, "
             f"{'even: all origins' if even else 'uneven: first frame only'})", c, want, atol)
    # does the case tell the two definitions apart?
    Cother, _ = tcorr.unnormalised(A, not even)
    other = Cother / Cother[0] if Cother[0] != 0 else np.full(T, np.inf)
    discr = bool(T >= 3 and np.max(np.abs(other - want)) > 1e-6)
    tags = [case["rank"], "complex" if case["cplx"] else "real", f"T{T}", "even" if even else "uneven",
            "pattern-" + case["pattern"], f"N{A.shape[1]}", "t0=0" if ts[0] == 0 else "t0>0",
            "dt-default" if case["dt"] is None else "dt-given", "C0>0" if C[0] > 0 else "C0<0"]
    if case["rank"] != "scalar":
        tags.append(f"d{A.shape[2]}")
    if case["tkind"]:
        tags.append("tensor-" + case["tkind"])
    if case["outfile"]:
        tags.append("csv")
    if discr:
        tags.append("discriminates-origin-rule")
    if np.any(want > 1.0 + 1e-9):
        tags.append("some-lag-above-1")
    return {"nontrivial": discr, "tags": tags}


def check_phase(case):
    ts = case["ts"]
    rel = np.array(ts, dtype=np.int64) - ts[0]
    A = case["amp"][None, ...] * np.exp(1j * case["phi"] * rel).reshape((-1,) + (1,) * case["amp"].ndim)
    t, c = _call(case, A, ts)
    want = np.cos(case["phi"] * rel)
    # conditioning: |a|^2 sums are all positive; exp/cos of arguments <= 140 rad: errors ~ 1e-14
    _compare(f"time_corr of a_i exp(i phi ts) ({case['rank']}, {case['spacing']}) vs cos(phi (ts - ts0))", c, want,
             atol=1e-11, rtol=0.0)
    T = len(ts)
    tags = [case["rank"], case["spacing"], f"T{T}", "phi<0" if case["phi"] < 0 else "phi>0"]
    return {"nontrivial": bool(T >= 3 and np.max(np.abs(want - 1.0)) > 1e-3), "tags": tags}


def describe(case):
    return {"rank": case["rank"], "complex": case["cplx"], "shape": list(case["A"].shape), "ts": case["ts"],
            "dt": case["dt"], "tensor": case["tkind"], "A[:2,0]": np.round(case["A"][:2, 0], 3).tolist()}


def describe_phase(case):
    return {"rank": case["rank"], "spacing": case["spacing"], "ts": case["ts"], "phi": case["phi"],
            "amp0": np.round(case["amp"][0], 3).tolist()}


FACETS = [
    Facet("even_spacing", series_case("even"), check_series, quick=1500, thorough=60000, describe=describe,
          shards_quick=3, rule="t0 + k*delta, T 1..8: mean over all T-k origins; non-trivial as in RULE"),
    Facet("uneven_spacing", series_case("uneven"), check_series, quick=1500, thorough=60000, describe=describe,
          shards_quick=3, rule="T 3..8 with >= 2 distinct successive differences: first frame only; non-trivial as in RULE"),
    Facet("analytic_phase", phase_case(), check_phase, quick=600, thorough=30000, describe=describe_phase,
          rule="a_i exp(i phi ts_k), complex amplitudes, scalar/vector/symmetric tensor, even and uneven spacing: "
               "closed form cos(phi (ts_k - ts_0)); non-trivial = T >= 3 and the cosine leaves 1 by > 1e-3"),
]

MANIFEST = {
    "text": ("dynamic.time_corr.time_correlation is compared with an independent einsum reference on generated series of "
             "shape (T,N), (T,N,d), (T,N,d,d), float64 and complex128, T 1..8: evenly spaced timesteps -> mean over all "
             "origins (even_spacing), unevenly spaced -> first frame only (uneven_spacing, incl. palindromic / one-outlier "
             "/ two-value difference patterns); time axis (ts - ts0)*dt at rtol 1e-12, lag-zero value exactly 1.0, CSV at "
             "%.8f; closed form cos(phi (ts - ts0)) for a_i exp(i phi ts) fixes the conjugation convention "
             "independently of the reference (analytic_phase)."),
    "note": ("Trusted base: numpy einsum, pbt/ref/tcorr.py. Tensor product = trace of A(later).conj(A(earlier)). "
             "The lag-zero normaliser is kept bounded away from 0 by construction (general tensors with cancelling "
             "tr(A conj A) are symmetrised). dtype float64/complex128 only."),
    "technique": "property-based testing (Hypothesis): reference-model differential + closed-form oracle",
}
