"""C03 — g(r): every total and partial column equals the normalised pair histogram.

Oracle: brute force over all pairs with the reference minimum image (`ref.geom.min_image`, contract of C02) and the
definition  g_ab(r_k) = V/(N_a N_b) <#ordered a-b pairs in bin k> / shell_k  (`ref.paircorr`).  Bin membership is
discontinuous, so the reference returns an interval [g_lo, g_hi] per entry: pairs within 1e-9 (relative to the
coordinate scale) of a bin edge, and pairs whose minimum image is tied at the half cell, may be counted on either
side.  The right edge of the last bin is inclusive (np.histogram), which the interval rule covers as well.

Preconditions imposed by the code under test (only such inputs are generated):
  * type ids exactly 1..K with every type present, same composition in all frames (selectors `countsum == ...`,
    gr.py L308-590; `typecount[k]` is indexed by position in np.unique of frame 0, L208); the ARRANGEMENT of the labels
    may differ from frame to frame (every loop reads snapshot.particle_type of its own frame)
  * same N and same box edge lengths in all frames                             (asserts in gr.__init__, L202-205)
  * N >= 2                                                                     (`binedge` is taken from the last pair loop)
  * int(L_min / (2 rdelta)) >= 1 bin                                           (np.histogram(bins=0) raises)
  * ppp has one entry per dimension                                            (broadcast in remove_pbc)

CLAUSES (statement + quantifier, clause -> deciding assertion [facets] -> populated class tags of evidence/C03.json)
  1  one to five species, ids 1..K      -> exact column set r, gr, gr11..grKK, cross terms [all]           K1 K2 K3 K4 K5
  2  more than five species: only total -> columns == [r, gr] and total inside the interval [ortho, tri,   K6 K7 K8
                                           selector_table K = 6, 7, sized facets K = 6]
  3  two or three dimensions            -> shell = pi(r_hi^2 - r_lo^2) | 4pi/3 (r_hi^3 - r_lo^3) [all]     d2 d3
  4  orthogonal or triclinic cell       -> min image by fractional rounding with the frame's own H; V =     ortho tri general
                                           |det H| [ortho, tri, sheared, halfbox; axis-permuted cells]     tilt-negative tilt-positive tilt-mixed-sign
                                                                                                           tilt-differs-between-frames
                                                                                                           axes-permuted-cell-not-lower-triangular
                                                                                                           all-batches-inside-cartesian-half-box
  5  any bin width                      -> every column inside [g_lo, g_hi] for widths giving 1 .. ~1000    width-frac width-nice width-exact width-dyadic
                                           bins [ortho, tri, exact_width, dyadic, ordinary, minimal,       width-typical bins-1 bins-2 bins-3..40 bins-41+
                                           count_boundary, deep]                                           bins-boundary-<n>
  6  int(L_min/(2 width)) bins, crisp   -> len(table) == int(L_min / (2 w)) in double precision             nbin-quotient-nominally-integer
                                           [all; exact_width, dyadic, representations aim at it]
  7  bins start at zero, r_k = centre   -> r == w (k + 1/2) (1e-9) [all]                                   (every case)
  8  any number of frames               -> frame average: counts / T [ortho, tri, sheared, deep,            frames1 frames2 frames3 frames4..8
                                           count_boundary], per-frame cell, per-frame labels, any          frames-boundary-<T> labels-per-frame
                                           TIMESTEP schedule                                               timesteps-repeated timesteps-decreasing
  9  each column = V/(N_a N_b) <ordered -> every partial column inside its interval, BOTH directions        all-partials-populated some-partial-empty
     a-b pairs in bin k> / shell_k         (lower and upper bound), all K(K+1)/2 + 1 columns [all]         single-particle-species in-range-pairs
                                                                                                           no-pair-in-range ambiguous-pairs half-cell-ties
 10  total = sum_ab c_a c_b g_ab        -> identity on the returned columns, 1e-9 [all, K = 2..5]          (every K2..K5 case)
 11  every pair in exactly one column   -> selector_table: one a-b pair -> one count in exactly gr{ab},    pair-same pair-cross order0 order1
                                           all 35 pairs x index order x host; clause 10 on random data
 12  periodicity masks                  -> reference wraps periodic axes only [all]                        mask-full mask-partial
 13  any positions (lattices, gases,    -> [ortho, tri, dyadic, ...]                                       kind-gas kind-cluster kind-lattice-* lattice-jittered
     clusters), N >= 2                                                                                     outside-box N2 N3-9 N10-40 N41+
 14  arbitrary compositions             -> N_a from the labels [all]                                       single-particle-species labels-sorted
                                                                                                           labels-last-single labels-first-single
 15  observe: returned DataFrame AND    -> CSV read back == returned frame at %.6f [all: half the cases]   csv
     the CSV written
 16  (implementation axis) counts per  -> dense_wide: >= 130 / >= 260 partners of ONE centre in ONE bin,     per-centre-bin-count-130+ / -260+
     bin beyond 127 / 255 / 32767          >= 32768 pairs in one bin; total and partial columns                per-centre-same-species-bin-count-*
                                                                                                           bin-total-count-32768+
Axes behind the clauses that were weak before this round and got a class now: particle number (was <= 40: size_boundary /
size_sweep / size_boundary_large, `size-boundary-<N>`), bins and frames at block boundaries (count_boundary), per-frame
labels (was absent), TIMESTEP schedules (was absent), K = 7, 8 in random data, histories on one object other than
getresults() twice (`history-*`: the method getresults() dispatches to, unary() on a multi-species object), tables kept
alive (retained), argument representations (representations: `rep-*`, incl. unsigned labels of the GSD reader, fix
ca331f6), documented defaults of ppp / rdelta / outputfile (ordinary: `rep-*-default`), axis-permuted cells, whole
batches inside the Cartesian half box (halfbox).
"""
from __future__ import annotations

import dataclasses
import itertools
import os

import numpy as np
from hypothesis import strategies as st

from ..gen import (cell_st, config_st, describe_config, fl, frac_config_st, frac_st, nice_float, ppp_st,
                   snapshot_from, types_st)
from ..harness import Facet, Violation, guarded_check
from ..ref import paircorr as pc
from ..util import arr, between, close, col, columns, require

import pandas as pd

from PyMatterSim.reader.reader_utils import Snapshots
from PyMatterSim.static.gr import gr as GR

RULE = ("generated trajectories: d {2,3} x cell {ortho unequal edges, LAMMPS triclinic with tilts of either sign, the same "
        "after an axis permutation (not lower triangular)} x any origin x K 1..8 species (ids 1..K all present, arbitrary "
        "composition) x N max(2,K)..40 x 1..3 frames (labels rearranged per frame, any TIMESTEP schedule) x {gas, "
        "exact/jittered lattice, cluster, particles outside the box} x bin widths giving 3..40 bins (plus widths that "
        "divide L_min/2 exactly) x all periodicity masks x histories on one object (getresults / dispatched method / "
        "unary); plus sheared trajectories (per-frame tilt, same edges), the everyday class (cubic box, N 16..40, widths "
        "0.01..0.2, documented defaults of ppp / rdelta / outputfile), minimal sizes (N = 2..3, one or two bins), N at "
        "block boundaries 31..257 (thorough: ..1025) and anywhere in 41..260 (..1030), bins 31..257 and frames 31..66 "
        "at block boundaries, value-equal argument representations (int64 cell / coordinates, int32 / int8 / float64 / "
        "uint8 / uint16 / uint32 labels, list / tuple / float / bool mask, numpy / int width), whole batches inside the "
        "Cartesian half box of a strongly tilted cell, dense-wide systems (>= 130 / 260 partners of one centre in one "
        "bin, >= 32768 pairs in one bin), and tables kept alive over interleaved evaluations.  non-trivial "
        "= at least two columns populated inside the histogram range (K in 2..5: two g columns with a non-zero entry; K "
        "= 1 or >= 6: the r and gr columns) and (K >= 2 or triclinic or partially periodic or N > 40)")
ASSUMPTIONS = [
    "minimum image = fractional rounding (contract of C02); pairs tied at the half cell may take either image",
    "pairs within 1e-9 x coordinate scale of a bin edge may be counted in either neighbouring bin (or outside the range)",
    "L_min is the smallest of the cell edge lengths hi-lo reported by the reader (diagonal of the h-matrix); the number "
    "of bins is the double-precision value of int(L_min / (2 width)) (every true-division order gives the same double)",
    "volume V = |det h| (= product of the edge lengths for LAMMPS cells and their axis permutations)",
    "type ids exactly 1..K, all present; N >= 2; same N, box edges and composition in all frames (the arrangement of "
    "the labels may change from frame to frame: N_a comes from frame 0, membership from each frame)",
    "unary() called directly on a multi-species object returns r and the total only (docs: 'only overall g(r)'); the "
    "method getresults() dispatches to returns the same table as getresults()",
    "a table handed out stays what it was when later evaluations run, and a caller overwriting a table it received "
    "does not change what the next evaluation returns",
    "value-equal representations accepted by the unchanged routine give the same table: int64 cell matrix / bounds / "
    "coordinates, labels of any integer dtype (signed or unsigned) or float64, mask as list / tuple / bool / float / "
    "int32 array, width as np.float64, np.float32 (dyadic value) or Python int; float32 coordinates are NOT generated "
    "(the subtraction would round at 1e-7, beyond the ambiguity band)",
]
MANIFEST = {
    "text": ("Differential test of static.gr.gr(...).getresults() against an independent brute-force pair histogram: "
             "exact column set for K = 1..8 species, number of bins and bin centres, every total and partial column "
             "inside the reference interval, total = sum_ab c_a c_b g_ab in every bin, CSV output equals the returned "
             "frame to 6 decimals; facets ortho / tri (incl. axis-permuted cells, per-frame labels, TIMESTEP schedules, "
             "histories of getresults / dispatched method / unary on one object) / K in {4,5} / exact-division bin "
             "widths / dyadic grids / sheared multi-frame trajectories (per-frame cell) / everyday cubic inputs with the "
             "documented defaults / minimal sizes / particle numbers at block boundaries (31..257 quick, ..1025 "
             "thorough; random facet + exhaustive sweep) / bins and frames at block boundaries / value-equal argument "
             "representations (incl. unsigned labels) / whole batches inside the Cartesian half box of a tilted cell / "
             "dense-wide systems (per-centre per-bin counts beyond 127 / 255, bin totals beyond 32767) / tables kept alive over interleaved evaluations, plus an exhaustive species-pair -> column table for K = "
             "1..5 (both index orders, 2D and 3D)."),
    "note": ("Trusted base: pbt/ref/geom.py (fractional-rounding minimum image) and pbt/ref/paircorr.py (numpy only). "
             "Bin-edge and half-cell-tie ambiguity is resolved by an interval oracle, so the half-open/closed bin "
             "convention itself is not asserted.  Quick tier: N <= 260, <= 66 frames, <= ~1000 bins; thorough tier: N "
             "<= 1030, 8 frames x 400 bins x 260 particles.  Positions of the large configurations come from numpy "
             "generators seeded by Hypothesis."),
    "technique": ("property-based testing (Hypothesis): reference-model differential with interval oracle, one "
                  "metamorphic identity (composition-weighted sum of partials), call histories with retained results, "
                  "two exhaustive finite enumerations (species-pair table, boundary sizes)"),
}


# ----------------------------------------------------------------------------- generators


@st.composite
def case_st(draw, cell_kind="any", kset=(1, 2, 3, 4, 5, 6), nmin=2, nmax=40, frames=(1, 3), widths=("frac", "frac", "nice"),
            allow_open=True):
    K = draw(st.sampled_from(list(kset)))
    case = draw(config_st(cell_kind=cell_kind, nmin=max(nmin, K), nmax=nmax, K=K, frames=frames,
                          allow_open=allow_open))
    lmin = float(np.diag(case["cell"]["H"]).min())
    mode = draw(st.sampled_from(list(widths)))
    if mode == "frac":
        nb = draw(st.integers(3, 40))
        u = draw(fl(0.02, 0.98))
        rdelta = lmin / (2.0 * (nb + u))
    elif mode == "nice":
        rdelta = draw(nice_float(lmin / 80.0, lmin / 6.5))
    else:  # "exact": the quotient L_min / (2 width) is nominally an integer
        nb = draw(st.integers(3, 40))
        rdelta = lmin / (2.0 * nb)
    case["rdelta"] = float(rdelta)
    case["wmode"] = mode
    case["csv"] = draw(st.booleans())
    T = len(case["pos"])
    if T >= 2:
        if 2 <= K <= 5 and draw(st.integers(0, 1)):
            case["ftypes"] = draw(frame_labels_st(case["types"], T))
        sched = draw(st.sampled_from(["increasing", "increasing", "repeated", "decreasing"]))
        if sched == "repeated":          # the same TIMESTEP written for every frame
            case["timesteps"] = [case["timesteps"][0]] * T
        elif sched == "decreasing":
            case["timesteps"] = case["timesteps"][::-1]
        case["sched"] = sched
    if draw(st.integers(0, 3)) == 0:
        case["calls"] = draw(calls_st(K))
    if case["cell"]["kind"] == "tri" and draw(st.integers(0, 3)) == 0:
        d = case["d"]
        perm = draw(st.sampled_from([p_ for p_ in itertools.permutations(range(d)) if list(p_) != list(range(d))]))
        permute_axes(case, perm)
    return case


@st.composite
def frame_labels_st(draw, types, T):
    """Per-frame species labels of a swap-Monte-Carlo / `fix atom/swap` trajectory: every frame carries its own
    arrangement of the SAME multiset of labels (gr reads snapshot.particle_type of each frame; only the counts N_a come
    from frame 0)."""
    types = np.asarray(types)
    N = len(types)
    out = [types]
    for _ in range(T - 1):
        how = draw(st.sampled_from(["shuffle", "swap", "swap"]))
        t = out[-1].copy()
        if how == "shuffle":
            t = types[list(draw(st.permutations(range(N))))]
        else:
            # exchange one particle of two different species (one accepted swap move)
            a = int(draw(st.integers(0, N - 1)))
            others = np.nonzero(t != t[a])[0]
            if len(others):
                b = int(others[draw(st.integers(0, len(others) - 1))])
                t[a], t[b] = t[b], t[a]
        out.append(t)
    return out


METHOD = {1: "unary", 2: "binary", 3: "ternary", 4: "quarternary", 5: "quinary"}


def calls_st(K):
    """A short history on ONE gr object: getresults() / the method getresults() dispatches to / unary() (documented:
    'only overall g(r)') in different orders; every result is compared with the oracle."""
    hist = [("getresults", "getresults"), ("unary", "getresults"), ("getresults", "unary", "getresults")]
    if K in METHOD:
        hist += [("getresults", "method"), ("method", "getresults"), ("method", "unary", "method")]
    return st.sampled_from(hist).map(list)


def permute_axes(case, perm):
    """The same physical system with the Cartesian axes (and the cell vectors) relabelled: H' = P H P^T is no longer
    lower triangular (cell kind 'general'), boxlength = diag(H') and the volume prod(boxlength) = |det H'| as before."""
    perm = list(perm)
    c = case["cell"]
    case["cell"] = dict(c, H=c["H"][np.ix_(perm, perm)].copy(), lo=np.asarray(c["lo"])[perm].copy(), kind="general")
    case["pos"] = [np.ascontiguousarray(p[:, perm]) for p in case["pos"]]
    case["ppp"] = np.asarray(case["ppp"])[perm].copy()
    case["perm"] = perm
    return case


@st.composite
def dyadic_case_st(draw):
    """Power-of-two boxes, particles on a 1/16 grid, width a power of two: every float operation on the way to the
    number of bins is exact, so int(L_min/(2 width)) is demanded crisply; many pairs sit exactly on bin edges and at
    the half cell (ambiguity machinery under load)."""
    d = draw(st.sampled_from([2, 3]))
    L = np.array([float(2 ** draw(st.integers(1, 4))) for _ in range(d)])
    K = draw(st.integers(1, 6))
    N = draw(st.integers(max(2, K), 24))
    T = draw(st.integers(1, 2))
    pos = []
    for _ in range(T):
        # distinct grid sites (no coincident particles) by construction
        sites = draw(st.lists(st.integers(0, 16 ** d - 1), min_size=N, max_size=N, unique=True))
        g = np.array([[(s // 16 ** a) % 16 for a in range(d)] for s in sites], dtype=float)
        pos.append(g / 16.0 * L)
    lmin = L.min()
    rdelta = lmin / 2.0 / float(2 ** draw(st.integers(2, 5)))
    cell = {"d": d, "kind": "ortho", "H": np.diag(L), "lo": np.zeros(d), "origin": "zero"}
    return {"d": d, "cell": cell, "pos": pos, "types": draw(types_st(N, K)), "ppp": draw(ppp_st(d)), "K": K,
            "kind": "dyadic-grid", "timesteps": list(range(T)), "outside": False, "rdelta": float(rdelta),
            "wmode": "dyadic", "csv": draw(st.booleans())}



@st.composite
def sheared_case_st(draw):
    """Multi-frame triclinic trajectory whose TILT factors differ from frame to frame while the edge lengths (and hence
    boxlength, the only thing gr asserts to be constant) stay the same.  Frame k is built as lo + f_k . H_k and carries
    its own hmatrix / bounds; the oracle reduces frame k with H_k."""
    d = draw(st.sampled_from([2, 3]))
    K = draw(st.sampled_from([1, 2, 2, 3, 3, 4, 5, 6]))
    T = draw(st.integers(2, 3))
    base = draw(cell_st(d, "tri", lmin=1.0, lmax=30.0))
    L = np.diag(base["H"]).copy()
    cells = [base]
    for _ in range(T - 1):
        H = np.diag(L)
        def tilt(edge):
            return draw(st.one_of(st.just(0.0), nice_float(-0.5, 0.5))) * edge
        H[1, 0] = tilt(L[0])
        if d == 3:
            H[2, 0] = tilt(L[0])
            H[2, 1] = tilt(L[1])
        if np.array_equal(H, base["H"]):
            H[1, 0] = -base["H"][1, 0] if base["H"][1, 0] else 0.3 * L[0]
        cells.append(dict(base, H=H))
    f0, kind = draw(frac_config_st(d, nmin=max(2, K), nmax=32, exact_lattice=False))
    N = len(f0)
    fr = [f0] + [draw(frac_st(N, d)) if draw(st.booleans()) else f0 for _ in range(T - 1)]
    ppp = draw(ppp_st(d))
    offs = np.zeros((N, d))
    if draw(st.booleans()):
        from hypothesis.extra import numpy as hnp
        offs = draw(hnp.arrays(np.int64, (N, d), elements=st.integers(-1, 1))).astype(float) * ppp
    pos = [c["lo"] + (f + offs) @ c["H"] for c, f in zip(cells, fr)]
    lmin = float(L.min())
    rdelta = lmin / (2.0 * (draw(st.integers(3, 40)) + draw(fl(0.02, 0.98))))
    same_f = all(f is f0 for f in fr)
    out = {"d": d, "cell": cells[0], "cells": cells, "pos": pos, "types": draw(types_st(N, K)), "ppp": ppp, "K": K,
           "kind": kind + ("-affine" if same_f else ""), "timesteps": [100 * k for k in range(T)],
           "outside": bool(np.any(offs)), "rdelta": float(rdelta), "wmode": "frac", "csv": draw(st.booleans()),
           "twice": True}
    if 2 <= K <= 5 and draw(st.integers(0, 2)) == 0:
        out["ftypes"] = draw(frame_labels_st(out["types"], T))
    return out


@st.composite
def ordinary_case_st(draw):
    """The everyday input, as its own class: cubic (or cubic-edged, slightly tilted) box at the origin, 16..40 particles
    inside the box, 1..3 species, typical bin widths (0.01 .. 0.1 -> tens to a thousand bins), usually fully periodic."""
    d = draw(st.sampled_from([2, 3]))
    K = draw(st.sampled_from([1, 2, 2, 3]))
    shape = draw(st.sampled_from(["cubic", "cubic", "cubic-tilted"]))
    L0 = draw(st.one_of(st.integers(4, 20).map(float), nice_float(4.0, 20.0)))
    H = np.diag([L0] * d)
    if shape == "cubic-tilted":
        H[1, 0] = draw(st.sampled_from([-0.3, -0.1, 0.05, 0.1, 0.25])) * L0
        if d == 3 and draw(st.booleans()):
            H[2, 1] = draw(st.sampled_from([-0.2, 0.1])) * L0
    cell = {"d": d, "kind": "ortho" if shape == "cubic" else "tri", "H": H, "lo": np.zeros(d), "origin": "zero"}
    T = draw(st.integers(1, 2))
    f0, kind = draw(frac_config_st(d, nmin=16, nmax=40, exact_lattice=(shape == "cubic")))
    N = len(f0)
    fr = [f0] + [draw(frac_st(N, d)) for _ in range(T - 1)]
    masks = [np.array(m_, dtype=int) for m_ in itertools.product([0, 1], repeat=d) if not all(m_)]
    ppp = np.ones(d, dtype=int) if draw(st.integers(0, 2)) else draw(st.sampled_from(masks))
    rdelta = draw(st.sampled_from([0.01, 0.01, 0.02, 0.05, 0.1, 0.1, 0.2]))
    rep = {}
    if d == 3 and np.all(ppp) and draw(st.booleans()):
        rep["ppp"] = "default"               # gr(snapshots, rdelta=...): the documented default mask
    if rdelta == 0.01 and draw(st.sampled_from([True, True, False])):
        rep["rdelta"] = "default"            # gr(snapshots, ppp=...): the documented default width
    if draw(st.booleans()):
        rep["outputfile"] = "default"        # keyword omitted instead of None
    return {"d": d, "cell": cell, "pos": [f @ H for f in fr], "types": draw(types_st(N, K)), "ppp": ppp, "K": K,
            "kind": kind, "timesteps": [1000 * k for k in range(T)], "outside": False, "rdelta": float(rdelta),
            "wmode": "typical", "csv": draw(st.booleans()), "shape": shape, "rep": rep}


@st.composite
def minimal_case_st(draw):
    """Smallest sizes the statement still defines: N = 2 or 3 (so some species has a single particle whenever K >= 2),
    one or two histogram bins, 1..2 frames."""
    N = draw(st.sampled_from([2, 2, 3]))
    K = draw(st.integers(1, N))
    case = draw(config_st(nmin=N, nmax=N, K=K, frames=(1, 2), kinds=("gas",), lmin=1.0, lmax=20.0))
    lmin = float(np.diag(case["cell"]["H"]).min())
    nb = draw(st.sampled_from([1, 1, 2]))
    case["rdelta"] = float(lmin / (2.0 * (nb + draw(fl(0.02, 0.98)))))
    case["wmode"] = f"{nb}-bin"
    case["csv"] = draw(st.booleans())
    # bring the pair(s) into range in about half of the cases: second particle close to the first
    if draw(st.booleans()):
        H = case["cell"]["H"]
        step = draw(fl(0.05, 0.9)) * case["rdelta"] * nb
        for p in case["pos"]:
            e = np.zeros(case["d"])
            e[draw(st.integers(0, case["d"] - 1))] = 1.0
            p[1] = p[0] + step * e
        case["kind"] = "close-pair"
    return case


# ----------------------------------------------------------------------------- sizes at block boundaries

BLOCKS = (32, 50, 64, 100, 128, 200, 256, 500, 512, 1000, 1024)


def boundary_sizes(lo, hi, blocks=BLOCKS):
    """Particle numbers around typical block / tile / chunk sizes B: B-1, B, B+1, 2B-1, 2B, 2B+1, B + B//3."""
    out = set()
    for B in blocks:
        out.update(n for n in (B - 1, B, B + 1, 2 * B - 1, 2 * B, 2 * B + 1, B + B // 3) if lo <= n <= hi)
    return sorted(out)


SIZES_QUICK = boundary_sizes(31, 260)        # 31 .. 257 (26 values)
SIZES_THOROUGH = boundary_sizes(261, 1030)   # 266 .. 1025


def random_labels(rng, N, K, how):
    """Labels 1..K, every species present.  how: 'random' | 'sorted' (a file sorted by type: every late batch of
    partners is of one species) | 'last-single' / 'first-single' (species K has exactly one particle, at the end /
    the start of the arrays)."""
    if how in ("last-single", "first-single") and K >= 2 and N > K:
        rest = np.concatenate([np.arange(1, K), rng.integers(1, K, N - K)]) if K > 1 else np.ones(N - 1, dtype=int)
        rest = rng.permutation(rest)
        t = np.concatenate([rest, [K]]) if how == "last-single" else np.concatenate([[K], rest])
        return t.astype(int)
    t = np.concatenate([np.arange(1, K + 1), rng.integers(1, K + 1, N - K)]).astype(int)
    return np.sort(t) if how == "sorted" else rng.permutation(t)


def random_frames(rng, N, cell, T, kind, ppp):
    """T configurations of N particles from a numpy generator (seed drawn by Hypothesis): ideal gas or clusters, half
    of the time with whole cell vectors added along periodic axes (particles outside the box)."""
    d = cell["d"]
    out = []
    for _ in range(T):
        if kind == "cluster":
            nc = int(rng.integers(1, 4))
            f = (rng.random((nc, d))[rng.integers(0, nc, N)] + 0.08 * (2 * rng.random((N, d)) - 1)) % 1.0
        else:
            f = rng.random((N, d))
        out.append(f)
    offs = np.zeros((N, d))
    if rng.integers(0, 2):
        offs = rng.integers(-1, 2, (N, d)).astype(float) * np.asarray(ppp)
    return [cell["lo"] + (f + offs) @ cell["H"] for f in out], bool(np.any(offs))


@st.composite
def sized_case_st(draw, sizes, generic, frames=(1, 1, 1, 2), bins=(2, 8), kset=(1, 2, 3, 4, 5, 5, 6)):
    """Larger systems whose particle number sits at a block boundary (4 of 5 cases: one of `sizes`) or anywhere in
    `generic`.  Positions and labels come from numpy generators seeded by Hypothesis (N x d element-wise draws are too
    slow at these sizes); everything discrete is drawn by Hypothesis.  Few bins, few frames: the cost is the library's
    O(N^2) pair loop."""
    N = draw(st.sampled_from(list(sizes))) if draw(st.integers(0, 4)) else draw(st.integers(*generic))
    d = draw(st.sampled_from([2, 3]))
    K = draw(st.sampled_from(list(kset)))
    T = draw(st.sampled_from(list(frames)))
    cell = draw(cell_st(d, "any", lmin=2.0, lmax=30.0))
    ppp = draw(ppp_st(d))
    kind = draw(st.sampled_from(["gas", "gas", "cluster"]))
    how = draw(st.sampled_from(["random", "random", "sorted", "last-single", "first-single"]))
    per_frame = draw(st.booleans())
    seed = draw(st.integers(0, 2 ** 32 - 1))
    nb = draw(st.integers(*bins))
    lmin = float(np.diag(cell["H"]).min())
    rdelta = lmin / (2.0 * (nb + draw(fl(0.02, 0.98))))
    return sized_case(N, d, K, T, cell, ppp, kind, how, per_frame, seed, rdelta, draw(st.booleans()))


def sized_case(N, d, K, T, cell, ppp, kind, how, per_frame, seed, rdelta, csv):
    rng = np.random.default_rng(seed)
    pos, outside = random_frames(rng, N, cell, T, kind, ppp)
    types = random_labels(rng, N, K, how)
    case = {"d": d, "cell": cell, "pos": pos, "types": types, "ppp": np.asarray(ppp, dtype=int), "K": K,
            "kind": kind, "timesteps": [10 * k for k in range(T)], "outside": outside, "rdelta": float(rdelta),
            "wmode": "frac", "csv": bool(csv), "labels": how, "seed": int(seed)}
    if per_frame and T >= 2 and 2 <= K <= 5:
        case["ftypes"] = [types] + [rng.permutation(types) for _ in range(T - 1)]
    return case


COUNTS = boundary_sizes(31, 260, blocks=(32, 50, 64, 100, 128, 256))


@st.composite
def count_boundary_case_st(draw, counts=COUNTS, tmax=70):
    """The other size axes at block boundaries: number of histogram bins (31 .. 257) or number of frames (31 .. tmax)
    with few particles, so that the cost stays small."""
    axis = draw(st.sampled_from(["bins", "bins", "frames"]))
    d = draw(st.sampled_from([2, 3]))
    K = draw(st.sampled_from([1, 2, 3, 4, 5, 6]))
    cell = draw(cell_st(d, "any", lmin=2.0, lmax=30.0))
    ppp = draw(ppp_st(d))
    how = draw(st.sampled_from(["random", "sorted"]))
    seed = draw(st.integers(0, 2 ** 32 - 1))
    lmin = float(np.diag(cell["H"]).min())
    if axis == "bins":
        nb = draw(st.sampled_from(list(counts)))
        T = draw(st.integers(1, 2))
        N = draw(st.integers(max(6, K), 40))
    else:
        nb = draw(st.integers(3, 12))
        T = draw(st.sampled_from([t for t in counts if t <= tmax]))
        N = draw(st.integers(max(3, K), 8))
    rdelta = lmin / (2.0 * (nb + draw(fl(0.05, 0.95))))
    case = sized_case(N, d, K, T, cell, ppp, draw(st.sampled_from(["gas", "cluster"])), how, draw(st.booleans()), seed,
                      rdelta, draw(st.booleans()))
    case["count_axis"] = axis
    return case


def size_tag(N):
    near = [B for B in BLOCKS if N in (B - 1, B, B + 1, 2 * B - 1, 2 * B, 2 * B + 1, B + B // 3)]
    return f"size-boundary-{N}" if near else "size-generic-" + ("41..130" if N <= 130 else "131..260" if N <= 260 else "261+")


def size_sweep(tier):
    """Finite enumeration: EVERY boundary size of the tier once (K, dimension, cell kind, mask and label arrangement
    cycle with the index, so each K = 1..6 meets several sizes), one frame, 3..6 bins."""
    sizes = SIZES_QUICK if tier == "quick" else SIZES_QUICK + SIZES_THOROUGH
    for idx, N in enumerate(sizes):
        K = 1 + idx % 6
        d = 2 + (idx // 2) % 2
        tri = (idx // 3) % 2 == 1
        L = np.array([7.0, 9.5, 8.25][:d]) + 0.5 * (idx % 5)
        H = np.diag(L)
        if tri:
            H[1, 0] = (0.3 if idx % 2 else -0.4) * L[0]
            if d == 3:
                H[2, 1] = 0.2 * L[1]
        cell = {"d": d, "kind": "tri" if tri else "ortho", "H": H, "lo": np.zeros(d), "origin": "zero"}
        ppp = np.ones(d, dtype=int)
        if idx % 4 == 3:
            ppp[idx % d] = 0
        how = ["random", "sorted", "last-single", "first-single"][idx % 4]
        case = sized_case(N, d, K, 1, cell, ppp, "gas", how, False, 1000 + N, float(L.min()) / (2.0 * (3 + idx % 4) + 0.6),
                          False)
        try:
            info = guarded_check(check, case)
        except Violation as v:
            v.case = case
            raise
        yield case, info


# ----------------------------------------------------------------------------- dense systems, wide bins


def dense_geometry(draw, d):
    """Cell, positions (one frame), bin width of a dense-wide configuration: enough particles and bins wide enough that
    ONE bin of ONE centre particle holds >= 130 (>= 260) partners.  'one-cluster': N particles inside a ball smaller
    than half a bin width (every pair in bin 0; N - 1 partners for the first centre); 'gas-wide': ideal gas in a box of
    side ~10 with two bins (the outer shell holds 46 % (3D) / 59 % (2D) of the particles)."""
    kind = draw(st.sampled_from(["one-cluster", "one-cluster", "gas-wide"]))
    tri = draw(st.booleans())
    L = np.array([draw(st.sampled_from([10.0, 10.0, 11.5, 12.0])) for _ in range(d)])
    H = np.diag(L)
    if tri:
        H[1, 0] = draw(st.sampled_from([-0.3, 0.2, 0.4])) * L[0]
    cell = {"d": d, "kind": "tri" if tri else "ortho", "H": H, "lo": np.zeros(d), "origin": "zero"}
    rng = np.random.default_rng(draw(st.integers(0, 2 ** 32 - 1)))
    lmin = float(L.min())
    if kind == "one-cluster":
        N = draw(st.sampled_from([140, 200, 270, 300, 330]))
        rdelta = float(draw(st.sampled_from([1.0, 2.0, 2.5])))
        u = rng.normal(size=(N, d))
        u /= np.linalg.norm(u, axis=1)[:, None]
        ball = u * (0.2 * rdelta * rng.random(N) ** (1.0 / d))[:, None]        # radius 0.2 w: every distance < 0.4 w
        pos = rng.random(d) @ H + ball
    else:
        N = draw(st.sampled_from([230, 450] if d == 2 else [300, 600]))
        rdelta = lmin / (2.0 * (2 + draw(fl(0.02, 0.2))))
        pos = rng.random((N, d)) @ H
    return cell, pos, float(rdelta), kind, N, rng


@st.composite
def dense_case_st(draw):
    d = draw(st.sampled_from([2, 3]))
    K = draw(st.sampled_from([1, 2, 2, 3, 5, 6]))
    cell, pos, rdelta, kind, N, rng = dense_geometry(draw, d)
    how = draw(st.sampled_from(["random", "sorted"]))
    types = random_labels(rng, N, K, how)
    if K >= 2 and draw(st.booleans()):
        # one large species, so that a PARTIAL column meets the large per-centre counts as well
        types = np.where(rng.random(N) < 0.85, 1, types)
        types[:K] = np.arange(1, K + 1)
        if how == "sorted":
            types = np.sort(types)
    return {"d": d, "cell": cell, "pos": [pos], "types": types.astype(int), "ppp": np.ones(d, dtype=int), "K": K,
            "kind": kind, "timesteps": [0], "outside": False, "rdelta": rdelta, "wmode": "wide", "csv": False,
            "labels": how, "dense": True}


def per_centre_counts(case, weights=None):
    """Largest number of partners j > i of ONE centre particle i inside ONE bin (what a narrow per-batch accumulator must
    hold), the same for same-species partners, and the largest total count of a bin (frame 0, definite pairs)."""
    pos = np.asarray(case["pos"][0], dtype=float)
    H = case["cell"]["H"]
    nbin = int(float(np.diag(H).min()) / (2.0 * case["rdelta"]))
    ii, jj, C, definite, _ = pc.pair_outcomes(pos, H, case["ppp"], case["rdelta"], nbin, _band(case))
    inr = definite & C[:, :nbin].any(axis=1)
    k = C[:, :nbin].argmax(axis=1)
    N = len(pos)
    w = np.ones(len(ii)) if weights is None else np.asarray(weights, dtype=float)
    cnt = np.zeros((N, nbin))
    np.add.at(cnt, (ii[inr], k[inr]), w[inr])
    t = np.asarray(case["types"])
    same = inr & (t[ii] == t[jj])
    cs = np.zeros((N, nbin))
    np.add.at(cs, (ii[same], k[same]), w[same])
    return int(cnt.max(initial=0)), int(cs.max(initial=0)), int(cnt.sum(axis=0).max(initial=0))


# ----------------------------------------------------------------------------- argument representations


@st.composite
def rep_case_st(draw):
    """Integer-valued geometry so that the SAME values can be passed in other representations: cell matrix / box
    lengths / bounds as int64 (a hand-built `np.diag([10, 12, 9])`), coordinates as int64, labels as int32 / int8 /
    float64 / uint32 / uint16 / uint8 (int64 is what the LAMMPS reader gives, uint32 what the GSD reader gives: typeid + 1;
    unsigned labels wrapped in |t_j - t_i| before fix ca331f6), the mask as list / tuple / float / bool / int32, the bin width as
    np.float64, np.float32 (a dyadic value) or a Python int.  All of them give the same table on the unchanged code."""
    d = draw(st.sampled_from([2, 3]))
    K = draw(st.sampled_from([1, 2, 3, 3, 4, 5, 6]))
    tri = draw(st.booleans())
    L = np.array([float(draw(st.integers(3, 16))) for _ in range(d)])
    H = np.diag(L)
    if tri:
        def tilt(edge):
            return float(draw(st.integers(-int(edge // 2), int(edge // 2))))
        H[1, 0] = tilt(L[0])
        if d == 3:
            H[2, 0] = tilt(L[0])
            H[2, 1] = tilt(L[1])
        if not np.any(H - np.diag(L)):
            H[1, 0] = 1.0
    lo = np.array([float(draw(st.integers(-10, 10))) for _ in range(d)]) if draw(st.booleans()) else np.zeros(d)
    cell = {"d": d, "kind": "tri" if tri else "ortho", "H": H, "lo": lo, "origin": "zero" if not lo.any() else "arbitrary"}
    N = draw(st.integers(max(4, K), 24))
    T = draw(st.integers(1, 2))
    posint = draw(st.booleans())
    step = 1 if posint else 4           # integer or quarter-integer coordinates
    pos = []
    for _ in range(T):
        sites = draw(st.lists(st.tuples(*[st.integers(0, int(L[a]) * step - 1) for a in range(d)]), min_size=N, max_size=N,
                              unique=True))
        pos.append(lo + np.array(sites, dtype=float) / step)
    lmin = float(L.min())
    wkind = draw(st.sampled_from(["float", "float", "np.float64", "np.float32", "int"]))
    if wkind == "int":
        rdelta = float(draw(st.integers(1, max(1, int(lmin // 2)))))
    elif wkind == "np.float32":
        rdelta = draw(st.integers(3, 24)) / 16.0
        if lmin / (2.0 * rdelta) < 1.0:
            rdelta = 0.25
    else:
        rdelta = lmin / (2.0 * (draw(st.integers(2, 20)) + draw(fl(0.02, 0.98))))
    rep = {"cell": draw(st.sampled_from(["int64", "int64", "float64"])),
           "pos": "int64" if posint and draw(st.booleans()) else "float64",
           "types": draw(st.sampled_from(["int64", "int32", "int8", "float64", "uint32", "uint32", "uint16", "uint8"])),
           "ppp": draw(st.sampled_from(["int64", "int32", "float64", "bool", "list", "tuple"])),
           "rdelta": wkind}
    return {"d": d, "cell": cell, "pos": pos, "types": draw(types_st(N, K)), "ppp": draw(ppp_st(d)), "K": K,
            "kind": "integer-grid" if posint else "quarter-grid", "timesteps": list(range(T)), "outside": False,
            "rdelta": float(rdelta), "wmode": "rep-" + wkind, "csv": draw(st.booleans()), "rep": rep}


# ----------------------------------------------------------------------------- whole batches in a critical region


@st.composite
def halfbox_case_st(draw):
    """Every particle inside one Cartesian region smaller than half the edge lengths of a strongly tilted cell: ALL
    displacements of ALL batches are short in every Cartesian component (|dx_a| < L_a/2), yet the fractional
    coordinates of many of them exceed 1/2, so their minimum image is another one.  A short-cut that looks at the
    largest Cartesian component of the whole batch ('nothing to wrap') only fires when no member of the batch is long;
    a generator that spreads particles over the cell never produces such a batch."""
    d = draw(st.sampled_from([2, 3]))
    K = draw(st.sampled_from([1, 1, 2, 3, 4, 5, 6]))
    L = np.array([draw(nice_float(2.0, 20.0)) for _ in range(d)])
    H = np.diag(L)
    big = st.sampled_from([-0.5, -0.45, -0.4, -0.3, 0.3, 0.4, 0.45, 0.5])
    H[1, 0] = draw(big) * L[0]
    if d == 3:
        H[2, 0] = draw(st.one_of(st.just(0.0), big)) * L[0]
        H[2, 1] = draw(st.one_of(st.just(0.0), big)) * L[1]
    lo = np.zeros(d) if draw(st.booleans()) else np.array([draw(nice_float(-20.0, 20.0)) for _ in range(d)])
    cell = {"d": d, "kind": "tri", "H": H, "lo": lo, "origin": "zero" if not lo.any() else "arbitrary"}
    N = draw(st.integers(max(4, K), 28))
    T = draw(st.integers(1, 2))
    corner = np.array([draw(fl(0.0, 1.0)) for _ in range(d)]) * L
    pos = [lo + corner + draw(frac_st(N, d)) * (0.49 * L) for _ in range(T)]
    # periodic at least along the first axis (the one that receives the tilt components)
    masks = [np.array(m_, dtype=int) for m_ in itertools.product([0, 1], repeat=d) if m_[0]]
    ppp = np.ones(d, dtype=int) if draw(st.booleans()) else draw(st.sampled_from(masks))
    lmin = float(L.min())
    rdelta = lmin / (2.0 * (draw(st.integers(3, 30)) + draw(fl(0.02, 0.98))))
    return {"d": d, "cell": cell, "pos": pos, "types": draw(types_st(N, K)), "ppp": ppp, "K": K, "kind": "cartesian-half-box",
            "timesteps": [5 * k for k in range(T)], "outside": False, "rdelta": float(rdelta), "wmode": "frac",
            "csv": False, "halfbox": True}


# ----------------------------------------------------------------------------- results kept alive


@st.composite
def retained_case_st(draw):
    """Several gr objects with the SAME key parameters (K, number of bins, N, cell) and different data, plus one with
    other parameters, evaluated in an interleaved order; every table handed out stays alive until the end."""
    a = draw(case_st("any", kset=(1, 2, 2, 3, 3, 4, 5, 6), nmin=4, nmax=16, frames=(1, 2)))
    a["csv"] = False
    a.pop("calls", None)
    N, d, K = len(a["types"]), a["d"], a["K"]
    T = len(a["pos"])
    cellA = a["cell"]
    b = dict(a)
    b["pos"] = [cellA["lo"] + draw(frac_st(N, d)) @ cellA["H"] for _ in range(T)]
    b["types"] = draw(types_st(N, K))
    b.pop("ftypes", None)
    b["outside"] = False
    c = draw(case_st("any", kset=(1, 2, 3, 4, 5), nmin=4, nmax=12, frames=(1, 1)))
    c["csv"] = False
    c.pop("calls", None)
    order = draw(st.lists(st.sampled_from([0, 1, 2, 0, 1]), min_size=3, max_size=6))
    if 0 not in order:
        order.append(0)
    if 1 not in order:
        order.insert(1, 1)
    out = dict(a)
    out["subs"] = [a, b, c]
    out["order"] = [int(k) for k in order]
    out["scribble"] = draw(st.booleans())
    out["kind"] = "retained"
    return out


# ----------------------------------------------------------------------------- the check


def cells_of(case):
    """One cell dict per frame (sheared trajectories carry their own list)."""
    return case["cells"] if case.get("cells") else [case["cell"]] * len(case["pos"])


def _band(case):
    scale = max(1.0, max(float(np.abs(c["H"]).max()) for c in cells_of(case)),
                max(float(np.abs(p).max()) for p in case["pos"]))
    return pc.BAND_REL * scale


def labels_of(case):
    """One label array per frame (per-frame labels when the case carries them)."""
    return case["ftypes"] if case.get("ftypes") else [case["types"]] * len(case["pos"])


def _exact(x, dtype, what):
    y = np.asarray(x).astype(dtype)
    if not np.array_equal(y.astype(float), np.asarray(x, dtype=float)):
        raise ValueError(f"{what} is not exactly representable as {dtype}")      # harness error: generator bug
    return y


def represent(snap, rep):
    """The same snapshot with some arrays in another, value-equal representation."""
    kw = {}
    if rep.get("types", "int64") != "int64":
        kw["particle_type"] = _exact(snap.particle_type, rep["types"], "labels")
    if rep.get("cell") == "int64":
        kw["hmatrix"] = _exact(snap.hmatrix, np.int64, "hmatrix")
        kw["boxlength"] = _exact(snap.boxlength, np.int64, "boxlength")
        kw["boxbounds"] = _exact(snap.boxbounds, np.int64, "boxbounds")
        if snap.realbounds is not None:
            kw["realbounds"] = _exact(snap.realbounds, np.int64, "realbounds")
    if rep.get("pos") == "int64":
        kw["positions"] = _exact(snap.positions, np.int64, "positions")
    return dataclasses.replace(snap, **kw) if kw else snap


def build_snapshots(case):
    rep = case.get("rep")
    snaps = [snapshot_from(c, p, t, ts) for c, p, t, ts in zip(cells_of(case), case["pos"], labels_of(case),
                                                               case["timesteps"])]
    if rep:
        snaps = [represent(s_, rep) for s_ in snaps]
    return Snapshots(nsnapshots=len(snaps), snapshots=snaps)


def mask_arg(case):
    p = [int(x) for x in case["ppp"]]
    how = (case.get("rep") or {}).get("ppp", "int64")
    if how == "list":
        return list(p)
    if how == "tuple":
        return tuple(p)
    return np.array(p, dtype={"int64": np.int64, "int32": np.int32, "float64": np.float64, "bool": bool}[how])


def width_arg(case):
    w = case["rdelta"]
    how = (case.get("rep") or {}).get("rdelta", "float")
    if how == "np.float64":
        return np.float64(w)
    if how == "np.float32":
        if float(np.float32(w)) != w:
            raise ValueError("bin width not representable in float32")
        return np.float32(w)
    if how == "int":
        if int(w) != w:
            raise ValueError("bin width not an integer")
        return int(w)
    return float(w)


def make_gr(case, outputfile=None):
    rep = case.get("rep") or {}
    kw = {}
    if rep.get("ppp") == "default":          # documented default np.array([1, 1, 1]): 3D, fully periodic
        if case["d"] != 3 or not np.all(case["ppp"]):
            raise ValueError("default mask only for fully periodic 3D cases")
    else:
        kw["ppp"] = mask_arg(case)
    if rep.get("rdelta") == "default":       # documented default 0.01
        if case["rdelta"] != 0.01:
            raise ValueError("default width is 0.01")
    else:
        kw["rdelta"] = width_arg(case)
    if outputfile is not None or not rep.get("outputfile") == "default":
        kw["outputfile"] = outputfile
    return GR(build_snapshots(case), **kw)


def run_gr(case, outputfile=None):
    return make_gr(case, outputfile).getresults()


def reference(case, nbin):
    return pc.partial_gr_bounds(case["pos"], [c["H"] for c in cells_of(case)], case["ppp"],
                                case["ftypes"] if case.get("ftypes") else np.asarray(case["types"]),
                                case["rdelta"], nbin, _band(case))


def compare(case, df, tag="gr", ref=None, total_only=False):
    """Compare one returned DataFrame with the reference.  Returns (populated columns, reference dict, nbin, values).
    total_only: the table of a direct unary() call on a multi-species object (documented: 'only overall g(r)')."""
    d, K = case["d"], case["K"]
    H = case["cell"]["H"]
    types = np.asarray(case["types"])
    N = len(types)
    width = case["rdelta"]
    require(isinstance(df, pd.DataFrame), f"{tag}: returned {type(df).__name__}, not a DataFrame")
    names = pc.column_names(1 if total_only else K)
    columns(tag, df, names)
    lmin = float(np.diag(H).min())
    allowed = pc.nbins_allowed(lmin, width)
    nbin = len(df)
    require(nbin in allowed, f"{tag}: {nbin} bins returned, int(L_min/(2 width)) = int({lmin!r}/(2*{width!r})) "
                             f"allows {sorted(allowed)}")
    vals = {c: arr(f"{tag}[{c}]", col(tag, df, c), shape=(nbin,)).astype(float) for c in names}
    close(f"{tag}[r] (bin centres)", vals["r"], pc.bin_centres(nbin, width), rtol=1e-9, atol=1e-12 * lmin)

    if ref is None:
        ref = reference(case, nbin)
    between(f"{tag}[gr] (total)", vals["gr"], ref["lo"]["gr"], ref["hi"]["gr"], slack=1e-9)
    if 2 <= K <= 5 and not total_only:
        for a in range(1, K + 1):
            for b in range(a, K + 1):
                c = f"gr{a}{b}"
                between(f"{tag}[{c}]", vals[c], ref["lo"][(a, b)], ref["hi"][(a, b)], slack=1e-9)
        # total = sum_ab c_a c_b g_ab over ordered species pairs  <=>  every pair sits in exactly one partial column
        conc = {a: ref["n_of"][a] / N for a in ref["n_of"]}
        tot = np.zeros(nbin)
        for a in range(1, K + 1):
            for b in range(a, K + 1):
                tot += (1.0 if a == b else 2.0) * conc[a] * conc[b] * vals[f"gr{a}{b}"]
        gmax = max(1.0, float(np.abs(vals["gr"]).max()))
        close(f"{tag}: sum_ab c_a c_b g_ab vs total", tot, vals["gr"], rtol=1e-9, atol=1e-12 * gmax)
    populated = [c for c in names[1:] if np.any(vals[c] != 0)]
    return populated, ref, nbin, vals


def call(obj, how, K):
    if how == "getresults":
        return obj.getresults()
    if how == "method":
        return getattr(obj, METHOD[K])()
    return obj.unary()


def check_csv(fn, names, nbin, vals):
    require(os.path.exists(fn), "outputfile given but no CSV written")
    try:
        back = pd.read_csv(fn)
    except Exception as e:  # noqa: BLE001
        raise Violation(f"CSV written by gr cannot be read back: {e}")
    columns("csv", back, names)
    require(len(back) == nbin, f"csv has {len(back)} rows, DataFrame has {nbin}")
    for c in names:
        close(f"csv[{c}] vs returned frame (%.6f)", col("csv", back, c).astype(float), vals[c],
              rtol=1e-12, atol=5.0001e-7)
    os.remove(fn)


def wrapped_pairs(case):
    """Number of pairs whose minimum image differs from the raw displacement (frame 0)."""
    from ..ref import geom
    pos = np.asarray(case["pos"][0], dtype=float)
    ii, jj = np.triu_indices(len(pos), k=1)
    disp = pos[jj] - pos[ii]
    vec, _ = geom.min_image(disp, case["cell"]["H"], case["ppp"])
    scale = float(np.abs(case["cell"]["H"]).max())
    return int((np.abs(vec - disp).max(axis=1) > 1e-6 * scale).sum())


def check(case):
    d, K = case["d"], case["K"]
    fn = os.path.join(os.getcwd(), "gr_out.csv") if case.get("csv") else None
    obj = make_gr(case, fn)
    calls = case.get("calls") or (["getresults", "getresults"] if case.get("twice") else ["getresults"])
    ref = None
    populated = nbin = vals = None
    for n, how in enumerate(calls):
        # every evaluation of the same object must give the table of the definition (no state accumulated by an
        # earlier call, whichever public method it was)
        df = call(obj, how, K)
        tag = "gr" if n == 0 and how == "getresults" else f"call {n + 1} on one object: {how}()"
        total_only = how == "unary" and 2 <= K <= 5
        pop_, ref, nbin_, vals_ = compare(case, df, tag, ref, total_only=total_only)
        if fn:
            check_csv(fn, pc.column_names(1 if total_only else K), nbin_, vals_)
        if populated is None or not total_only:
            populated, nbin, vals = pop_, nbin_, vals_

    tri = case["cell"]["kind"] in ("tri", "general")
    sheared = bool(case.get("cells")) and any(not np.array_equal(c["H"], case["cells"][0]["H"]) for c in case["cells"])
    masked = not bool(np.all(case["ppp"]))
    if 2 <= K <= 5 and len(pc.column_names(K)) == len(vals):
        nontrivial = len(populated) >= 2
    else:
        nontrivial = len(populated) >= 1 and (tri or masked or len(case["types"]) > 40)
    N = len(case["types"])
    tags = [f"K{K}", f"d{d}", case["cell"]["kind"], f"frames{len(case['pos'])}", "kind-" + case["kind"].split("-jit")[0],
            "mask-partial" if masked else "mask-full", "width-" + case["wmode"],
            "origin-" + case["cell"]["origin"]]
    if case["kind"].endswith("-jit"):
        tags.append("lattice-jittered")
    if case["outside"]:
        tags.append("outside-box")
    if sheared:
        tags.append("tilt-differs-between-frames")
    if case.get("shape"):
        tags.append("shape-" + case["shape"])
    if tri:
        off = case["cell"]["H"] - np.diag(np.diag(case["cell"]["H"]))
        tags.append("tilt-negative" if (off < 0).any() and not (off > 0).any() else
                    "tilt-positive" if (off > 0).any() and not (off < 0).any() else "tilt-mixed-sign")
    tags.append("N2" if N == 2 else ("N3-9" if N < 10 else ("N10-40" if N <= 40 else "N41+")))
    if N > 40:
        tags.append(size_tag(N))
    tags.append("bins-1" if nbin == 1 else ("bins-2" if nbin == 2 else ("bins-3..40" if nbin <= 41 else "bins-41+")))
    tags.append("in-range-pairs" if np.any(ref["cnt_hi"]["gr"] > 0) else "no-pair-in-range")
    if ref["ambiguous"]:
        tags.append("ambiguous-pairs")
    if ref["ties"]:
        tags.append("half-cell-ties")
    if fn:
        tags.append("csv")
    if pc.nbins_nominally_integer(float(np.diag(case["cell"]["H"]).min()), case["rdelta"]):
        tags.append("nbin-quotient-nominally-integer")
    if 2 <= K <= 5:
        npart = len(pc.column_names(K)) - 2
        tags.append("all-partials-populated" if len(populated) == npart + 1 else "some-partial-empty")
    if min(ref["n_of"].values()) == 1:
        tags.append("single-particle-species")
    if case.get("ftypes"):
        moved = any(not np.array_equal(t, case["ftypes"][0]) for t in case["ftypes"][1:])
        tags.append("labels-per-frame" if moved else "labels-per-frame-unchanged")
    if case.get("sched"):
        tags.append("timesteps-" + case["sched"])
    if case.get("calls"):
        tags.append("history-" + ">".join(calls))
    elif case.get("twice"):
        tags.append("history-getresults-twice")
    if case.get("labels"):
        tags.append("labels-" + case["labels"])
    if case.get("count_axis") == "bins":
        tags.append(f"bins-boundary-{nbin}")
    if case.get("count_axis") == "frames":
        tags.append(f"frames-boundary-{len(case['pos'])}")
    if case.get("perm"):
        tags.append("axes-permuted-cell-not-lower-triangular")
    if np.array_equal(np.sort(case["types"]), np.asarray(case["types"])) and K >= 2:
        tags.append("labels-in-ascending-order")
    for k_, v_ in (case.get("rep") or {}).items():
        tags.append(f"rep-{k_}-{v_}")
    extra = {"ambiguous_pairs": int(ref["ambiguous"]), "tied_pairs": int(ref["ties"]),
             "columns_checked": len(pc.column_names(K)) - 1}
    if case.get("dense"):
        c_all, c_same, c_bin = per_centre_counts(case)
        tags.append("per-centre-bin-count-" + ("260+" if c_all >= 260 else "130+" if c_all >= 130 else "below-130"))
        tags.append("per-centre-same-species-bin-count-" + ("260+" if c_same >= 260 else "130+" if c_same >= 130 else "below-130"))
        tags.append("bin-total-count-" + ("32768+" if c_bin >= 32768 else "below-32768"))
        extra["max_per_centre_bin_count"] = c_all
        nontrivial = c_all >= 130
    if case.get("halfbox"):
        nw = wrapped_pairs(case)
        tags.append("all-batches-inside-cartesian-half-box")
        tags.append("wrapped-pairs" if nw else "no-wrapped-pair")
        extra["wrapped_pairs"] = nw
        nontrivial = nontrivial and nw > 0
    return {"nontrivial": bool(nontrivial), "tags": tags, "extra": extra}


def check_retained(case):
    """Several objects, interleaved evaluations, every table kept: each is compared with the oracle when it is handed
    out and a copy is taken; at the end EVERY table must still be bit-for-bit what it was (a work buffer handed out to
    the caller is right at the moment of return and wrong after the next call with the same key).  Then the caller
    scribbles over the tables it owns and evaluates every object once more: the new tables must again be those of the
    definition (a cached frame handed out twice would carry the scribble)."""
    subs = case["subs"]
    objs = [make_gr(c) for c in subs]
    refs = [None] * len(subs)
    kept = []
    for n, k in enumerate(case["order"]):
        df = objs[k].getresults()
        _, refs[k], _, _ = compare(subs[k], df, f"evaluation {n + 1} (object {k})", refs[k])
        kept.append((n, k, df, df.copy(deep=True)))
    for n, k, df, snap in kept:
        require(list(df.columns) == list(snap.columns) and len(df) == len(snap),
                f"table handed out by evaluation {n + 1} (object {k}) changed its layout after later evaluations")
        for c in snap.columns:
            got, want = np.asarray(df[c].values), np.asarray(snap[c].values)
            require(np.array_equal(got, want),
                    lambda: f"table handed out by evaluation {n + 1} (object {k}): column {c} changed after later "
                            f"evaluations; first at bin {int(np.argmax(got != want))}: was "
                            f"{want[np.argmax(got != want)]!r}, is now {got[np.argmax(got != want)]!r}")
    tags = [f"K{subs[0]['K']}", f"evaluations-{len(case['order'])}", "same-key-objects-interleaved"]
    if case["scribble"]:
        for _, _, df, _ in kept:
            df.iloc[:, :] = -7.0
        for k, c in enumerate(subs):
            compare(c, objs[k].getresults(), f"object {k} evaluated after the caller overwrote the earlier tables", refs[k])
        tags.append("caller-overwrites-returned-tables")
    pops = [np.any(refs[k]["cnt_hi"]["gr"] > 0) for k in (0, 1)]
    repeated = len(set(case["order"])) < len(case["order"])
    if repeated:
        tags.append("object-evaluated-again-later")
    return {"nontrivial": bool(all(pops)), "tags": tags, "extra": {"tables_kept": len(kept)}}


def describe(case):
    out = describe_config(case)
    out["rdelta"] = case["rdelta"]
    if case.get("cells"):
        out["H_per_frame"] = [np.round(c["H"], 4).tolist() for c in case["cells"]]
    for k in ("rep", "calls", "sched", "labels", "seed", "order", "scribble"):
        if case.get(k) is not None:
            out[k] = case[k]
    if case.get("ftypes"):
        out["types_per_frame"] = [np.asarray(t).tolist()[:12] for t in case["ftypes"]]
    return out


# ----------------------------------------------------------------------------- exhaustive selector table

SEL_L = {2: np.array([4.0, 6.0]), 3: np.array([4.0, 6.0, 5.0])}
SEL_WIDTH = 0.3          # L_min/(2 width) = 6.67 -> 6 bins; distance 1 lies inside bin 3 = [0.9, 1.2)
SEL_BIN = 3


def selector_case(d, K, a, b, order, host):
    """K far-apart particles (one per species, 1000 apart, open boundaries) plus one partner at distance 1.

    host = 'a': the partner has type b and sits next to the type-a particle; host = 'b': the other way round.
    order = 0: partner is the first particle of the arrays, 1: the last."""
    base_t = list(range(1, K + 1))
    base_p = np.zeros((K, d))
    base_p[:, 0] = 1000.0 * np.arange(1, K + 1)
    near, ptype = (a, b) if host == "a" else (b, a)
    direction = np.zeros(d)
    if order == 0:
        direction[1] = 1.0
    else:
        direction[0], direction[1] = 0.6, 0.8
    partner = base_p[near - 1] + direction
    if order == 0:
        pos = np.vstack([partner[None, :], base_p])
        types = [ptype] + base_t
    else:
        pos = np.vstack([base_p, partner[None, :]])
        types = base_t + [ptype]
    L = SEL_L[d]
    cell = {"d": d, "kind": "ortho", "H": np.diag(L), "lo": np.zeros(d), "origin": "zero"}
    return {"d": d, "cell": cell, "pos": [pos], "types": np.array(types, dtype=int), "ppp": np.zeros(d, dtype=int),
            "K": K, "kind": "selector", "timesteps": [0], "outside": True, "rdelta": SEL_WIDTH, "wmode": "frac",
            "csv": False, "pair": (a, b), "order": order, "host": host}


def selector_check(case):
    d, K = case["d"], case["K"]
    a, b = case["pair"]
    df = run_gr(case)
    populated, ref, nbin, vals = compare(case, df, tag=f"selector K={K} pair=({a},{b})")
    require(nbin == 6, f"selector table: expected 6 bins, got {nbin}")
    N = len(case["types"])
    V = float(np.prod(SEL_L[d]))
    shell = pc.shell_volumes(6, SEL_WIDTH, d)[SEL_BIN]
    want_tot = np.zeros(6)
    want_tot[SEL_BIN] = V / (N * N) * 2.0 / shell
    close("selector: total column", vals["gr"], want_tot, rtol=1e-9, atol=0.0)
    if K == 1 or K > 5:
        require(populated == ["gr"], f"selector: K={K} should populate only 'gr', got {populated}")
        return {"nontrivial": True, "tags": [f"K{K}", f"d{d}", "total-only"]}
    na = int((case["types"] == a).sum())
    nb_ = int((case["types"] == b).sum())
    target = f"gr{a}{b}"
    for c in pc.column_names(K)[2:]:
        want = np.zeros(6)
        if c == target:
            want[SEL_BIN] = V / (na * nb_) * (2.0 if a == b else 1.0) / shell
        close(f"selector K={K}: one {a}-{b} pair at distance 1 (order {case['order']}, host {case['host']}) -> column {c}",
              vals[c], want, rtol=1e-9, atol=0.0)
    return {"nontrivial": True, "tags": [f"K{K}", f"d{d}", "pair-same" if a == b else "pair-cross", f"order{case['order']}"]}


def selector_table(tier):
    for d in (2, 3):
        for K in (1, 2, 3, 4, 5, 6, 7):
            pairs = [(a, b) for a in range(1, K + 1) for b in range(a, K + 1)] if K <= 5 else [(1, 2), (K, K), (2, K)]
            for (a, b) in pairs:
                for order in (0, 1):
                    for host in (("a",) if a == b else ("a", "b")):
                        case = selector_case(d, K, a, b, order, host)
                        try:
                            info = guarded_check(selector_check, case)
                        except Violation as v:
                            v.case = case
                            raise
                        yield case, info


def describe_selector(case):
    return {"d": case["d"], "K": case["K"], "pair": list(case["pair"]), "order": case["order"], "host": case["host"],
            "types": np.asarray(case["types"]).tolist()}


_sel = Facet("selector_table", check=selector_table, exhaustive=True, describe=describe_selector,
             rule="finite: for d in {2,3}, K = 1..5, every unordered species pair (35) x both index orders x both "
                  "hosts, one a-b pair at distance 1 among particles 1000 apart (open boundaries) -> exactly one "
                  "count in exactly column gr{ab}; K = 6, 7 -> only r, gr")
_sel.replay = lambda case: guarded_check(selector_check, case)  # noqa: E731

_sweep = Facet("size_sweep", check=size_sweep, exhaustive=True, describe=lambda case: describe(case),
               rule="finite: every boundary particle number of the tier once (quick: 26 values 31..257; thorough: + 19 "
                    "values 266..1025), K / dimension / cell / mask / label arrangement cycling with the index, one "
                    "frame, 3..6 bins")
_sweep.replay = lambda case: guarded_check(check, case)  # noqa: E731

KSET = (1, 2, 3, 4, 5, 6, 1, 2, 3, 4, 5, 6, 7, 8)      # more than five species: 6 mostly, 7 and 8 now and then

FACETS = [
    _sel,
    Facet("ortho", case_st("ortho", kset=KSET), check, quick=180, thorough=6000, describe=describe, shards_quick=4,
          rule="orthogonal cells with unequal edges, K 1..6, all masks, 1..3 frames; non-trivial as in RULE"),
    Facet("tri", case_st("tri", kset=KSET), check, quick=180, thorough=6000, describe=describe, shards_quick=4,
          rule="LAMMPS triclinic cells (tilts of either sign), K 1..6, all masks, 1..3 frames; non-trivial as in RULE"),
    Facet("k45", case_st("any", kset=(4, 4, 5, 5, 5), nmin=8, nmax=32, frames=(1, 2)), check, quick=180, thorough=6000,
          describe=describe, shards_quick=4,
          rule="quaternary and quinary systems (the hand-unrolled, untested selector code), N 8..32; non-trivial as in RULE"),
    Facet("exact_width", case_st("any", widths=("exact",), nmax=24, frames=(1, 2)), check, quick=90, thorough=3000,
          describe=describe, shards_quick=2,
          rule="bin width = L_min/(2 n) with dyadic and non-dyadic n, L (quotient nominally an integer: the number of bins must be the double-precision value of int(L_min/(2 width)); last-edge pairs); "
               "non-trivial as in RULE"),
    Facet("sheared", sheared_case_st(), check, quick=150, thorough=6000, describe=describe, shards_quick=3,
          rule="2..3 frames, triclinic, tilt factors differ between frames while the edge lengths stay equal (per-frame "
               "hmatrix / bounds; oracle uses frame k's own cell); getresults() asked twice; non-trivial as in RULE"),
    Facet("ordinary", ordinary_case_st(), check, quick=100, thorough=4000, describe=describe, shards_quick=3,
          rule="the everyday input: cubic / cubic-edged tilted box at the origin, 16..40 particles inside, K 1..3, widths "
               "0.01..0.2 (up to ~1000 bins), mostly fully periodic; non-trivial as in RULE"),
    Facet("minimal", minimal_case_st(), check, quick=150, thorough=5000, describe=describe,
          rule="N = 2 or 3 (single-particle species), one or two bins, 1..2 frames, half of the cases with a pair inside the range; non-trivial as in RULE"),
    Facet("dyadic", dyadic_case_st(), check, quick=120, thorough=4000, describe=describe, shards_quick=2,
          rule="power-of-two boxes, particles on a 1/16 grid, power-of-two widths: crisp number of bins, many pairs "
               "exactly on bin edges / at the half cell; non-trivial as in RULE"),
    _sweep,
    Facet("size_boundary", sized_case_st(SIZES_QUICK, (41, 260)), check, quick=40, thorough=1500, describe=describe,
          shards_quick=4,
          rule="N at block boundaries (B-1, B, B+1, 2B-1, 2B, 2B+1, B+B//3 for B in 32, 50, 64, 100, 128, 200, 256; 4 of 5 "
               "cases) or anywhere in 41..260, K 1..6, 2D/3D, ortho/tri, all masks, 1..2 frames (per-frame labels), labels "
               "random / sorted / single last / single first, 2..8 bins; non-trivial as in RULE (K = 1, 6: any populated "
               "total)"),
    Facet("count_boundary", count_boundary_case_st(), check, quick=44, thorough=2000, describe=describe, shards_quick=2,
          rule="number of bins (2 of 3 cases) or number of frames at block boundaries (31..257 bins with N 6..40; 31..66 "
               "frames with N 3..8), K 1..6, per-frame labels; non-trivial as in RULE"),
    Facet("size_boundary_large", sized_case_st(SIZES_THOROUGH, (261, 1030)), check, quick=0, thorough=400,
          describe=describe,
          rule="thorough tier only: N around 500, 512, 1000, 1024 (and 2B+-1, B+B//3 of 128, 200, 256) or anywhere in "
               "261..1030; otherwise as size_boundary"),
    Facet("deep", sized_case_st(SIZES_QUICK, (41, 160), frames=(3, 4, 6, 8), bins=(40, 400)), check, quick=0, thorough=400,
          describe=describe,
          rule="thorough tier only: 41..260 particles, 3..8 frames (per-frame labels), 40..400 bins; non-trivial as in RULE"),
    Facet("dense_wide", dense_case_st(), check, quick=24, thorough=600, describe=describe, shards_quick=2,
          rule="dense-wide: 140..330 particles inside a ball below half a bin width, or an ideal gas of 230..600 particles "
               "with two bins: one bin of one centre particle holds >= 130 / >= 260 partners (narrow integer "
               "accumulators wrap at 128 / 256 / 32768), K 1..6 with one large species; non-trivial: per-centre "
               "per-bin count >= 130"),
    Facet("representations", rep_case_st(), check, quick=140, thorough=5000, describe=describe, shards_quick=2,
          rule="integer-valued geometry passed in other representations: int64 cell / bounds / coordinates, labels int32 / "
               "int8 / float64 / uint32 / uint16 / uint8, mask as list / tuple / float / bool / int32, width as np.float64 / np.float32 / int; "
               "non-trivial as in RULE"),
    Facet("halfbox", halfbox_case_st(), check, quick=100, thorough=4000, describe=describe, shards_quick=2,
          rule="strongly tilted cell, all particles inside a Cartesian region below half the edge lengths: every batch of "
               "displacements is short in all Cartesian components while many need another image; non-trivial: as in "
               "RULE and at least one pair whose minimum image differs from the raw displacement"),
    Facet("retained", retained_case_st(), check_retained, quick=60, thorough=3000, describe=describe, shards_quick=2,
          rule="2 objects with the same K / bins / N and different data + 1 other, 3..6 interleaved evaluations, all "
               "tables kept and re-compared bit-for-bit at the end; then the caller overwrites them and every object is "
               "evaluated again; non-trivial: both same-key objects have pairs in range"),
]
