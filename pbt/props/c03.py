"""C03 — g(r): every total and partial column equals the normalised pair histogram.

Oracle: brute force over all pairs with the reference minimum image (`ref.geom.min_image`, contract of C02) and the
definition  g_ab(r_k) = V/(N_a N_b) <#ordered a-b pairs in bin k> / shell_k  (`ref.paircorr`).  Bin membership is
discontinuous, so the reference returns an interval [g_lo, g_hi] per entry: pairs within 1e-9 (relative to the
coordinate scale) of a bin edge, and pairs whose minimum image is tied at the half cell, may be counted on either
side.  The right edge of the last bin is inclusive (np.histogram), which the interval rule covers as well.

Preconditions imposed by the code under test (only such inputs are generated):
  * type ids exactly 1..K with every type present, identical in all frames   (selectors `countsum == ...`, gr.py L308-590;
    `typecount[k]` is indexed by position in np.unique, L208)
  * same N and same box in all frames                                          (asserts in gr.__init__, L202-205)
  * N >= 2                                                                     (`binedge` is taken from the last pair loop)
  * int(L_min / (2 rdelta)) >= 1 bin                                           (np.histogram(bins=0) raises)
  * ppp has one entry per dimension                                            (broadcast in remove_pbc)
"""
from __future__ import annotations

import itertools
import os

import numpy as np
from hypothesis import strategies as st

from ..gen import (cell_st, config_st, describe_config, fl, frac_config_st, frac_st, nice_float, ppp_st,
                   snapshot_from, types_st)
from ..harness import Facet, Violation, guarded_check
from ..ref import paircorr as pc
from ..util import arr, between, close, col, columns, require

import pandas as pd

from PyMatterSim.reader.reader_utils import Snapshots
from PyMatterSim.static.gr import gr as GR

RULE = ("generated trajectories: d {2,3} x cell {ortho unequal edges, LAMMPS triclinic with tilts of either sign} x any "
        "origin x K 1..6 species (ids 1..K all present, arbitrary composition) x N max(2,K)..40 x 1..3 frames x "
        "{gas, exact/jittered lattice, cluster, particles outside the box} x bin widths giving 3..40 bins (plus widths "
        "that divide L_min/2 exactly) x all periodicity masks; plus sheared trajectories (per-frame tilt, same edges), "
        "the everyday class (cubic box, N 16..40, widths 0.01..0.2) and minimal sizes (N = 2..3, one or two bins).  non-trivial = at least two columns populated inside the "
        "histogram range (K in 2..5: two g columns with a non-zero entry; K = 1 or 6: the r and gr columns) and "
        "(K >= 2 or triclinic or partially periodic)")
ASSUMPTIONS = [
    "minimum image = fractional rounding (contract of C02); pairs tied at the half cell may take either image",
    "pairs within 1e-9 x coordinate scale of a bin edge may be counted in either neighbouring bin (or outside the range)",
    "L_min is the smallest of the cell edge lengths hi-lo reported by the reader (diagonal of the LAMMPS h-matrix); "
    "when L_min/(2 width) is within 1e-9 of an integer m and the operands are not short dyadic numbers, m-1 or m bins "
    "are both accepted",
    "volume V = |det h| (= product of the edge lengths for LAMMPS cells)",
    "type ids exactly 1..K, all present; N >= 2; same N, box, types in all frames",
]
MANIFEST = {
    "text": ("Differential test of static.gr.gr(...).getresults() against an independent brute-force pair histogram: "
             "exact column set for K = 1..6 species, number of bins and bin centres, every total and partial column "
             "inside the reference interval, total = sum_ab c_a c_b g_ab in every bin, CSV output equals the returned "
             "frame to 6 decimals; facets ortho / triclinic / K in {4,5} / exact-division bin widths / dyadic grids / "
             "sheared multi-frame trajectories (per-frame cell) / everyday cubic inputs / minimal sizes, plus an "
             "exhaustive species-pair -> column table for K = 1..5 (both index orders, 2D and 3D)."),
    "note": ("Trusted base: pbt/ref/geom.py (fractional-rounding minimum image) and pbt/ref/paircorr.py (numpy only). "
             "Bin-edge and half-cell-tie ambiguity is resolved by an interval oracle, so the half-open/closed bin "
             "convention itself is not asserted.  Inputs are small (N <= 40, <= 3 frames, <= 41 bins)."),
    "technique": ("property-based testing (Hypothesis): reference-model differential with interval oracle, one "
                  "metamorphic identity (composition-weighted sum of partials), one exhaustive finite enumeration"),
}


# ----------------------------------------------------------------------------- generators


@st.composite
def case_st(draw, cell_kind="any", kset=(1, 2, 3, 4, 5, 6), nmin=2, nmax=40, frames=(1, 3), widths=("frac", "frac", "nice"),
            allow_open=True):
    K = draw(st.sampled_from(list(kset)))
    case = draw(config_st(cell_kind=cell_kind, nmin=max(nmin, K), nmax=nmax, K=K, frames=frames,
                          allow_open=allow_open))
    lmin = float(np.diag(case["cell"]["H"]).min())
    mode = draw(st.sampled_from(list(widths)))
    if mode == "frac":
        nb = draw(st.integers(3, 40))
        u = draw(fl(0.02, 0.98))
        rdelta = lmin / (2.0 * (nb + u))
    elif mode == "nice":
        rdelta = draw(nice_float(lmin / 80.0, lmin / 6.5))
    else:  # "exact": the quotient L_min / (2 width) is nominally an integer
        nb = draw(st.integers(3, 40))
        rdelta = lmin / (2.0 * nb)
    case["rdelta"] = float(rdelta)
    case["wmode"] = mode
    case["csv"] = draw(st.booleans())
    return case


@st.composite
def dyadic_case_st(draw):
    """Power-of-two boxes, particles on a 1/16 grid, width a power of two: every float operation on the way to the
    number of bins is exact, so int(L_min/(2 width)) is demanded crisply; many pairs sit exactly on bin edges and at
    the half cell (ambiguity machinery under load)."""
    d = draw(st.sampled_from([2, 3]))
    L = np.array([float(2 ** draw(st.integers(1, 4))) for _ in range(d)])
    K = draw(st.integers(1, 6))
    N = draw(st.integers(max(2, K), 24))
    T = draw(st.integers(1, 2))
    pos = []
    for _ in range(T):
        # distinct grid sites (no coincident particles) by construction
        sites = draw(st.lists(st.integers(0, 16 ** d - 1), min_size=N, max_size=N, unique=True))
        g = np.array([[(s // 16 ** a) % 16 for a in range(d)] for s in sites], dtype=float)
        pos.append(g / 16.0 * L)
    lmin = L.min()
    rdelta = lmin / 2.0 / float(2 ** draw(st.integers(2, 5)))
    cell = {"d": d, "kind": "ortho", "H": np.diag(L), "lo": np.zeros(d), "origin": "zero"}
    return {"d": d, "cell": cell, "pos": pos, "types": draw(types_st(N, K)), "ppp": draw(ppp_st(d)), "K": K,
            "kind": "dyadic-grid", "timesteps": list(range(T)), "outside": False, "rdelta": float(rdelta),
            "wmode": "dyadic", "csv": draw(st.booleans())}



@st.composite
def sheared_case_st(draw):
    """Multi-frame triclinic trajectory whose TILT factors differ from frame to frame while the edge lengths (and hence
    boxlength, the only thing gr asserts to be constant) stay the same.  Frame k is built as lo + f_k . H_k and carries
    its own hmatrix / bounds; the oracle reduces frame k with H_k."""
    d = draw(st.sampled_from([2, 3]))
    K = draw(st.sampled_from([1, 2, 2, 3, 3, 4, 5, 6]))
    T = draw(st.integers(2, 3))
    base = draw(cell_st(d, "tri", lmin=1.0, lmax=30.0))
    L = np.diag(base["H"]).copy()
    cells = [base]
    for _ in range(T - 1):
        H = np.diag(L)
        def tilt(edge):
            return draw(st.one_of(st.just(0.0), nice_float(-0.5, 0.5))) * edge
        H[1, 0] = tilt(L[0])
        if d == 3:
            H[2, 0] = tilt(L[0])
            H[2, 1] = tilt(L[1])
        if np.array_equal(H, base["H"]):
            H[1, 0] = -base["H"][1, 0] if base["H"][1, 0] else 0.3 * L[0]
        cells.append(dict(base, H=H))
    f0, kind = draw(frac_config_st(d, nmin=max(2, K), nmax=32, exact_lattice=False))
    N = len(f0)
    fr = [f0] + [draw(frac_st(N, d)) if draw(st.booleans()) else f0 for _ in range(T - 1)]
    ppp = draw(ppp_st(d))
    offs = np.zeros((N, d))
    if draw(st.booleans()):
        from hypothesis.extra import numpy as hnp
        offs = draw(hnp.arrays(np.int64, (N, d), elements=st.integers(-1, 1))).astype(float) * ppp
    pos = [c["lo"] + (f + offs) @ c["H"] for c, f in zip(cells, fr)]
    lmin = float(L.min())
    rdelta = lmin / (2.0 * (draw(st.integers(3, 40)) + draw(fl(0.02, 0.98))))
    same_f = all(f is f0 for f in fr)
    return {"d": d, "cell": cells[0], "cells": cells, "pos": pos, "types": draw(types_st(N, K)), "ppp": ppp, "K": K,
            "kind": kind + ("-affine" if same_f else ""), "timesteps": [100 * k for k in range(T)],
            "outside": bool(np.any(offs)), "rdelta": float(rdelta), "wmode": "frac", "csv": draw(st.booleans()),
            "twice": True}


@st.composite
def ordinary_case_st(draw):
    """The everyday input, as its own class: cubic (or cubic-edged, slightly tilted) box at the origin, 16..40 particles
    inside the box, 1..3 species, typical bin widths (0.01 .. 0.1 -> tens to a thousand bins), usually fully periodic."""
    d = draw(st.sampled_from([2, 3]))
    K = draw(st.sampled_from([1, 2, 2, 3]))
    shape = draw(st.sampled_from(["cubic", "cubic", "cubic-tilted"]))
    L0 = draw(st.one_of(st.integers(4, 20).map(float), nice_float(4.0, 20.0)))
    H = np.diag([L0] * d)
    if shape == "cubic-tilted":
        H[1, 0] = draw(st.sampled_from([-0.3, -0.1, 0.05, 0.1, 0.25])) * L0
        if d == 3 and draw(st.booleans()):
            H[2, 1] = draw(st.sampled_from([-0.2, 0.1])) * L0
    cell = {"d": d, "kind": "ortho" if shape == "cubic" else "tri", "H": H, "lo": np.zeros(d), "origin": "zero"}
    T = draw(st.integers(1, 2))
    f0, kind = draw(frac_config_st(d, nmin=16, nmax=40, exact_lattice=(shape == "cubic")))
    N = len(f0)
    fr = [f0] + [draw(frac_st(N, d)) for _ in range(T - 1)]
    masks = [np.array(m_, dtype=int) for m_ in itertools.product([0, 1], repeat=d) if not all(m_)]
    ppp = np.ones(d, dtype=int) if draw(st.integers(0, 2)) else draw(st.sampled_from(masks))
    rdelta = draw(st.sampled_from([0.01, 0.02, 0.05, 0.1, 0.1, 0.2]))
    return {"d": d, "cell": cell, "pos": [f @ H for f in fr], "types": draw(types_st(N, K)), "ppp": ppp, "K": K,
            "kind": kind, "timesteps": [1000 * k for k in range(T)], "outside": False, "rdelta": float(rdelta),
            "wmode": "typical", "csv": draw(st.booleans()), "shape": shape}


@st.composite
def minimal_case_st(draw):
    """Smallest sizes the statement still defines: N = 2 or 3 (so some species has a single particle whenever K >= 2),
    one or two histogram bins, 1..2 frames."""
    N = draw(st.sampled_from([2, 2, 3]))
    K = draw(st.integers(1, N))
    case = draw(config_st(nmin=N, nmax=N, K=K, frames=(1, 2), kinds=("gas",), lmin=1.0, lmax=20.0))
    lmin = float(np.diag(case["cell"]["H"]).min())
    nb = draw(st.sampled_from([1, 1, 2]))
    case["rdelta"] = float(lmin / (2.0 * (nb + draw(fl(0.02, 0.98)))))
    case["wmode"] = f"{nb}-bin"
    case["csv"] = draw(st.booleans())
    # bring the pair(s) into range in about half of the cases: second particle close to the first
    if draw(st.booleans()):
        H = case["cell"]["H"]
        step = draw(fl(0.05, 0.9)) * case["rdelta"] * nb
        for p in case["pos"]:
            e = np.zeros(case["d"])
            e[draw(st.integers(0, case["d"] - 1))] = 1.0
            p[1] = p[0] + step * e
        case["kind"] = "close-pair"
    return case


# ----------------------------------------------------------------------------- the check


def cells_of(case):
    """One cell dict per frame (sheared trajectories carry their own list)."""
    return case["cells"] if case.get("cells") else [case["cell"]] * len(case["pos"])


def _band(case):
    scale = max(1.0, max(float(np.abs(c["H"]).max()) for c in cells_of(case)),
                max(float(np.abs(p).max()) for p in case["pos"]))
    return pc.BAND_REL * scale


def build_snapshots(case):
    snaps = [snapshot_from(c, p, case["types"], ts) for c, p, ts in zip(cells_of(case), case["pos"], case["timesteps"])]
    return Snapshots(nsnapshots=len(snaps), snapshots=snaps)


def make_gr(case, outputfile=None):
    return GR(build_snapshots(case), ppp=np.array(case["ppp"], dtype=int), rdelta=case["rdelta"], outputfile=outputfile)


def run_gr(case, outputfile=None):
    return make_gr(case, outputfile).getresults()


def compare(case, df, tag="gr"):
    """Compare one returned DataFrame with the reference.  Returns (populated columns, reference dict, nbin)."""
    d, K = case["d"], case["K"]
    H = case["cell"]["H"]
    types = np.asarray(case["types"])
    N = len(types)
    T = len(case["pos"])
    width = case["rdelta"]
    require(isinstance(df, pd.DataFrame), f"{tag}: getresults() returned {type(df).__name__}, not a DataFrame")
    names = pc.column_names(K)
    columns(tag, df, names)
    lmin = float(np.diag(H).min())
    allowed = pc.nbins_allowed(lmin, width)
    nbin = len(df)
    require(nbin in allowed, f"{tag}: {nbin} bins returned, int(L_min/(2 width)) = int({lmin!r}/(2*{width!r})) "
                             f"allows {sorted(allowed)}")
    vals = {c: arr(f"{tag}[{c}]", col(tag, df, c), shape=(nbin,)).astype(float) for c in names}
    close(f"{tag}[r] (bin centres)", vals["r"], pc.bin_centres(nbin, width), rtol=1e-9, atol=1e-12 * lmin)

    ref = pc.partial_gr_bounds(case["pos"], [c["H"] for c in cells_of(case)], case["ppp"], types, width, nbin,
                               _band(case))
    between(f"{tag}[gr] (total)", vals["gr"], ref["lo"]["gr"], ref["hi"]["gr"], slack=1e-9)
    if 2 <= K <= 5:
        for a in range(1, K + 1):
            for b in range(a, K + 1):
                c = f"gr{a}{b}"
                between(f"{tag}[{c}]", vals[c], ref["lo"][(a, b)], ref["hi"][(a, b)], slack=1e-9)
        # total = sum_ab c_a c_b g_ab over ordered species pairs  <=>  every pair sits in exactly one partial column
        conc = {a: ref["n_of"][a] / N for a in ref["n_of"]}
        tot = np.zeros(nbin)
        for a in range(1, K + 1):
            for b in range(a, K + 1):
                tot += (1.0 if a == b else 2.0) * conc[a] * conc[b] * vals[f"gr{a}{b}"]
        gmax = max(1.0, float(np.abs(vals["gr"]).max()))
        close(f"{tag}: sum_ab c_a c_b g_ab vs total", tot, vals["gr"], rtol=1e-9, atol=1e-12 * gmax)
    populated = [c for c in names[1:] if np.any(vals[c] != 0)]
    return populated, ref, nbin, vals


def check(case):
    d, K = case["d"], case["K"]
    fn = os.path.join(os.getcwd(), "gr_out.csv") if case.get("csv") else None
    obj = make_gr(case, fn)
    df = obj.getresults()
    populated, ref, nbin, vals = compare(case, df)
    if case.get("twice"):
        # asking the same object again must give the same table (no state accumulated by the first call)
        df2 = obj.getresults()
        require(isinstance(df2, pd.DataFrame), "second getresults() did not return a DataFrame")
        columns("second getresults()", df2, pc.column_names(K))
        for c in pc.column_names(K):
            close(f"second getresults()[{c}] vs first", col("second", df2, c).astype(float), vals[c], rtol=1e-12,
                  atol=1e-12 * max(1.0, float(np.abs(vals[c]).max())))
    if fn:
        require(os.path.exists(fn), "outputfile given but no CSV written")
        try:
            back = pd.read_csv(fn)
        except Exception as e:  # noqa: BLE001
            raise Violation(f"CSV written by gr cannot be read back: {e}")
        columns("csv", back, pc.column_names(K))
        require(len(back) == nbin, f"csv has {len(back)} rows, DataFrame has {nbin}")
        for c in pc.column_names(K):
            close(f"csv[{c}] vs returned frame (%.6f)", col("csv", back, c).astype(float), vals[c],
                  rtol=1e-12, atol=5.0001e-7)
        os.remove(fn)

    tri = case["cell"]["kind"] == "tri"
    sheared = bool(case.get("cells")) and any(not np.array_equal(c["H"], case["cells"][0]["H"]) for c in case["cells"])
    masked = not bool(np.all(case["ppp"]))
    if 2 <= K <= 5:
        nontrivial = len(populated) >= 2
    else:
        nontrivial = len(populated) >= 1 and (tri or masked)
    tags = [f"K{K}", f"d{d}", case["cell"]["kind"], f"frames{len(case['pos'])}", "kind-" + case["kind"].split("-jit")[0],
            "mask-partial" if masked else "mask-full", "width-" + case["wmode"],
            "origin-" + case["cell"]["origin"]]
    if case["kind"].endswith("-jit"):
        tags.append("lattice-jittered")
    if case["outside"]:
        tags.append("outside-box")
    if sheared:
        tags.append("tilt-differs-between-frames")
    if case.get("shape"):
        tags.append("shape-" + case["shape"])
    tags.append("N2" if len(case["types"]) == 2 else ("N3-9" if len(case["types"]) < 10 else "N10+"))
    tags.append("bins-1" if nbin == 1 else ("bins-2" if nbin == 2 else ("bins-3..40" if nbin <= 41 else "bins-41+")))
    tags.append("in-range-pairs" if np.any(ref["cnt_hi"]["gr"] > 0) else "no-pair-in-range")
    if ref["ambiguous"]:
        tags.append("ambiguous-pairs")
    if ref["ties"]:
        tags.append("half-cell-ties")
    if fn:
        tags.append("csv")
    if pc.nbins_nominally_integer(float(np.diag(case["cell"]["H"]).min()), case["rdelta"]):
        tags.append("nbin-quotient-nominally-integer")
    if 2 <= K <= 5:
        npart = len(pc.column_names(K)) - 2
        tags.append("all-partials-populated" if len(populated) == npart + 1 else "some-partial-empty")
    if min(ref["n_of"].values()) == 1:
        tags.append("single-particle-species")
    return {"nontrivial": bool(nontrivial), "tags": tags,
            "extra": {"ambiguous_pairs": int(ref["ambiguous"]), "tied_pairs": int(ref["ties"]),
                      "columns_checked": len(pc.column_names(K)) - 1}}


def describe(case):
    out = describe_config(case)
    out["rdelta"] = case["rdelta"]
    if case.get("cells"):
        out["H_per_frame"] = [np.round(c["H"], 4).tolist() for c in case["cells"]]
    return out


# ----------------------------------------------------------------------------- exhaustive selector table

SEL_L = {2: np.array([4.0, 6.0]), 3: np.array([4.0, 6.0, 5.0])}
SEL_WIDTH = 0.3          # L_min/(2 width) = 6.67 -> 6 bins; distance 1 lies inside bin 3 = [0.9, 1.2)
SEL_BIN = 3


def selector_case(d, K, a, b, order, host):
    """K far-apart particles (one per species, 1000 apart, open boundaries) plus one partner at distance 1.

    host = 'a': the partner has type b and sits next to the type-a particle; host = 'b': the other way round.
    order = 0: partner is the first particle of the arrays, 1: the last."""
    base_t = list(range(1, K + 1))
    base_p = np.zeros((K, d))
    base_p[:, 0] = 1000.0 * np.arange(1, K + 1)
    near, ptype = (a, b) if host == "a" else (b, a)
    direction = np.zeros(d)
    if order == 0:
        direction[1] = 1.0
    else:
        direction[0], direction[1] = 0.6, 0.8
    partner = base_p[near - 1] + direction
    if order == 0:
        pos = np.vstack([partner[None, :], base_p])
        types = [ptype] + base_t
    else:
        pos = np.vstack([base_p, partner[None, :]])
        types = base_t + [ptype]
    L = SEL_L[d]
    cell = {"d": d, "kind": "ortho", "H": np.diag(L), "lo": np.zeros(d), "origin": "zero"}
    return {"d": d, "cell": cell, "pos": [pos], "types": np.array(types, dtype=int), "ppp": np.zeros(d, dtype=int),
            "K": K, "kind": "selector", "timesteps": [0], "outside": True, "rdelta": SEL_WIDTH, "wmode": "frac",
            "csv": False, "pair": (a, b), "order": order, "host": host}


def selector_check(case):
    d, K = case["d"], case["K"]
    a, b = case["pair"]
    df = run_gr(case)
    populated, ref, nbin, vals = compare(case, df, tag=f"selector K={K} pair=({a},{b})")
    require(nbin == 6, f"selector table: expected 6 bins, got {nbin}")
    N = len(case["types"])
    V = float(np.prod(SEL_L[d]))
    shell = pc.shell_volumes(6, SEL_WIDTH, d)[SEL_BIN]
    want_tot = np.zeros(6)
    want_tot[SEL_BIN] = V / (N * N) * 2.0 / shell
    close("selector: total column", vals["gr"], want_tot, rtol=1e-9, atol=0.0)
    if K == 1 or K > 5:
        require(populated == ["gr"], f"selector: K={K} should populate only 'gr', got {populated}")
        return {"nontrivial": True, "tags": [f"K{K}", f"d{d}", "total-only"]}
    na = int((case["types"] == a).sum())
    nb_ = int((case["types"] == b).sum())
    target = f"gr{a}{b}"
    for c in pc.column_names(K)[2:]:
        want = np.zeros(6)
        if c == target:
            want[SEL_BIN] = V / (na * nb_) * (2.0 if a == b else 1.0) / shell
        close(f"selector K={K}: one {a}-{b} pair at distance 1 (order {case['order']}, host {case['host']}) -> column {c}",
              vals[c], want, rtol=1e-9, atol=0.0)
    return {"nontrivial": True, "tags": [f"K{K}", f"d{d}", "pair-same" if a == b else "pair-cross", f"order{case['order']}"]}


def selector_table(tier):
    for d in (2, 3):
        for K in (1, 2, 3, 4, 5, 6, 7):
            pairs = [(a, b) for a in range(1, K + 1) for b in range(a, K + 1)] if K <= 5 else [(1, 2), (K, K), (2, K)]
            for (a, b) in pairs:
                for order in (0, 1):
                    for host in (("a",) if a == b else ("a", "b")):
                        case = selector_case(d, K, a, b, order, host)
                        try:
                            info = guarded_check(selector_check, case)
                        except Violation as v:
                            v.case = case
                            raise
                        yield case, info


def describe_selector(case):
    return {"d": case["d"], "K": case["K"], "pair": list(case["pair"]), "order": case["order"], "host": case["host"],
            "types": np.asarray(case["types"]).tolist()}


_sel = Facet("selector_table", check=selector_table, exhaustive=True, describe=describe_selector,
             rule="finite: for d in {2,3}, K = 1..5, every unordered species pair (35) x both index orders x both "
                  "hosts, one a-b pair at distance 1 among particles 1000 apart (open boundaries) -> exactly one "
                  "count in exactly column gr{ab}; K = 6, 7 -> only r, gr")
_sel.replay = lambda case: guarded_check(selector_check, case)  # noqa: E731

FACETS = [
    _sel,
    Facet("ortho", case_st("ortho"), check, quick=180, thorough=6000, describe=describe, shards_quick=4,
          rule="orthogonal cells with unequal edges, K 1..6, all masks, 1..3 frames; non-trivial as in RULE"),
    Facet("tri", case_st("tri"), check, quick=180, thorough=6000, describe=describe, shards_quick=4,
          rule="LAMMPS triclinic cells (tilts of either sign), K 1..6, all masks, 1..3 frames; non-trivial as in RULE"),
    Facet("k45", case_st("any", kset=(4, 4, 5, 5, 5), nmin=8, nmax=32, frames=(1, 2)), check, quick=180, thorough=6000,
          describe=describe, shards_quick=4,
          rule="quaternary and quinary systems (the hand-unrolled, untested selector code), N 8..32; non-trivial as in RULE"),
    Facet("exact_width", case_st("any", widths=("exact",), nmax=24, frames=(1, 2)), check, quick=90, thorough=3000,
          describe=describe, shards_quick=2,
          rule="bin width = L_min/(2 n) with dyadic and non-dyadic n, L (quotient nominally an integer: the number of bins must be the double-precision value of int(L_min/(2 width)); last-edge pairs); "
               "non-trivial as in RULE"),
    Facet("sheared", sheared_case_st(), check, quick=150, thorough=6000, describe=describe, shards_quick=3,
          rule="2..3 frames, triclinic, tilt factors differ between frames while the edge lengths stay equal (per-frame "
               "hmatrix / bounds; oracle uses frame k's own cell); getresults() asked twice; non-trivial as in RULE"),
    Facet("ordinary", ordinary_case_st(), check, quick=100, thorough=4000, describe=describe, shards_quick=3,
          rule="the everyday input: cubic / cubic-edged tilted box at the origin, 16..40 particles inside, K 1..3, widths "
               "0.01..0.2 (up to ~1000 bins), mostly fully periodic; non-trivial as in RULE"),
    Facet("minimal", minimal_case_st(), check, quick=150, thorough=5000, describe=describe,
          rule="N = 2 or 3 (single-particle species), one or two bins, 1..2 frames, half of the cases with a pair inside the range; non-trivial as in RULE"),
    Facet("dyadic", dyadic_case_st(), check, quick=120, thorough=4000, describe=describe, shards_quick=2,
          rule="power-of-two boxes, particles on a 1/16 grid, power-of-two widths: crisp number of bins, many pairs "
               "exactly on bin edges / at the half cell; non-trivial as in RULE"),
]
