"""C12 — pair-potential derivatives are the derivatives of the documented potentials.

Code under test: PyMatterSim/static/hessians.py: PairInteractions.{lennard_jones, inverse_power_law, harmonic_hertz,
caller}.  Each returns [s1, s1rc, s2] = [s'(r), cut-off term, s''(r)].

Facets
  lennard_jones / inverse_power_law / harmonic_hertz
        generated real parameters (python floats, numpy float64, python ints) through the named method or through
        `caller`; oracles: (a) sympy-differentiated documented s(r) evaluated by mpmath with 40 digits,
        (b) Richardson central differences of a separately hand-coded s(r) (40 digits), (c) Richardson central
        differences of the *returned* s1 as a function of r against the returned s2; cut-off term: s'(r_c) when
        shift is on, exactly 0 when off; harmonic/Hertz: the documented value 0 (and = s'(r_c) where r_c = sigma).
  caller
        the selector: random InteractionParams in which ALL fields are set (so a wrong branch or a wrong / dropped
        parameter shows), result = the named method with the parameters passed through = the reference.
  symbolic (supplementary, finite enumeration)
        the methods are pure arithmetic, so they are called with sympy Symbols; residuals s1 - ds/dr, s2 - d2s/dr2,
        s1rc - [ds/dr](r_c) must be identically 0 (simplify; if sympy cannot decide, 50-digit evaluation at fixed
        rational points decides).

Preconditions imposed on the generator (documented domain):
  r, epsilon, sigma, r_c > 0 (hessians.py L44-63 docstring); harmonic/Hertz: r <= sigma (the potential is defined
  by (1 - r/sigma)^alpha, real only for r <= sigma when alpha is not an integer) and alpha >= 2 (s'' finite at
  contact); IPL prefactor A is always passed explicitly to InteractionParams (its dataclass default is 0, the
  method's default is 1.0 - `caller` passes what it is given).
"""
from __future__ import annotations

import math

import mpmath as mp
import numpy as np
import sympy as sp
from hypothesis import strategies as st

from ..gen import fl
from ..harness import Facet, Violation, guarded_check
from ..ref import potentials as P
from ..util import require

from PyMatterSim.static.hessians import InteractionParams, ModelName, PairInteractions

RULE = ("generated (r, epsilon, sigma, r_c, shift) x model parameters (n integer and real in [4,18], A in [0.1,5], "
        "alpha in [2,3.5]) x argument number types x {named method, caller}; r/sigma in (0.3,3) (harmonic/Hertz: "
        "r/sigma in (0.3,1]); non-trivial = epsilon != 1 and sigma != 1 and r != sigma and (model parameter differs "
        "from the repository's single test point n=10, A=1, alpha=2)")
ASSUMPTIONS = [
    "the documented s(r) of docs/hessian.md section I is the specification; derivatives by sympy, evaluated by mpmath "
    "with 40 digits (both trusted)",
    "tolerance 1e-12 relative to the sum of |additive terms| of the reference expression (float64 evaluation of a "
    "closed form; the LJ force cancels to 0 at r = 2^(1/6) sigma); harmonic/Hertz adds the conditioning of "
    "1 - r/sigma: 8 max(1,alpha) eps_mach / (1 - r/sigma)",
    "finite-difference oracles: Richardson O(h^4), h = 1e-5 (reference, 40 digits) / 1e-3 (library s1, float64) "
    "times the distance to the nearest singularity; tolerance 1e-7 of the term scale",
    "harmonic/Hertz: only r <= sigma, alpha >= 2; cut-off term 0 as documented",
]
MANIFEST = {
    "text": ("Generated-input differential check of PairInteractions.lennard_jones / inverse_power_law / "
             "harmonic_hertz / caller against sympy-differentiated documented potentials evaluated with 40-digit "
             "mpmath (rtol 1e-12 of the term scale), two independent Richardson finite-difference oracles, the "
             "cut-off term under both shift settings, the selector with fully populated InteractionParams, plus a "
             "supplementary finite facet that calls the methods with sympy Symbols and requires the residuals to "
             "vanish identically (facets: lennard_jones, inverse_power_law, harmonic_hertz, caller, symbolic)."),
    "note": ("Sampling, not proof, for the numeric facets; the symbolic facet is an identity check of the closed forms "
             "as executed on sympy objects (valid because the methods contain only arithmetic and one `if shift`). "
             "Trusted base: sympy diff/simplify, mpmath. Harmonic/Hertz restricted to r <= sigma, alpha >= 2."),
    "technique": ("property-based testing (Hypothesis): reference-model differential (computer-algebra derivative, "
                  "40-digit evaluation) + finite-difference metamorphic relation + finite symbolic-substitution "
                  "enumeration"),
}

EPS = 2.0 ** -52
GOLDEN = {"n": 10, "A": 1.0, "alpha": 2.0}


# ----------------------------------------------------------------------------- strategies


def _num(x, kind):
    """How the caller spells a number: python float, numpy float64 (what HessianMatrix passes), python int."""
    if kind == "np":
        return np.float64(x)
    return x


@st.composite
def case_st(draw, model=None, via=None):
    model = model or draw(st.sampled_from(P.MODELS))
    num = draw(st.sampled_from(["py", "py", "np", "int"]))
    if num == "int":
        # users write PairInteractions(r=.., epsilon=1, sigma=1, r_c=3): python ints for the scales
        sigma = float(draw(st.integers(1, 3)))
        eps = float(draw(st.integers(1, 10)))
    else:
        sigma = draw(st.one_of(st.sampled_from([1.0, 2.0]), st.integers(50, 300).map(lambda k: k / 100.0),
                               fl(0.5, 3.0)))
        eps = draw(st.one_of(st.sampled_from([1.0, 2.0]), st.integers(10, 1000).map(lambda k: k / 100.0),
                             fl(0.1, 10.0)))
    if model == "harmonic_hertz":
        region = draw(st.sampled_from(["generic", "generic", "generic", "near-contact", "contact"]))
        if region == "contact":
            x = 1.0
        elif region == "near-contact":
            x = 1.0 - draw(fl(1e-3, 2e-2))
        else:
            x = draw(st.one_of(st.integers(31, 99).map(lambda k: k / 100.0), fl(0.3, 0.999)))
        c = 1.0 if draw(st.integers(0, 2)) < 2 else draw(fl(1.1, 4.0))
    else:
        region = draw(st.sampled_from(["generic", "generic", "generic", "lj-minimum", "at-sigma"]))
        if region == "lj-minimum":
            x = 2.0 ** (1.0 / 6.0) * (1.0 + draw(st.sampled_from([0.0, 1e-9, -1e-7, 1e-4, -1e-3])))
        elif region == "at-sigma":
            x = 1.0
        else:
            x = draw(st.one_of(st.integers(31, 299).map(lambda k: k / 100.0), fl(0.3, 3.0)))
        c = draw(st.one_of(st.sampled_from([2.5, 1.48]), fl(1.1, 4.0)))
    r = sigma * x
    rc = sigma * c
    if num == "int" and c != 1.0:
        rc = float(math.ceil(rc))
    if model == "harmonic_hertz" and r > sigma:   # rounding of sigma * x
        r = sigma
    shift = draw(st.booleans())
    ntype = draw(st.sampled_from(["int", "int", "real"]))
    n = draw(st.integers(4, 18)) if ntype == "int" else draw(fl(4.0, 18.0))
    if ntype == "int" and draw(st.booleans()):
        n = float(n)
    A = draw(st.one_of(st.just(1.0), st.integers(10, 500).map(lambda k: k / 100.0), fl(0.1, 5.0)))
    alpha = draw(st.one_of(st.sampled_from([2.0, 2.5, 3.0]), fl(2.0, 3.5)))
    if model == "harmonic_hertz" and alpha in (2.0, 3.0) and draw(st.booleans()):
        alpha = int(alpha)
    via = via or draw(st.sampled_from(["method", "method", "caller"]))
    call = draw(st.sampled_from(["kw", "pos", "default-shift"]))
    return {"model": model, "r": float(r), "eps": float(eps), "sigma": float(sigma), "rc": float(rc), "shift": shift,
            "n": n, "A": float(A), "alpha": alpha, "num": num, "via": via, "call": call, "region": region}


# ----------------------------------------------------------------------------- calling the code under test


def make_pair(case, r=None):
    k = case["num"]
    r = case["r"] if r is None else r
    if k == "int":
        e, s, c = int(case["eps"]), int(case["sigma"]), case["rc"]
        c = int(c) if float(c).is_integer() else c
        rr = r
    else:
        rr, e, s, c = (_num(v, k) for v in (r, case["eps"], case["sigma"], case["rc"]))
    shift = case["shift"]
    if case["call"] == "pos":
        return PairInteractions(rr, e, s, c, shift)
    if case["call"] == "default-shift" and shift:
        return PairInteractions(r=rr, epsilon=e, sigma=s, r_c=c)  # documented default: shift=True
    return PairInteractions(r=rr, epsilon=e, sigma=s, r_c=c, shift=shift)


def call_method(case, pair):
    m = case["model"]
    if m == "lennard_jones":
        return pair.lennard_jones()
    if m == "inverse_power_law":
        return pair.inverse_power_law(n=case["n"], A=case["A"])
    return pair.harmonic_hertz(alpha=case["alpha"])


def call_caller(case, pair, full=False):
    m = case["model"]
    kw = {}
    if full or m == "inverse_power_law":
        kw.update(ipl_n=case["n"], ipl_A=case["A"])
    if full or m == "harmonic_hertz":
        kw.update(harmonic_hertz_alpha=case["alpha"])
    return pair.caller(InteractionParams(model_name=ModelName[m], **kw))


def triple(name, out):
    """[s1, s1rc, s2]: a sequence of three real finite numbers."""
    require(isinstance(out, (list, tuple, np.ndarray)), f"{name}: returned {type(out).__name__}, expected a list")
    require(len(out) == 3, f"{name}: returned {len(out)} values, expected [s1, s1rc, s2]")
    vals = []
    for lab, v in zip(("s1", "s1rc", "s2"), out):
        require(isinstance(v, (int, float, np.integer, np.floating)) and not isinstance(v, bool),
                f"{name}: {lab} is {type(v).__name__} ({v!r}), expected a real number")
        require(math.isfinite(float(v)), f"{name}: {lab} = {v!r} is not finite")
        vals.append(float(v))
    return vals


# ----------------------------------------------------------------------------- oracle


def _within(name, got, want, tol, case):
    with mp.workdps(P.DPS):
        err = abs(mp.mpf(got) - want)
        if not err <= tol:
            raise Violation(f"{name}: got {got!r}, documented value {mp.nstr(want, 20)}, |diff| = {mp.nstr(err, 5)} "
                            f"> tol {mp.nstr(tol, 5)}; inputs {brief(case)}")


def brief(case):
    return {k: case[k] for k in ("model", "r", "eps", "sigma", "rc", "shift", "n", "A", "alpha", "via", "num")}


def compare_with_reference(name, vals, case, fd=True):
    m = case["model"]
    s1, s1rc, s2 = vals
    ref = P.derivs(m, case["r"], case["eps"], case["sigma"], case["rc"], case["n"], case["A"], case["alpha"])
    rt = mp.mpf(1e-12)
    if m == "harmonic_hertz":
        gap = 1.0 - case["r"] / case["sigma"]
        if gap > 0:
            rt = rt + 8 * max(1.0, float(case["alpha"])) * EPS / gap
    _within(f"{name}: s1 = ds/dr", s1, ref["s1"], rt * ref["scale_s1"], case)
    _within(f"{name}: s2 = d2s/dr2", s2, ref["s2"], rt * ref["scale_s2"], case)
    want_c = P.documented_s1rc(m, case["shift"], ref)
    if want_c == 0:
        require(s1rc == 0, lambda: f"{name}: cut-off term must be 0 (shift={case['shift']}, model {m}), got {s1rc!r}; "
                                   f"inputs {brief(case)}")
    else:
        _within(f"{name}: s1rc = ds/dr at r_c", s1rc, want_c, mp.mpf(1e-12) * ref["scale_s1_rc"], case)
    if m == "harmonic_hertz" and case["rc"] == case["sigma"]:
        # where the documented 0 and the true derivative coincide
        require(ref["s1_rc"] == 0, "reference: s'(sigma) of the Hertz potential should vanish")
    tags = []
    if fd:
        f = P.fd_derivs(m, case["r"], case["eps"], case["sigma"], case["n"], case["A"], case["alpha"])
        if f is not None:
            ft = mp.mpf(1e-7)
            _within(f"{name}: s1 vs Richardson difference of s", s1, f[0], ft * ref["scale_s1"] + rt * ref["scale_s1"],
                    case)
            _within(f"{name}: s2 vs Richardson second difference of s", s2, f[1],
                    ft * ref["scale_s2"] + rt * ref["scale_s2"], case)
            tags.append("fd-ref")
    return ref, tags


def lib_fd(case, get):
    """Richardson central difference of the library's own s1(r) -> compare with its s2."""
    r, sg = case["r"], case["sigma"]
    rho = r if case["model"] != "harmonic_hertz" else min(r, sg - r)
    if rho <= 0:
        return None
    h = 1e-3 * rho

    def s1_at(x):
        return triple("s1(r +- h)", get(make_pair(case, r=x)))[0]

    def d(hh):
        lo, hi = r - hh, r + hh
        return (s1_at(hi) - s1_at(lo)) / (hi - lo)

    return (4.0 * d(h / 2) - d(h)) / 3.0


def check(case):
    m, via = case["model"], case["via"]
    get = (lambda p: call_method(case, p)) if via == "method" else (lambda p: call_caller(case, p))
    name = f"{m} via {via}"
    vals = triple(name, get(make_pair(case)))
    ref, tags = compare_with_reference(name, vals, case)
    d = lib_fd(case, get)
    if d is not None:
        _within(f"{name}: returned s2 vs Richardson difference of the returned s1", d, ref["s2"],
                mp.mpf(1e-7) * ref["scale_s2"], case)
        tags.append("fd-lib")
    # purity: same object asked twice, and a second object with the same inputs
    p = make_pair(case)
    again = [triple(name, get(p)), triple(name, get(p))]
    require(again[0] == again[1] == vals, f"{name}: repeated calls differ: {vals} {again}")
    x = case["r"] / case["sigma"]
    par = {"lennard_jones": "-", "inverse_power_law": "n-int" if float(case["n"]).is_integer() else "n-real",
           "harmonic_hertz": "alpha-" + ("2" if case["alpha"] == 2 else "2.5" if case["alpha"] == 2.5 else
                                         "3" if case["alpha"] == 3 else "real")}[m]
    tags += [via, "shift-on" if case["shift"] else "shift-off", "num-" + case["num"], "region-" + case["region"],
             "r<sigma" if x < 1 else "r=sigma" if x == 1 else "r>sigma", "r>rc" if case["r"] > case["rc"] else "r<=rc",
             par, "call-" + case["call"]]
    if m == "harmonic_hertz":
        tags.append("rc=sigma" if case["rc"] == case["sigma"] else "rc>sigma")
    generic_par = {"lennard_jones": True,
                   "inverse_power_law": case["n"] != GOLDEN["n"] or case["A"] != GOLDEN["A"],
                   "harmonic_hertz": case["alpha"] != GOLDEN["alpha"]}[m]
    nontrivial = bool(case["eps"] != 1.0 and case["sigma"] != 1.0 and x != 1 and generic_par)
    return {"nontrivial": nontrivial, "tags": tags}


def check_caller(case):
    """Selector: all InteractionParams fields populated; result == named method == reference."""
    m = case["model"]
    name = f"caller({m})"
    got = triple(name, call_caller(case, make_pair(case), full=True))
    want = triple(f"{m}()", call_method(case, make_pair(case)))
    for lab, g, w in zip(("s1", "s1rc", "s2"), got, want):
        require(abs(g - w) <= 1e-13 * abs(w),
                lambda: f"{name}: {lab} = {g!r} but the named method with the same parameters gives {w!r}; "
                        f"inputs {brief(case)}")
    compare_with_reference(name, got, case, fd=False)
    distinct = case["n"] != 12 and case["n"] != 6  # IPL(n=12) is one LJ term: keep the branches distinguishable
    return {"nontrivial": bool(distinct and case["eps"] != 1.0 and case["sigma"] != 1.0),
            "tags": [m, "shift-on" if case["shift"] else "shift-off", "num-" + case["num"]]}


@st.composite
def sequence_st(draw):
    """One PairInteractions object asked for several models in a drawn order (the library's own Hessian code and its
    test do exactly that).  Each answer must be the documented triple of THAT model with THAT call's parameters,
    whatever was evaluated on the object before (seeded C12-D: a prefactor stored by inverse_power_law(A) leaked into
    the next lennard_jones())."""
    base = draw(case_st("harmonic_hertz"))        # r <= sigma: inside the domain of all three models
    steps = []
    for _ in range(draw(st.integers(2, 6))):
        c = draw(case_st())
        steps.append({"model": c["model"], "n": c["n"], "A": c["A"], "alpha": c["alpha"],
                      "via": draw(st.sampled_from(["method", "caller", "caller-full"]))})
    base["steps"] = steps
    return base


def check_sequence(case):
    pair = make_pair(case)
    tags, models = [], []
    for k, stp in enumerate(case["steps"]):
        c = dict(case, **{f: stp[f] for f in ("model", "n", "A", "alpha")})
        name = f"step {k} ({stp['model']} via {stp['via']}) after {models or 'nothing'} on one object"
        out = call_method(c, pair) if stp["via"] == "method" else call_caller(c, pair, full=stp["via"] == "caller-full")
        compare_with_reference(name, triple(name, out), c, fd=False)
        models.append(stp["model"])
    pairs = {(a, b) for a, b in zip(models, models[1:])}
    tags += sorted({f"{a[:3]}->{b[:3]}" for a, b in pairs})
    tags.append("A!=1-before-lj" if any(s["model"] == "inverse_power_law" and s["A"] != 1.0 and
                                        "lennard_jones" in models[i + 1:] for i, s in enumerate(case["steps"])) else "other-order")
    return {"nontrivial": bool(len(set(models)) >= 2), "tags": tags}


def describe_sequence(case):
    d = describe(case)
    d["steps"] = [(s["model"], s["via"], s["n"], s["A"], s["alpha"]) for s in case["steps"]]
    return d


def describe(case):
    return brief(case)


# ----------------------------------------------------------------------------- symbolic substitution (finite)

_r, _e, _s, _c = sp.symbols("r epsilon sigma r_c", positive=True)
_n, _A, _al = sp.symbols("n A alpha", positive=True)
# fixed rational evaluation points (r < sigma so that Hertz is real), used only if simplify() cannot decide
_POINTS = [
    {_r: sp.Rational(7, 10), _e: sp.Rational(13, 10), _s: sp.Rational(11, 10), _c: sp.Rational(5, 2),
     _n: sp.Rational(10), _A: sp.Rational(3, 2), _al: sp.Rational(5, 2)},
    {_r: sp.Rational(93, 100), _e: sp.Rational(2, 7), _s: sp.Rational(17, 10), _c: sp.Rational(31, 10),
     _n: sp.Rational(37, 5), _A: sp.Rational(1, 3), _al: sp.Rational(16, 5)},
    {_r: sp.Rational(41, 20), _e: sp.Rational(9, 2), _s: sp.Rational(9, 4), _c: sp.Rational(27, 10),
     _n: sp.Rational(12), _A: sp.Rational(5), _al: sp.Rational(2)},
]


def symbolic_cases():
    out = []
    for shift in (True, False):
        for via in ("method", "caller"):
            out.append({"model": "lennard_jones", "shift": shift, "via": via, "par": "-"})
            for par in ("n,A symbolic", "n=6", "n=10", "n=12", "n=15/2"):
                out.append({"model": "inverse_power_law", "shift": shift, "via": via, "par": par})
            for par in ("alpha symbolic", "alpha=2", "alpha=5/2", "alpha=3"):
                out.append({"model": "harmonic_hertz", "shift": shift, "via": via, "par": par})
    return out


def _is_zero(res):
    """True / False (decided by simplification, else by 50-digit evaluation at the fixed points)."""
    res = sp.sympify(res)
    if res == 0:
        return True, "structural"
    simp = sp.simplify(res)
    if simp == 0:
        return True, "simplify"
    worst = 0
    for pt in _POINTS:
        v = sp.N(res.subs(pt), 50)
        scale = sum(abs(sp.N(t.subs(pt), 50)) for t in sp.Add.make_args(sp.expand(res))) or 1
        worst = max(worst, abs(v) / scale)
    return bool(worst < sp.Float("1e-40")), f"numeric (relative residual {sp.N(worst, 3)})"


def symbolic_check(case):
    m, shift = case["model"], case["shift"]
    par = case["par"]
    nv, Av, av = _n, _A, _al
    if par.startswith("n="):
        nv = sp.Rational(par[2:])
    if par.startswith("alpha="):
        av = sp.Rational(par[6:])
    pair = PairInteractions(_r, _e, _s, _c, shift)
    if case["via"] == "caller":
        out = pair.caller(InteractionParams(ModelName[m], ipl_n=nv, ipl_A=Av, harmonic_hertz_alpha=av))
    elif m == "lennard_jones":
        out = pair.lennard_jones()
    elif m == "inverse_power_law":
        out = pair.inverse_power_law(n=nv, A=Av)
    else:
        out = pair.harmonic_hertz(alpha=av)
    require(isinstance(out, (list, tuple)) and len(out) == 3, f"symbolic {m}: expected [s1, s1rc, s2], got {out!r}")
    s1, s1rc, s2 = out
    s = P.documented(m).subs({P.r: _r, P.eps: _e, P.sig: _s, P.n: nv, P.A: Av, P.alpha: av}, simultaneous=True)
    d1, d2 = sp.diff(s, _r), sp.diff(s, _r, 2)
    how = []
    for lab, got, want in (("s1 - ds/dr", s1, d1), ("s2 - d2s/dr2", s2, d2)):
        ok, why = _is_zero(got - want)
        how.append(why.split()[0])
        require(ok, lambda: f"symbolic {m} ({par}, shift={shift}, via {case['via']}): {lab} is not identically zero "
                            f"[{why}]: returned {got}, documented derivative {sp.simplify(want)}")
    if m == "harmonic_hertz" or not shift:
        require(sp.sympify(s1rc) == 0, f"symbolic {m} ({par}, shift={shift}): cut-off term should be 0, got {s1rc}")
    else:
        ok, why = _is_zero(s1rc - d1.subs(_r, _c))
        how.append(why.split()[0])
        require(ok, lambda: f"symbolic {m} ({par}, shift on, via {case['via']}): s1rc - [ds/dr](r_c) is not identically "
                            f"zero [{why}]: returned {s1rc}")
    return {"nontrivial": True, "tags": [m, "shift-on" if shift else "shift-off", case["via"], par.split("=")[0]]
            + ["decided-by-" + h for h in sorted(set(how))]}


def symbolic_table(tier):
    for case in symbolic_cases():
        try:
            info = guarded_check(symbolic_check, case)
        except Violation as v:
            v.case = case
            raise
        yield case, info


_sym = Facet("symbolic", check=symbolic_table, exhaustive=True, describe=lambda c: dict(c),
             rule="finite (supplementary, not a generated case): 3 models x {shift on, off} x {named method, caller} x "
                  "{symbolic / fixed exponents}; methods called with sympy Symbols, residuals against sympy "
                  "derivatives of the documented s(r) must be identically zero")
_sym.replay = lambda case: guarded_check(symbolic_check, case)  # noqa: E731

_MODEL_RULE = ("r/sigma, epsilon, sigma, r_c, shift, number types generated; oracle: 40-digit sympy/mpmath derivative "
               "+ two Richardson difference oracles; non-trivial as in RULE")
FACETS = [
    Facet("lennard_jones", case_st("lennard_jones"), check, quick=1000, thorough=40000, describe=describe,
          rule=_MODEL_RULE, shards_quick=2),
    Facet("inverse_power_law", case_st("inverse_power_law"), check, quick=1000, thorough=40000, describe=describe,
          rule=_MODEL_RULE, shards_quick=2),
    Facet("harmonic_hertz", case_st("harmonic_hertz"), check, quick=1000, thorough=40000, describe=describe,
          rule=_MODEL_RULE, shards_quick=2),
    Facet("call_sequence", sequence_st(), check_sequence, quick=800, thorough=30000, describe=describe_sequence,
          rule="2..6 model evaluations (any of the three models, own parameters, via the method or the selector) on ONE "
               "PairInteractions object; every answer compared with the documented triple of that call; non-trivial = "
               ">= 2 different models in the sequence"),
    Facet("caller", case_st(None, via="caller"), check_caller, quick=600, thorough=20000, describe=describe,
          rule="all three models, every InteractionParams field populated; caller == named method (1e-13) == reference; "
               "non-trivial = epsilon, sigma != 1 and n not in {6, 12}"),
    _sym,
]
