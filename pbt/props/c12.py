"""C12 — pair-potential derivatives are the derivatives of the documented potentials.

Code under test: PyMatterSim/static/hessians.py: PairInteractions.{lennard_jones, inverse_power_law, harmonic_hertz,
caller}.  Each returns [s1, s1rc, s2] = [s'(r), cut-off term, s''(r)].

Facets
  lennard_jones / inverse_power_law / harmonic_hertz
        generated real parameters (python floats, numpy float64, python ints, numpy int64) through the named method or
        through `caller`; oracles: (a) sympy-differentiated documented s(r) evaluated by mpmath with 40 digits,
        (b) Richardson central differences of a separately hand-coded s(r) (40 digits), (c) Richardson central
        differences of the *returned* s1 as a function of r against the returned s2; cut-off term: s'(r_c) when
        shift is on, exactly 0 when off; harmonic/Hertz: the documented value 0 (and = s'(r_c) where r_c = sigma).
  caller
        the selector: random InteractionParams in which ALL fields are set (so a wrong branch or a wrong / dropped
        parameter shows), result = the named method with the parameters passed through = the reference.
  call_sequence (+ call_sequence_long, thorough tier only: 8..30 evaluations)
        2..6 evaluations of any models on ONE object (seeded C12-D).
  variants (round 3)
        2..4 parameter sets one field apart, evaluated in a drawn order on fresh objects in one process (generalises
        seeded C12-A: anything memoised on a subset of the inputs).
  symbolic (supplementary, finite enumeration)
        the methods are pure arithmetic, so they are called with sympy Symbols; residuals s1 - ds/dr, s2 - d2s/dr2,
        s1rc - [ds/dr](r_c) must be identically 0 (simplify; if sympy cannot decide, 50-digit evaluation at fixed
        rational points decides).

Preconditions imposed on the generator (documented domain):
  r, epsilon, sigma, r_c > 0 (hessians.py L44-63 docstring).  harmonic/Hertz: the potential (1 - r/sigma)^alpha is real
  for r <= sigma with any alpha, and for r > sigma with whole-number alpha only (python returns a complex number,
  numpy nan, for a fractional power of a negative base) - so beyond contact alpha is drawn from {2..6};
  alpha >= 2 at and next to contact (s'' finite), 1 <= alpha < 2 only strictly inside (1 - r/sigma >= 1e-3).
  The IPL prefactor A is passed explicitly to InteractionParams (its dataclass default is 0, the method's default is
  1.0 - `caller` passes what it is given); the method's default is exercised by inverse_power_law(n) where A = 1.
  Not generated: array-valued r (documented as float; a scalar guard such as `if r > r_c` would be legitimate),
  attribute re-assignment on an existing object (not a documented use; a constructor that precomputes would be legitimate).

CLAUSES (statement + quantifier, one row per clause; counts = classes in evidence/C12.json, quick tier, seed 1)
  clause / axis                          facet(s) and deciding assertion                          populated classes
  -------------------------------------  -------------------------------------------------------  -----------------------------------
  every distance r > 0                   model facets: |s1 - ref|, |s2 - ref| <= 1e-12 * term      r<sigma / r=sigma / r>sigma:
                                         scale (+ Hertz conditioning); was r/sigma in (0.3, 3),    LJ 187/215/598, IPL 234/223/743,
                                         Hertz r <= sigma only.  Round 3: scale-wide r/sigma in    Hertz 759/149/292; r<rc / r=rc /
                                         (0.05, 10); Hertz beyond contact (whole alpha);           r>rc: LJ 659/186/155; region-
                                         r == r_c exactly; whole-number r (python / numpy int)     beyond-contact 292 (alpha odd
                                                                                                   156 / even 136); r-whole-number
                                                                                                   107 / 180 / 72; scale-wide ~290
  every energy / length scale            same; was eps in [0.1, 10], sigma in [0.5, 3].  Round 3:  num-py / np / int / npint:
                                         eps 1e-6..1e6, sigma 1e-3..1e3 (scale-wide); numpy int64  473/325/92/110 (LJ); sigma-int>=12
                                         and python int scales incl. sigma in {5,12,20,100,340}    48 / 111 / 113
  every cutoff r_c                       s1rc vs s'(r_c) (1e-12 * scale at r_c); r_c in            r<rc, r=rc, r>rc above;
                                         [1.1, 4] sigma (wide: up to 10 sigma), whole numbers      Hertz rc=sigma 635 / rc>sigma 565
  every exponent n                       inverse_power_law: n int 4..18 and real; round 3: n in    n-int 942 / n-real 258; n<4 70,
                                         1..48 / real (0.5, 48), numpy int64 n                     n>18 128; n-odd 313 / n-even 629;
                                                                                                   n-type int 379 / float 452 / int64 111
  every exponent alpha                   harmonic_hertz: alpha in [2, 3.5]; round 3: [1, 2)        alpha-2 287, 2.5 183, 3 181, <2 130,
                                         inside contact, up to 6, whole alpha as int / int64       >3.5 176, real 243; alpha-type
                                                                                                   float 911 / int 211 / int64 78
  every prefactor A                      inverse_power_law: A in [0.1, 5]; round 3: 1e-3..1e3,     A>0 616, A=1 505, A<0 79;
                                         both signs; A left to the documented default 1.0          mcall-default-A 150
  s1 == ds/dr, s2 == d2s/dr2 exactly     40-digit reference + Richardson of hand-coded s (fd-ref)  fd-ref / fd-lib on every case with
                                         + Richardson of the returned s1 (fd-lib); symbolic        r != sigma (1000/1200/1051)
  cut-off term == s'(r_c) when shifting  compare_with_reference: s1rc; both directions             shift-on / shift-off ~50/50;
  and 0 otherwise                        (exactly 0 demanded when off); Hertz: documented 0        shift-rep bool 690 / np.bool_ 128 /
                                         round 3: flag as numpy.bool_ and as 0 / 1                 int01 182; call-default-shift 321
  selector returns the requested model   caller: all fields set; == method (1e-13) == reference;   ip-kw 478 / ip-pos 222; ccall-kw 340;
                                         round 3: InteractionParams positional, model by name /    lookup name 255 / attr 240 / value 205
                                         attribute / value, caller(interaction_params=...)
  "for every ..." as a function          purity re-evaluation in every model case; call_sequence   all 9 model transitions >= 160;
  (no state between evaluations)         (one object, 2..6 models); round 3: variants              differs-in-<field> per relevant
                                                                                                   field (see evidence), same-
                                                                                                   parameters-twice 565
  returned lists stay what they were     round 3 (EXTENSION_3 class 3): Alive keeps every returned  every case of every generated facet
                                         list + a copy of its items; model facets (incl. the
                                         r +- h evaluations), caller, call_sequence, variants
                                         re-compare all of them at the end of the case
  Weak before round 3: Hertz only inside contact (seeded C12-B / C12-C were caught by the symbolic facet through an
  exception only); r never equal to r_c; n, alpha, A, eps, sigma in narrow positive ranges; A never defaulted; method
  parameters always by keyword; shift always a python bool; no numpy integers; InteractionParams always by keyword;
  separate objects never evaluated with parameter sets one field apart.

EXTENSION_2 classes: 1 flag_audit: shift seen True/False (+0/1); A default, positional method arguments, keyword
`caller` added; 2 r = r_c, r > r_c, beyond contact, alpha < 2, A < 0, n outside 4..18; 3 python / numpy integers for
every parameter, numpy.bool_ / 0-1 flag; 4 value-gated paths: scale-wide magnitudes, large n, sigma >= 12 as integer;
6 call_sequence, variants, purity; 9 n odd / even, alpha odd / even beyond contact, sign of A, sign of 1 - r/sigma;
11 log-uniform magnitudes 1e-6..1e6 only (no subnormals), tolerances relative to the sum of |terms| of the reference.
Not applicable: 5 (no integer quotient), 7 (no frames), 8 (no neighbour lists), 10 (no cell).
EXTENSION_3: 3 applied (above); 2 model parameters also as numpy.float64 (num-np) next to python / numpy integers -
float32 is out (results would carry float32 precision, undefined by the docs); 1 no size axis; 4 no batches.
"""
from __future__ import annotations

import math

import mpmath as mp
import numpy as np
import sympy as sp
from hypothesis import strategies as st

from ..gen import fl
from ..harness import Facet, Violation, guarded_check
from ..ref import potentials as P
from ..util import require

from PyMatterSim.static.hessians import InteractionParams, ModelName, PairInteractions

RULE = ("generated (r, epsilon, sigma, r_c, shift) x model parameters (n integer and real in [4,18], A in [0.1,5], "
        "alpha in [2,3.5]; wide class: n in (0.5,48], A = +-1e-3..1e3, alpha in [1,6], eps 1e-6..1e6, sigma 1e-3..1e3) x "
        "argument number types (python / numpy floats and integers, bool / numpy.bool_ / 0-1 flag) x {named method, "
        "caller} x call styles; r/sigma in (0.3,3), wide (0.05,10), r = sigma, r = r_c, r > r_c (harmonic/Hertz: "
        "r/sigma in (0.3,1] for any alpha, (1,3] for whole-number alpha); non-trivial = epsilon != 1 and sigma != 1 and "
        "r != sigma and (model parameter differs from the repository's single test point n=10, A=1, alpha=2)")
ASSUMPTIONS = [
    "the documented s(r) of docs/hessian.md section I is the specification; derivatives by sympy, evaluated by mpmath "
    "with 40 digits (both trusted)",
    "tolerance 1e-12 relative to the sum of |additive terms| of the reference expression (float64 evaluation of a "
    "closed form; the LJ force cancels to 0 at r = 2^(1/6) sigma); harmonic/Hertz adds the conditioning of "
    "1 - r/sigma: 8 max(1,alpha) eps_mach / (1 - r/sigma)",
    "finite-difference oracles: Richardson O(h^4), h = 1e-5 (reference, 40 digits) / 1e-3 (library s1, float64) "
    "times the distance to the nearest singularity; tolerance 1e-7 of the term scale",
    "harmonic/Hertz: r <= sigma with alpha >= 2 (1 <= alpha < 2 strictly inside contact), r > sigma with whole-number "
    "alpha only (the documented s(r) is not real otherwise); cut-off term 0 as documented",
    "a list returned earlier is never modified by a later evaluation (all generated facets re-compare every list they "
    "received with a copy taken at return)",
    "numpy / python integers, numpy.bool_ and 0/1 flags, positional arguments and the default A = 1.0 are inputs the "
    "unchanged code accepts and the docs' examples use (ipl_n=10); arrays for r are not generated",
    "the returned s1 difference oracle (fd-lib) carries a truncation term (h/r)^4 (n+2)(n+3)(n+4)(n+5)/480 <= 1.5e-8 "
    "for n <= 48, inside its 1e-7 tolerance",
]
MANIFEST = {
    "text": ("Generated-input differential check of PairInteractions.lennard_jones / inverse_power_law / "
             "harmonic_hertz / caller against sympy-differentiated documented potentials evaluated with 40-digit "
             "mpmath (rtol 1e-12 of the term scale), two independent Richardson finite-difference oracles, the "
             "cut-off term under both shift settings (flag as bool, numpy.bool_, 0/1), the selector with fully populated "
             "InteractionParams (keyword / positional, model by name / attribute / value), ordinary and wide magnitudes, "
             "python and numpy integer parameters, r = sigma, r = r_c, r > r_c, Hertz beyond contact for whole-number "
             "alpha and 1 <= alpha < 2 inside contact, negative and defaulted prefactor; histories on one object "
             "(call_sequence) and parameter sets one field apart on fresh objects in one process (variants); plus a "
             "supplementary finite facet that calls the methods with sympy Symbols and requires the residuals to "
             "vanish identically (facets: lennard_jones, inverse_power_law, harmonic_hertz, call_sequence, "
             "call_sequence_long (thorough tier only), variants, caller, symbolic)."),
    "note": ("Sampling, not proof, for the numeric facets; the symbolic facet is an identity check of the closed forms "
             "as executed on sympy objects (valid because the methods contain only arithmetic and one `if shift`). "
             "Trusted base: sympy diff/simplify, mpmath. Harmonic/Hertz beyond contact only for whole-number alpha; "
             "for r_c != sigma its cut-off term is the documented 0, not s'(r_c). Array-valued r is not explored."),
    "technique": ("property-based testing (Hypothesis): reference-model differential (computer-algebra derivative, "
                  "40-digit evaluation) + finite-difference metamorphic relation + finite symbolic-substitution "
                  "enumeration"),
}

EPS = 2.0 ** -52
GOLDEN = {"n": 10, "A": 1.0, "alpha": 2.0}


# ----------------------------------------------------------------------------- strategies

# whole-number parameters as an integer parameter matrix would hold them (HessianMatrix hands sigmas[i, j] on as it
# is; the defect fixed by 8de5ede came from an integer `epsilons` array).  12^18 and 20^15 exceed int64: an
# evaluation that raises sigma (not sigma/r) to the power n is only wrong for numpy integers of that size.
_SIGMA_INT = [1, 2, 3, 1, 2, 3, 5, 12, 20, 100, 340]
_NUM = ["py", "py", "py", "np", "np", "int", "npint"]
_INTKINDS = ("int", "npint")


def _pow10(lo, hi):
    """10^u, u uniform in [lo, hi] in steps of 0.01 (log-uniform magnitudes, no subnormals, shrinks towards 10^lo)."""
    return st.integers(int(round(lo * 100)), int(round(hi * 100))).map(lambda k: float(10.0 ** (k / 100.0)))


@st.composite
def case_st(draw, model=None, via=None):
    model = model or draw(st.sampled_from(P.MODELS))
    num = draw(st.sampled_from(_NUM))
    scale = "ordinary" if num in _INTKINDS else draw(st.sampled_from(["ordinary", "ordinary", "ordinary", "wide"]))
    if num in _INTKINDS:
        # users write PairInteractions(r=.., epsilon=1, sigma=1, r_c=3): whole numbers for the scales
        sigma = float(draw(st.sampled_from(_SIGMA_INT)))
        eps = float(draw(st.one_of(st.integers(1, 10), st.just(100))))
    elif scale == "wide":
        sigma, eps = draw(_pow10(-3, 3)), draw(_pow10(-6, 6))
    else:
        sigma = draw(st.one_of(st.sampled_from([1.0, 2.0]), st.integers(50, 300).map(lambda k: k / 100.0),
                               fl(0.5, 3.0)))
        eps = draw(st.one_of(st.sampled_from([1.0, 2.0]), st.integers(10, 1000).map(lambda k: k / 100.0),
                             fl(0.1, 10.0)))
    r_int = False
    alpha = None
    if model == "harmonic_hertz":
        region = draw(st.sampled_from(["generic", "generic", "generic", "near-contact", "contact", "beyond-contact",
                                       "beyond-contact", "alpha<2"]))
        if region == "contact":
            x = 1.0
            r_int = num in _INTKINDS
        elif region == "near-contact":
            x = 1.0 - draw(fl(1e-3, 2e-2))
        elif region == "beyond-contact":
            # (1 - r/sigma)^alpha is real beyond contact for whole-number alpha only (python gives a complex number,
            # numpy nan, for a fractional power of a negative base): alpha in {2..6}, both parities
            if num in _INTKINDS and draw(st.booleans()):
                x, r_int = float(draw(st.sampled_from([2, 3]))), True
            else:
                x = draw(st.one_of(fl(1e-3, 2e-2).map(lambda d: 1.0 + d), st.integers(101, 300).map(lambda k: k / 100.0),
                                   fl(1.001, 3.0)))
            alpha = float(draw(st.sampled_from([2, 3, 4, 5, 6, 3, 2])))
        else:
            x = draw(st.one_of(st.integers(31, 99).map(lambda k: k / 100.0), fl(0.3, 0.999)))
            if region == "alpha<2":
                # 1 <= alpha < 2: s'' = eps/sigma^2 (alpha-1) (1 - r/sigma)^(alpha-2) is finite strictly inside contact
                alpha = draw(st.one_of(st.sampled_from([1.0, 1.5]), fl(1.0, 1.999)))
        c = 1.0 if draw(st.integers(0, 2)) < 2 and x <= 1.0 else draw(fl(1.1, 4.0))
    else:
        region = draw(st.sampled_from(["generic", "generic", "generic", "lj-minimum", "at-sigma", "at-cutoff"]))
        if region == "lj-minimum":
            x = 2.0 ** (1.0 / 6.0) * (1.0 + draw(st.sampled_from([0.0, 1e-9, -1e-7, 1e-4, -1e-3])))
        elif region == "at-sigma":
            x = 1.0
            r_int = num in _INTKINDS
        elif num in _INTKINDS and draw(st.integers(0, 3)) == 0:
            x, r_int = float(draw(st.sampled_from([2, 3, 1]))), True
        elif scale == "wide":
            x = draw(_pow10(-1.3, 1.0))
        else:
            x = draw(st.one_of(st.integers(31, 299).map(lambda k: k / 100.0), fl(0.3, 3.0)))
        c = draw(st.one_of(st.sampled_from([2.5, 1.48]), fl(1.1, 4.0), fl(4.0, 10.0) if scale == "wide" else fl(1.1, 4.0)))
    r = sigma * x
    rc = sigma * c
    if num in _INTKINDS and c != 1.0:
        rc = float(math.ceil(rc))
    if model == "harmonic_hertz" and x <= 1.0 and r > sigma:   # rounding of sigma * x
        r = sigma
    if region == "at-cutoff":
        r, r_int = rc, num in _INTKINDS       # r == r_c exactly: s1 and the cut-off term coincide when shifting
    shift = draw(st.booleans())
    if scale == "wide":
        ntype = draw(st.sampled_from(["int", "real"]))
        n = draw(st.integers(1, 48)) if ntype == "int" else draw(fl(0.5, 48.0))
        A = draw(st.sampled_from([1.0, 1.0, -1.0])) * draw(_pow10(-3, 3))
        if alpha is None:
            alpha = draw(st.one_of(st.sampled_from([2.0, 2.5, 3.0, 4.0]), fl(2.0, 6.0)))
    else:
        ntype = draw(st.sampled_from(["int", "int", "real"]))
        n = draw(st.integers(4, 18)) if ntype == "int" else draw(fl(4.0, 18.0))
        A = draw(st.one_of(st.just(1.0), st.integers(10, 500).map(lambda k: k / 100.0), fl(0.1, 5.0)))
        if alpha is None:
            alpha = draw(st.one_of(st.sampled_from([2.0, 2.5, 3.0]), fl(2.0, 3.5)))
    if ntype == "int" and num != "npint" and draw(st.booleans()):
        n = float(n)
    if float(alpha).is_integer() and (num == "npint" or draw(st.booleans())):
        alpha = int(alpha)
    via = via or draw(st.sampled_from(["method", "method", "caller"]))
    mcall = draw(st.sampled_from(["kw", "pos", "default-A"]))
    if mcall == "default-A" and draw(st.booleans()):
        A = 1.0          # inverse_power_law(n) with the prefactor left to its documented default 1.0
    return {"model": model, "r": float(r), "eps": float(eps), "sigma": float(sigma), "rc": float(rc), "shift": shift,
            "n": n, "A": float(A), "alpha": alpha, "num": num, "via": via, "region": region, "scale": scale,
            "r_int": bool(r_int and float(r).is_integer()),
            "call": draw(st.sampled_from(["kw", "pos", "default-shift"])),
            "shift_rep": draw(st.sampled_from(["bool", "bool", "bool", "bool", "np.bool_", "int01"])),
            "mcall": mcall,
            "ccall": draw(st.sampled_from(["pos", "kw"])),
            "ip_style": draw(st.sampled_from(["kw", "kw", "pos"])),
            "lookup": draw(st.sampled_from(["name", "attr", "value"]))}


# ----------------------------------------------------------------------------- calling the code under test


def _whole(x, kind):
    """A whole number as python int or numpy.int64; anything else stays what it is."""
    if isinstance(x, (float, np.floating)) and not float(x).is_integer():
        return x
    return np.int64(int(x)) if kind == "npint" else int(x)


def make_pair(case, r=None):
    k = case["num"]
    exact_r = r is None
    r = case["r"] if r is None else r
    if k in _INTKINDS:
        e, s, c = _whole(case["eps"], k), _whole(case["sigma"], k), _whole(case["rc"], k)
        rr = _whole(r, k) if (exact_r and case.get("r_int")) else (np.float64(r) if k == "npint" else r)
    else:
        rr, e, s, c = (_num(v, k) for v in (r, case["eps"], case["sigma"], case["rc"]))
    shift = case["shift"]
    rep = case.get("shift_rep", "bool")
    if rep == "np.bool_":
        shift = np.bool_(shift)          # a flag taken out of a boolean array
    elif rep == "int01":
        shift = int(shift)
    if case["call"] == "pos":
        return PairInteractions(rr, e, s, c, shift)
    if case["call"] == "default-shift" and case["shift"]:
        return PairInteractions(r=rr, epsilon=e, sigma=s, r_c=c)  # documented default: shift=True
    return PairInteractions(r=rr, epsilon=e, sigma=s, r_c=c, shift=shift)


def _num(x, kind):
    """How the caller spells a number: python float, numpy float64 (what HessianMatrix passes), python int."""
    if kind == "np":
        return np.float64(x)
    return x


def _par(case):
    """Model parameters as the caller spells them (numpy.int64 exponents with an integer parameter set)."""
    n, al = case["n"], case["alpha"]
    A = case["A"]
    if case["num"] == "npint":
        n, al = _whole(n, "npint"), _whole(al, "npint")
    elif case["num"] == "np":
        n, A, al = np.float64(n), np.float64(A), np.float64(al)     # parameters read from a float array / loadtxt
    return n, A, al


def a_default(case):
    """The call leaves the prefactor to the documented default A = 1.0 (only possible where A is 1)."""
    return case.get("mcall") == "default-A" and case["A"] == 1.0


def call_method(case, pair):
    m = case["model"]
    n, A, al = _par(case)
    style = case.get("mcall", "kw")
    if m == "lennard_jones":
        return pair.lennard_jones()
    if m == "inverse_power_law":
        if a_default(case):
            return pair.inverse_power_law(n)
        return pair.inverse_power_law(n, A) if style == "pos" else pair.inverse_power_law(n=n, A=A)
    return pair.harmonic_hertz(al) if style == "pos" else pair.harmonic_hertz(alpha=al)


def _model_name(case):
    m = case["model"]
    how = case.get("lookup", "name")
    if how == "attr":
        return getattr(ModelName, m)
    if how == "value":
        return ModelName({"lennard_jones": 1, "inverse_power_law": 2, "harmonic_hertz": 3}[m])
    return ModelName[m]


def call_caller(case, pair, full=False):
    m = case["model"]
    n, A, al = _par(case)
    if full and case.get("ip_style") == "pos":
        ip = InteractionParams(_model_name(case), n, A, al)      # field order model_name, ipl_n, ipl_A, harmonic_hertz_alpha
    else:
        kw = {}
        if full or m == "inverse_power_law":
            kw.update(ipl_n=n, ipl_A=A)
        if full or m == "harmonic_hertz":
            kw.update(harmonic_hertz_alpha=al)
        ip = InteractionParams(model_name=_model_name(case), **kw)
    if case.get("ccall") == "kw":
        return pair.caller(interaction_params=ip)               # as tests/static/hessian_test.py calls it
    return pair.caller(ip)


class Alive:
    """Results handed out earlier must stay what they were (EXTENSION_3 class 3): every returned list is kept together
    with a copy of its items taken at return time; `recheck` compares all of them at the end of the case.  A work list
    reused between calls (on the object, the class or the module) is right at return and wrong one call later."""

    def __init__(self):
        self.items = []

    def keep(self, name, out):
        if isinstance(out, (list, np.ndarray)):
            self.items.append((name, out, list(out)))
        return out

    def recheck(self):
        for name, out, snap in self.items:
            now = list(out)
            require(len(now) == len(snap) and all(a is b or a == b for a, b in zip(now, snap)),
                    lambda: f"{name}: the list returned by this call was changed by a LATER call: "
                            f"held {snap!r} at return, holds {now!r} now")


def triple(name, out):
    """[s1, s1rc, s2]: a sequence of three real finite numbers."""
    require(isinstance(out, (list, tuple, np.ndarray)), f"{name}: returned {type(out).__name__}, expected a list")
    require(len(out) == 3, f"{name}: returned {len(out)} values, expected [s1, s1rc, s2]")
    vals = []
    for lab, v in zip(("s1", "s1rc", "s2"), out):
        require(isinstance(v, (int, float, np.integer, np.floating)) and not isinstance(v, bool),
                f"{name}: {lab} is {type(v).__name__} ({v!r}), expected a real number")
        require(math.isfinite(float(v)), f"{name}: {lab} = {v!r} is not finite")
        vals.append(float(v))
    return vals


# ----------------------------------------------------------------------------- oracle


def _within(name, got, want, tol, case):
    with mp.workdps(P.DPS):
        err = abs(mp.mpf(got) - want)
        if not err <= tol:
            raise Violation(f"{name}: got {got!r}, documented value {mp.nstr(want, 20)}, |diff| = {mp.nstr(err, 5)} "
                            f"> tol {mp.nstr(tol, 5)}; inputs {brief(case)}")


def brief(case):
    return {k: case[k] for k in ("model", "r", "eps", "sigma", "rc", "shift", "n", "A", "alpha", "via", "num", "r_int",
                                 "call", "shift_rep", "mcall", "ccall", "ip_style", "lookup") if k in case}


def beyond_contact(case):
    return case["model"] == "harmonic_hertz" and case["r"] > case["sigma"]


def compare_with_reference(name, vals, case, fd=True):
    m = case["model"]
    s1, s1rc, s2 = vals
    ref = P.derivs(m, case["r"], case["eps"], case["sigma"], case["rc"], case["n"], case["A"], case["alpha"])
    for k in ("scale_s", "scale_s1", "scale_s2", "scale_s1_rc"):
        ref[k] = abs(ref[k])      # the reference builds the scales for positive symbols; A < 0 flips their sign
    rt = mp.mpf(1e-12)
    if m == "harmonic_hertz":
        gap = abs(1.0 - case["r"] / case["sigma"])
        if gap > 0:
            rt = rt + 8 * max(1.0, float(case["alpha"])) * EPS / gap
    _within(f"{name}: s1 = ds/dr", s1, ref["s1"], rt * ref["scale_s1"], case)
    _within(f"{name}: s2 = d2s/dr2", s2, ref["s2"], rt * ref["scale_s2"], case)
    want_c = P.documented_s1rc(m, case["shift"], ref)
    if want_c == 0:
        require(s1rc == 0, lambda: f"{name}: cut-off term must be 0 (shift={case['shift']}, model {m}), got {s1rc!r}; "
                                   f"inputs {brief(case)}")
    else:
        _within(f"{name}: s1rc = ds/dr at r_c", s1rc, want_c, mp.mpf(1e-12) * ref["scale_s1_rc"], case)
    if m == "harmonic_hertz" and case["rc"] == case["sigma"] and case["alpha"] > 1:
        # where the documented 0 and the true derivative coincide (alpha = 1: s'(sigma) = -eps/sigma, documented 0)
        require(ref["s1_rc"] == 0, "reference: s'(sigma) of the Hertz potential should vanish")
    tags = []
    if fd:
        f = P.fd_derivs(m, case["r"], case["eps"], case["sigma"], case["n"], case["A"], case["alpha"],
                        beyond_contact=beyond_contact(case) and float(case["alpha"]).is_integer())
        if f is not None:
            ft = mp.mpf(1e-7)
            _within(f"{name}: s1 vs Richardson difference of s", s1, f[0], ft * ref["scale_s1"] + rt * ref["scale_s1"],
                    case)
            _within(f"{name}: s2 vs Richardson second difference of s", s2, f[1],
                    ft * ref["scale_s2"] + rt * ref["scale_s2"], case)
            tags.append("fd-ref")
    return ref, tags


def lib_fd(case, get):
    """Richardson central difference of the library's own s1(r) -> compare with its s2."""
    r, sg = case["r"], case["sigma"]
    rho = r if case["model"] != "harmonic_hertz" else min(r, abs(sg - r))
    if rho <= 0:
        return None
    h = 1e-3 * rho

    def s1_at(x):
        return triple("s1(r +- h)", get(make_pair(case, r=x)))[0]

    def d(hh):
        lo, hi = r - hh, r + hh
        return (s1_at(hi) - s1_at(lo)) / (hi - lo)

    return (4.0 * d(h / 2) - d(h)) / 3.0


def check(case):
    m, via = case["model"], case["via"]
    get = (lambda p: call_method(case, p)) if via == "method" else (lambda p: call_caller(case, p))
    name = f"{m} via {via}"
    alive = Alive()
    raw = get
    get = lambda p: alive.keep(name, raw(p))  # noqa: E731
    vals = triple(name, get(make_pair(case)))
    ref, tags = compare_with_reference(name, vals, case)
    d = lib_fd(case, get)
    if d is not None:
        _within(f"{name}: returned s2 vs Richardson difference of the returned s1", d, ref["s2"],
                mp.mpf(1e-7) * ref["scale_s2"], case)
        tags.append("fd-lib")
    # purity: same object asked twice, and a second object with the same inputs
    p = make_pair(case)
    again = [triple(name, get(p)), triple(name, get(p))]
    require(again[0] == again[1] == vals, f"{name}: repeated calls differ: {vals} {again}")
    alive.recheck()          # incl. the results at r +- h of the difference oracle: same object class, other r
    tags += [via] + class_tags(case)
    x = case["r"] / case["sigma"]
    generic_par = {"lennard_jones": True,
                   "inverse_power_law": case["n"] != GOLDEN["n"] or case["A"] != GOLDEN["A"],
                   "harmonic_hertz": case["alpha"] != GOLDEN["alpha"]}[m]
    nontrivial = bool(case["eps"] != 1.0 and case["sigma"] != 1.0 and x != 1 and generic_par)
    return {"nontrivial": nontrivial, "tags": tags}


def class_tags(case):
    """Class histogram: which region of every axis of the quantifier this case lies in."""
    m = case["model"]
    x = case["r"] / case["sigma"]
    tags = ["shift-on" if case["shift"] else "shift-off", "shift-rep-" + case.get("shift_rep", "bool"),
            "num-" + case["num"], "region-" + case["region"], "scale-" + case.get("scale", "ordinary"),
            "r<sigma" if x < 1 else "r=sigma" if x == 1 else "r>sigma",
            "r>rc" if case["r"] > case["rc"] else "r=rc" if case["r"] == case["rc"] else "r<rc",
            "call-" + case["call"]]
    if case.get("r_int"):
        tags.append("r-whole-number")
    if case["num"] in _INTKINDS and case["sigma"] >= 12:
        tags.append("sigma-int>=12")
    if m == "inverse_power_law":
        n = float(case["n"])
        tags += ["n-int" if n.is_integer() else "n-real", "n<4" if n < 4 else "n>18" if n > 18 else "n-4..18",
                 "A<0" if case["A"] < 0 else "A=1" if case["A"] == 1.0 else "A>0"]
        if n.is_integer():
            tags.append("n-odd" if int(n) % 2 else "n-even")
            tags.append("n-type-" + type(_par(case)[0]).__name__)
        if case["via"] == "method":
            tags.append("mcall-default-A" if a_default(case) else "mcall-" + ("pos" if case.get("mcall") == "pos" else "kw"))
    if m == "harmonic_hertz":
        al = float(case["alpha"])
        tags.append("alpha-" + ("2" if al == 2 else "2.5" if al == 2.5 else "3" if al == 3 else
                                "<2" if al < 2 else ">3.5" if al > 3.5 else "real"))
        tags.append("rc=sigma" if case["rc"] == case["sigma"] else "rc>sigma")
        tags.append("alpha-type-" + type(_par(case)[2]).__name__)
        if x > 1:
            tags.append("beyond-contact-alpha-odd" if int(al) % 2 else "beyond-contact-alpha-even")
        if case["via"] == "method":
            tags.append("mcall-" + ("pos" if case.get("mcall") == "pos" else "kw"))
    if case["via"] == "caller":
        tags += ["ccall-" + case.get("ccall", "pos"), "lookup-" + case.get("lookup", "name")]
    return tags


def check_caller(case):
    """Selector: all InteractionParams fields populated; result == named method == reference."""
    m = case["model"]
    name = f"caller({m})"
    alive = Alive()
    got = triple(name, alive.keep(name, call_caller(case, make_pair(case), full=True)))
    want = triple(f"{m}()", alive.keep(f"{m}()", call_method(case, make_pair(case))))
    alive.recheck()
    for lab, g, w in zip(("s1", "s1rc", "s2"), got, want):
        require(abs(g - w) <= 1e-13 * abs(w),
                lambda: f"{name}: {lab} = {g!r} but the named method with the same parameters gives {w!r}; "
                        f"inputs {brief(case)}")
    compare_with_reference(name, got, case, fd=False)
    distinct = case["n"] != 12 and case["n"] != 6  # IPL(n=12) is one LJ term: keep the branches distinguishable
    return {"nontrivial": bool(distinct and case["eps"] != 1.0 and case["sigma"] != 1.0),
            "tags": [m, "shift-on" if case["shift"] else "shift-off", "num-" + case["num"],
                     "ip-" + case.get("ip_style", "kw"), "ccall-" + case.get("ccall", "pos"),
                     "lookup-" + case.get("lookup", "name"), "scale-" + case.get("scale", "ordinary"),
                     "shift-rep-" + case.get("shift_rep", "bool")]
            + (["beyond-contact"] if beyond_contact(case) else [])}


@st.composite
def sequence_st(draw, nsteps=(2, 6)):
    """One PairInteractions object asked for several models in a drawn order (the library's own Hessian code and its
    test do exactly that).  Each answer must be the documented triple of THAT model with THAT call's parameters,
    whatever was evaluated on the object before (seeded C12-D: a prefactor stored by inverse_power_law(A) leaked into
    the next lennard_jones())."""
    base = draw(case_st("harmonic_hertz"))
    gap = 1.0 - base["r"] / base["sigma"]
    steps = []
    for _ in range(draw(st.integers(*nsteps))):
        c = draw(case_st())
        al = c["alpha"]
        if gap < 0:                       # beyond contact: whole-number spring exponents only
            al = draw(st.sampled_from([2, 3, 4, 5, 2.0, 3.0]))
        elif gap < 1e-3 and al < 2:       # at / next to contact: s'' needs alpha >= 2
            al = 2.0
        steps.append({"model": c["model"], "n": c["n"], "A": c["A"], "alpha": al, "mcall": c["mcall"],
                      "via": draw(st.sampled_from(["method", "caller", "caller-full"]))})
    base["steps"] = steps
    return base


def check_sequence(case):
    pair = make_pair(case)
    tags, models = [], []
    alive = Alive()
    for k, stp in enumerate(case["steps"]):
        c = dict(case, **{f: stp[f] for f in ("model", "n", "A", "alpha", "mcall") if f in stp})
        name = f"step {k} ({stp['model']} via {stp['via']}) after {models or 'nothing'} on one object"
        out = call_method(c, pair) if stp["via"] == "method" else call_caller(c, pair, full=stp["via"] == "caller-full")
        compare_with_reference(name, triple(name, alive.keep(name, out)), c, fd=False)
        models.append(stp["model"])
    alive.recheck()
    pairs = {(a, b) for a, b in zip(models, models[1:])}
    tags += sorted({f"{a[:3]}->{b[:3]}" for a, b in pairs})
    tags.append("A!=1-before-lj" if any(s["model"] == "inverse_power_law" and s["A"] != 1.0 and
                                        "lennard_jones" in models[i + 1:] for i, s in enumerate(case["steps"])) else "other-order")
    tags += ["num-" + case["num"], "beyond-contact" if beyond_contact(case) else "within-contact"]
    return {"nontrivial": bool(len(set(models)) >= 2), "tags": tags}


def describe_sequence(case):
    d = describe(case)
    d["steps"] = [(s["model"], s["via"], s["n"], s["A"], s["alpha"]) for s in case["steps"]]
    return d


def describe(case):
    return brief(case)


# ----------------------------------------------------------------------------- several objects, one field apart
#
# seeded C12-A cached the cut-off term per "type pair" with a key that omitted A.  The general class: 2..4 parameter
# sets that differ from a base set in exactly ONE field (r, epsilon, sigma, r_c, shift, n, A, alpha - or in nothing),
# evaluated in a drawn order on fresh objects in one process; every answer is compared with the reference for the
# parameters of THAT evaluation.  Anything memoised on a subset of the inputs, at class or module level, gives the
# second variant the first one's numbers.

_FIELDS = ("r", "eps", "sigma", "rc", "shift", "n", "A", "alpha", "none")
_RELEVANT = {"lennard_jones": ("r", "eps", "sigma", "rc", "shift"),
             "inverse_power_law": ("r", "eps", "sigma", "rc", "shift", "n", "A", "n", "A"),
             "harmonic_hertz": ("r", "eps", "sigma", "alpha", "alpha")}


@st.composite
def variants_st(draw):
    base = draw(case_st())
    hz = base["model"] == "harmonic_hertz"
    beyond = hz and base["r"] > base["sigma"]
    variants = [{}]
    for _ in range(draw(st.integers(1, 3))):
        # mostly a field the model depends on; sometimes one it must ignore, sometimes nothing at all
        f = draw(st.sampled_from(_RELEVANT[base["model"]] * 2 + _FIELDS))
        if f == "r":
            # towards smaller r inside contact (stays inside), towards larger r beyond it (stays beyond)
            v = {"r": base["r"] * draw(fl(1.05, 1.5) if (beyond or not hz) else fl(0.6, 0.95)), "r_int": False}
        elif f == "eps":
            v = {"eps": base["eps"] * draw(st.sampled_from([2.0, 0.5, 3.0]))}
        elif f == "sigma":
            # larger sigma keeps r inside contact; beyond contact a smaller one keeps r beyond
            v = {"sigma": base["sigma"] * (0.5 if beyond else 2.0)}
        elif f == "rc":
            v = {"rc": base["rc"] * 2.0}
        elif f == "shift":
            v = {"shift": not base["shift"]}
        elif f == "n":
            v = {"n": base["n"] + draw(st.sampled_from([1, 2, 6]))}
        elif f == "A":
            v = {"A": base["A"] * draw(st.sampled_from([2.0, 0.5, -1.0]))}
        elif f == "alpha":
            v = {"alpha": base["alpha"] + draw(st.sampled_from([1, 2]))}   # stays a whole number / stays >= alpha
        else:
            v = {}
        variants.append(v)
    order = draw(st.lists(st.integers(0, len(variants) - 1), min_size=len(variants) + 1, max_size=2 * len(variants) + 2))
    base["variants"] = variants
    base["order"] = order
    base["vias"] = [draw(st.sampled_from(["method", "caller", "caller-full"])) for _ in order]
    return base


def check_variants(case):
    tags = set()
    fields_seen = []
    alive = Alive()
    relevant = set(_RELEVANT[case["model"]])
    for k, (i, via) in enumerate(zip(case["order"], case["vias"])):
        v = case["variants"][i]
        c = dict(case, **v)
        if c["num"] in _INTKINDS and not all(float(c[f]).is_integer() for f in ("eps", "sigma", "rc")):
            c["num"] = "py" if c["num"] == "int" else "np"       # a halved whole number is no longer one
        what = ", ".join(f"{f} = {x!r}" for f, x in v.items() if f != "r_int") or "the base parameters"
        name = (f"evaluation {k} ({c['model']} via {via}, {what}) after evaluations of variants "
                f"{list(case['order'][:k])} in the same process")
        pair = make_pair(c)
        out = call_method(c, pair) if via == "method" else call_caller(c, pair, full=via == "caller-full")
        compare_with_reference(name, triple(name, alive.keep(name, out)), c, fd=False)
        fields_seen.append(frozenset(f for f in v if f != "r_int"))
    alive.recheck()
    for a in set(fields_seen):
        for f in a:
            tags.add("differs-in-" + f + ("" if f in relevant else "(irrelevant-to-model)"))
    if frozenset() in fields_seen and fields_seen.count(frozenset()) >= 2:
        tags.add("same-parameters-twice")
    tags.add(case["model"])
    tags.add("num-" + case["num"])
    changed = {f for a in fields_seen for f in a}
    return {"nontrivial": bool(len(set(case["order"])) >= 2 and (changed & relevant)), "tags": sorted(tags)}


def describe_variants(case):
    d = describe(case)
    d["variants"] = case["variants"]
    d["order"] = list(zip(case["order"], case["vias"]))
    return d


# ----------------------------------------------------------------------------- symbolic substitution (finite)

_r, _e, _s, _c = sp.symbols("r epsilon sigma r_c", positive=True)
_n, _A, _al = sp.symbols("n A alpha", positive=True)
# fixed rational evaluation points (r < sigma so that Hertz is real), used only if simplify() cannot decide
_POINTS = [
    {_r: sp.Rational(7, 10), _e: sp.Rational(13, 10), _s: sp.Rational(11, 10), _c: sp.Rational(5, 2),
     _n: sp.Rational(10), _A: sp.Rational(3, 2), _al: sp.Rational(5, 2)},
    {_r: sp.Rational(93, 100), _e: sp.Rational(2, 7), _s: sp.Rational(17, 10), _c: sp.Rational(31, 10),
     _n: sp.Rational(37, 5), _A: sp.Rational(1, 3), _al: sp.Rational(16, 5)},
    {_r: sp.Rational(41, 20), _e: sp.Rational(9, 2), _s: sp.Rational(9, 4), _c: sp.Rational(27, 10),
     _n: sp.Rational(12), _A: sp.Rational(5), _al: sp.Rational(2)},
]


def symbolic_cases():
    out = []
    for shift in (True, False):
        for via in ("method", "caller"):
            out.append({"model": "lennard_jones", "shift": shift, "via": via, "par": "-"})
            for par in ("n,A symbolic", "n=6", "n=10", "n=12", "n=15/2", "n=1", "n=3", "n=36"):
                out.append({"model": "inverse_power_law", "shift": shift, "via": via, "par": par})
            for par in ("alpha symbolic", "alpha=2", "alpha=5/2", "alpha=3", "alpha=1", "alpha=3/2", "alpha=4", "alpha=5"):
                out.append({"model": "harmonic_hertz", "shift": shift, "via": via, "par": par})
    return out


def _is_zero(res):
    """True / False (decided by simplification, else by 50-digit evaluation at the fixed points)."""
    res = sp.sympify(res)
    if res == 0:
        return True, "structural"
    simp = sp.simplify(res)
    if simp == 0:
        return True, "simplify"
    worst = 0
    for pt in _POINTS:
        v = sp.N(res.subs(pt), 50)
        scale = sum(abs(sp.N(t.subs(pt), 50)) for t in sp.Add.make_args(sp.expand(res))) or 1
        worst = max(worst, abs(v) / scale)
    return bool(worst < sp.Float("1e-40")), f"numeric (relative residual {sp.N(worst, 3)})"


def symbolic_check(case):
    m, shift = case["model"], case["shift"]
    par = case["par"]
    nv, Av, av = _n, _A, _al
    if par.startswith("n="):
        nv = sp.Rational(par[2:])
    if par.startswith("alpha="):
        av = sp.Rational(par[6:])
    pair = PairInteractions(_r, _e, _s, _c, shift)
    if case["via"] == "caller":
        out = pair.caller(InteractionParams(ModelName[m], ipl_n=nv, ipl_A=Av, harmonic_hertz_alpha=av))
    elif m == "lennard_jones":
        out = pair.lennard_jones()
    elif m == "inverse_power_law":
        out = pair.inverse_power_law(n=nv, A=Av)
    else:
        out = pair.harmonic_hertz(alpha=av)
    require(isinstance(out, (list, tuple)) and len(out) == 3, f"symbolic {m}: expected [s1, s1rc, s2], got {out!r}")
    s1, s1rc, s2 = out
    s = P.documented(m).subs({P.r: _r, P.eps: _e, P.sig: _s, P.n: nv, P.A: Av, P.alpha: av}, simultaneous=True)
    d1, d2 = sp.diff(s, _r), sp.diff(s, _r, 2)
    how = []
    for lab, got, want in (("s1 - ds/dr", s1, d1), ("s2 - d2s/dr2", s2, d2)):
        ok, why = _is_zero(got - want)
        how.append(why.split()[0])
        require(ok, lambda: f"symbolic {m} ({par}, shift={shift}, via {case['via']}): {lab} is not identically zero "
                            f"[{why}]: returned {got}, documented derivative {sp.simplify(want)}")
    if m == "harmonic_hertz" or not shift:
        require(sp.sympify(s1rc) == 0, f"symbolic {m} ({par}, shift={shift}): cut-off term should be 0, got {s1rc}")
    else:
        ok, why = _is_zero(s1rc - d1.subs(_r, _c))
        how.append(why.split()[0])
        require(ok, lambda: f"symbolic {m} ({par}, shift on, via {case['via']}): s1rc - [ds/dr](r_c) is not identically "
                            f"zero [{why}]: returned {s1rc}")
    return {"nontrivial": True, "tags": [m, "shift-on" if shift else "shift-off", case["via"], par.split("=")[0]]
            + ["decided-by-" + h for h in sorted(set(how))]}


def symbolic_table(tier):
    for case in symbolic_cases():
        try:
            info = guarded_check(symbolic_check, case)
        except Violation as v:
            v.case = case
            raise
        yield case, info


_sym = Facet("symbolic", check=symbolic_table, exhaustive=True, describe=lambda c: dict(c),
             rule="finite (supplementary, not a generated case): 3 models x {shift on, off} x {named method, caller} x "
                  "{symbolic / fixed exponents}; methods called with sympy Symbols, residuals against sympy "
                  "derivatives of the documented s(r) must be identically zero")
_sym.replay = lambda case: guarded_check(symbolic_check, case)  # noqa: E731

_MODEL_RULE = ("r/sigma, epsilon, sigma, r_c, shift, number types generated; oracle: 40-digit sympy/mpmath derivative "
               "+ two Richardson difference oracles; non-trivial as in RULE")
FACETS = [
    Facet("lennard_jones", case_st("lennard_jones"), check, quick=1000, thorough=150000, describe=describe,
          rule=_MODEL_RULE, shards_quick=2),
    Facet("inverse_power_law", case_st("inverse_power_law"), check, quick=1200, thorough=150000, describe=describe,
          rule=_MODEL_RULE, shards_quick=2),
    Facet("harmonic_hertz", case_st("harmonic_hertz"), check, quick=1200, thorough=150000, describe=describe,
          rule=_MODEL_RULE, shards_quick=2),
    Facet("call_sequence", sequence_st(), check_sequence, quick=800, thorough=80000, describe=describe_sequence,
          shards_quick=2,
          rule="2..6 model evaluations (any of the three models, own parameters, via the method or the selector) on ONE "
               "PairInteractions object; every answer compared with the documented triple of that call; non-trivial = "
               ">= 2 different models in the sequence"),
    Facet("call_sequence_long", sequence_st(nsteps=(8, 30)), check_sequence, quick=0, thorough=12000,
          describe=describe_sequence,
          rule="thorough tier only: 8..30 evaluations on ONE object; oracle as in call_sequence"),
    Facet("variants", variants_st(), check_variants, quick=800, thorough=80000, describe=describe_variants,
          shards_quick=2,
          rule="2..4 parameter sets one field apart (r, epsilon, sigma, r_c, shift, n, A, alpha, or identical) evaluated "
               "in a drawn order (each set at least once, some twice) on fresh objects in one process; every answer vs "
               "the reference for the parameters of that evaluation; non-trivial = >= 2 different sets, differing in a "
               "field the model depends on"),
    Facet("caller", case_st(None, via="caller"), check_caller, quick=700, thorough=60000, describe=describe,
          rule="all three models, every InteractionParams field populated (keyword or positional construction, model by "
               "name / attribute / value, caller(ip) or caller(interaction_params=ip)); caller == named method (1e-13) "
               "== reference; non-trivial = epsilon, sigma != 1 and n not in {6, 12}"),
    _sym,
]
