"""C05 — neighbour lists hold exactly the right particles, nearest first, via the file.

Writer facets (Nnearests / cutoffneighbors / cutoffneighbors_particletype): the written text file is parsed by an
own parser and compared with an independent minimum-image reference (fractional rounding, contract of C02) under
the interval/ambiguity rule; crisp facet: integer coordinates in power-of-two boxes, everything exact, boundary
inclusive.  Reader facets: Hypothesis rule-based state machine over open files (library-written and synthetic) and a
sequential bulk reader over synthetic files at the size boundaries.

Preconditions imposed on generated inputs (each is what real callers satisfy):
  * no two particles coincide modulo the periodic lattice (calculate_neighbors.py drops "the first after sorting"
    as the centre itself, L66-70 / L128-131 / L199-200) — enforced by `assume` on the reference distances;
  * type ids exactly 1..K, all present, identical in all frames (cutoffneighbors_particletype builds its cut-off
    table from frame 0, L181-187); cut-off matrices are K x K numpy arrays (a nested list is rejected by the routine:
    IOError, probed) with positive entries;
  * N_nn <= N-1 (that many other particles exist); cut-offs below half the shortest periodic box edge;
  * reader: well-formed files only (header + nparticle rows per frame, ids a permutation of 1..nparticle, cn equal to
    the number of entries), Nmax >= 1, never reading past the last frame.  Text variants the unchanged reader accepts
    (probed): LF or CRLF line ends (handle opened with the default newline translation or with newline=''), blanks or
    tabs between fields, leading / trailing blanks, an unterminated last line, blank lines AFTER the last frame.

CLAUSES (statement / quantifier split into axes; facet.assertion that decides each; populated class tags)
-----------------------------------------------------------------------------------------------------------------------
 clause / axis                                decided by                                        classes (evidence tags)
-----------------------------------------------------------------------------------------------------------------------
 S1 N-nearest list = exactly the N closest    check_writer kind nn: cn == N for every id,       w-nn; Nnn=1 / Nnn-mid / Nnn=N-1 (largest
    OTHER particles                           neigh.nearest_ok (no unlisted particle definitely accepted) / Nnn-boundary-31..129;
                                              closer than a listed one, ambiguity 1e-9*scale);  N=2, N<=8 .. N>=150, size-boundary-*;
                                              crisp: exact rational distances                   style-clusters / -void / -slab / -droplet
 S2 global cut-off list = exactly the pairs   check_writer kind cut: neigh.cutoff_classes       w-cut; cn-varies / cn-uniform, some-cn0,
    with d <= r_cut, boundary inclusive       (definitely in / out; ambiguous may go either     frame-all-empty, all-pairs-listed,
                                              way); crisp: d^2 <= r^2 exact, pair ON the        maxcn>=32/64/128; on-boundary, just-outside,
                                              boundary must be listed                           rcut=5; rc-int / rc-np.int64 / rc-np.float64
 S3 type-pair cut-off: row = centre type,     check_writer kind type: rc[i,j] = M[t_i-1,t_j-1]  w-type; K1..K5; matrix-asym / matrix-sym;
    column = neighbour type                   same classes; crisp exact                         rcm-int64 / -float32 / -fortran / -strided;
                                                                                                types-int32 / -uint32 / -uint8
 S4 ordered by increasing minimum-image       neigh.order_ok on every list (ambiguity rule);    tie-pairs, exact-order-tie, ambiguous
    distance                                  crisp: exact d^2 non-decreasing
 S5 never the particle itself, ids 1-based,   parse_written: id in 1..N once, cn == len, no     every writer case (all facets)
    every id once, cn = length                self, no duplicate
 S6 global cut-off relation symmetric         check_writer kind cut: listed ^ listed.T only     w-cut (all), crisp cut
                                              on ambiguous pairs
 S7 minimum image for every cell and mask     reference = fractional rounding for the frame's   ortho / tri / general (axis-permuted tilted
                                              OWN cell; positions also outside the cell         cell); mask-full / -partial / -open; sheared;
                                                                                                offs-inside / -near / -far3 / -far8 / -far50;
                                                                                                oblique, whole-config-short-but-beyond-half-
                                                                                                cell (every pair short in every Cartesian
                                                                                                component, fractional coordinate > 1/2)
 S8 file: one header per frame, frames in     parse_written (T frames of 1 + N lines, header    frames1..4, frames-boundary-31..129;
    order without gap                         tokens id cn neighborlist); a frame written       schedule-repeated-frame, -timesteps-back
                                              twice / time stamps going back: still one list
                                              per frame in file order
 R1 reader: per particle id, cn then 0-based  compare_read vs neigh.reader_model (row of id k    syn-*-shuffled / -ordered; neighbor-read /
    indices (weights verbatim), id-indexed    at index k-1; -1 shift for neighbour lists only;  weight-read; cn0-rows; rows-boundary-*
    rows                                      integer dtype / float dtype)
 R2 zero-padded to the largest cn,            width 1 + min(max cn, Nmax); cn column min(cn,    truncated / Nmax=maxcn / Nmax>maxcn /
    truncated to the requested maximum        Nmax); padding exactly 0                          default-Nmax; cn-boundary-127..258 with
                                                                                                Nmax 128 / 199..201 / 256; Nmax=1
 R3 consecutive frames delivered in order     reader_machine (frame pointer model, reopen,      frame>=2-read, interleaved, reopen,
    from one open file                        rest of the text after k reads, two handles);     rest-checked-*; frames-boundary-*,
                                              reader_bulk (all F frames in sequence, F up to    eol-crlf / tail-blank-lines / sep-tab /
                                              129, text variants); read_back of every written   no-final-newline / newline-untranslated
                                              file
 R4 results handed out earlier stay what      reader_machine invariant + reader_bulk: every     kept-results-rechecked
    they were                                 returned array re-compared bit-for-bit with the
                                              copy taken at return, after all later reads
 Q1 argument representations (same values)    call_writer / make_snapshots apply case["rep"]    ppp-list/-tuple/-bool/-int32; N-np.int64/
                                                                                                -np.int32; fn-custom / fn-subdir /
                                                                                                default-args; pos-int64/-int32, cell-int64
                                                                                                (crisp); types-*; rc-*, rcm-*; ppp-float64;
                                                                                                counts-np.int64/-np.int32 (reader)
 Q2 histories on the writers (state carried   run_writer: an earlier call with other contents   prior-other-object, prior-same-object-inplace
    between calls)                            (other object, or the SAME snapshot arrays
                                              mutated in place) must not influence the result;
                                              the earlier file must stay as written
-----------------------------------------------------------------------------------------------------------------------
Round-3 audit: weak before = sizes (N <= 40 except seeded homogeneous gases for Nnearests; no block-size boundaries for any
size axis: particles, frames per file, rows per frame, entries per row); inhomogeneous large systems (none for the cut-off
writers, none at all with clusters / voids / free surfaces); unwrapped coordinates (|image offset| <= 1); cells (no general
/ axis-permuted tilted cell); K <= 3; float64 / int64 arrays only (no int32 / uint32 / uint8 labels, no integer positions,
cell, r_cut, matrix, no list / tuple / bool masks); fnfile never varied (flag audit); writers never called twice in a case;
reader results compared and discarded at once; LF-only files.  All have classes now.
Deliberately not asserted: behaviour at EOF / on malformed files / blank lines BETWEEN frames (rejected by the unchanged
reader), coincident particles, N_nn >= N, zero-particle frames (the reader raises on an empty frame), float32 positions
(the routine subtracts in float32: the oracle tolerance would have to be 1e-6), int32 specifically as the returned dtype.
"""
from __future__ import annotations

import dataclasses
import os

import numpy as np
from hypothesis import assume
from hypothesis import strategies as st
from hypothesis.extra import numpy as hnp
from hypothesis.stateful import initialize, invariant, precondition, rule

from ..gen import cell_st, fl, frac_config_st, ppp_st, snapshot_from, types_st
from ..harness import Facet, RecordingMachine, Violation
from ..ref import neigh
from ..util import arr, close, equal, require

from PyMatterSim.neighbors.calculate_neighbors import Nnearests, cutoffneighbors, cutoffneighbors_particletype
from PyMatterSim.neighbors.read_neighbors import read_neighbors
from PyMatterSim.reader.reader_utils import Snapshots

RULE = ("writers: generated configurations (gas / lattice with and without jitter / clusters; 2D,3D; orthogonal, "
        "LAMMPS-triclinic and axis-permuted tilted cells; all periodicity masks; positions inside the cell, one image "
        "outside, or unwrapped up to 3 / 8 / 50 cells away; N 1..40, plus seeded gases of 150..400 particles for the "
        "partition index, size boundaries N = 31..33, 49..51, 63..65, 99..101, 127..130, 199..201, 255..258 (thorough: "
        "499..501, 511..513, 999..1001, 1023..1025), 31..129 frames per file, and inhomogeneous systems of 150..400 "
        "particles: clusters in a dilute background, voids, slabs and droplets with free surfaces, compact two-corner "
        "clusters in tilted cells whose pairs are all short in Cartesian components but beyond the half cell; 1..4 "
        "frames, also sheared: per-frame tilt factors, a frame repeated, time stamps going back) x {N_nn 1..N-1 | global r_cut in a gap of the reference distances | K x K "
        "type-pair matrix, K 1..5, not symmetric} x argument representations (mask as list / tuple / bool / int32 / float, N as "
        "numpy integer, labels int32 / uint32 / uint8, integer r_cut / matrix where integral, Fortran / strided matrix, "
        "output file name) x an earlier call with other contents; crisp: integer coordinates (also as int64 / int32 "
        "arrays), power-of-two cells (also int64), integer cut-offs with planted Pythagorean pairs exactly at, just "
        "inside and just outside the cut-off. reader: histories of read / reopen / read-rest over 1-2 open files of "
        "1..4 frames; bulk sequential reads of synthetic files with rows / frames / entries per row at the size "
        "boundaries, LF / CRLF, tabs, blank tail. non-trivial: writers = some list holds >= 2 neighbours and (cut-off "
        "kinds) the coordination numbers differ within a frame; crisp = a pair sits exactly on the boundary (cut-off "
        "kinds) or an exact distance tie occurs (N-nearest); reader history = coordination numbers differ within a "
        "read frame and some read is truncated by Nmax and >= 2 consecutive frames are read from one handle; "
        "reader_bulk = cn differ within a frame and >= 2 frames read")
ASSUMPTIONS = [
    "minimum image = fractional rounding (contract of C02); on half-cell ties either image is accepted",
    "pairs whose reference distance is within 1e-9*scale of a decision boundary (cut-off, N-th distance, order of "
    "two neighbours) may go either way; scale = max(1, |H|max, |positions|max)",
    "no coincident particles; same N / types / cell in all frames; cut-offs below half the shortest periodic edge",
    "crisp facet: all arithmetic exact in binary64 (integers < 2^12, power-of-two edges, dyadic tilts), so the "
    "inclusive boundary and exact distance ties are asserted without tolerance",
    "reader: well-formed files, Nmax >= 1, no read past the last frame (behaviour at EOF is not specified); "
    "integer dtype (not specifically int32) is required for neighbour lists, float for any other list; text variants "
    "limited to those the unchanged reader accepts (CRLF, tabs, blank lines after the last frame, unterminated last line)",
    "argument representations limited to those the unchanged routines accept with an identical file (probed): the "
    "type-pair matrix must be a numpy array; N must be an integer type; float32 positions are out of domain",
]
MANIFEST = {
    "text": ("Files written by Nnearests, cutoffneighbors and cutoffneighbors_particletype are parsed independently "
             "and compared with a brute-force minimum-image reference: one header per frame, every id once, cn = "
             "length, 1-based ids, never the particle itself, exactly the N closest / exactly the pairs within the "
             "(type-pair) cut-off, non-decreasing distance order, symmetry of the global cut-off relation "
             "(facets nnearest, nnearest_large, cutoff, cutoff_type, sheared = per-frame cell matrix, size_boundary = "
             "particle numbers and frames per file around block sizes 32..256 (thorough: 500..1025), inhomogeneous = "
             "clusters in a dilute background, voids, slabs and droplets with free surfaces, 150..400 particles); "
             "unwrapped coordinates up to 50 cells away, axis-permuted tilted cells, K up to 5, value-equal argument "
             "representations, an earlier writer call with other contents; boundary-inclusive cut-offs and exact "
             "distance ties on integer constructions such as a 3-4-5 pair at r_cut = 5 (facet crisp); every written "
             "file is read back frame by frame. read_neighbors is checked as a rule-based state machine against a "
             "frame-pointer model: any Nmax per read (truncation, padding, width 1+min(max cn,Nmax)), id-indexed rows "
             "in shuffled order, cn = 0 rows, weight-type headers with verbatim floats, two files read interleaved, "
             "reopen, a neighbour and a weight file of the same shape read alternately with handles opened in either "
             "order, all-empty frames (width 1), remaining text after k reads, all earlier results re-checked (facet "
             "reader_machine), and sequentially over synthetic files with 1..258 rows per frame, 31..129 frames per "
             "file, 127..258 entries per row around Nmax = 128 / 200 (default) / 256, LF / CRLF / tab-separated text "
             "(facet reader_bulk)."),
    "note": ("Trusted base: own parser/encoder and numpy reference in pbt/ref/neigh.py; C02 contract for the "
             "minimum image. Ambiguity rule 1e-9*scale at every discrete decision; exact arithmetic in the crisp "
             "facet. Not covered: behaviour at EOF, malformed files, blank lines between frames, coincident "
             "particles, N_nn >= N, zero-particle frames, float32 positions."),
    "technique": ("property-based testing (Hypothesis): reference-model differential on the written file + "
                  "stateful model-based testing (RuleBasedStateMachine) of the sequential reader"),
}

FN = "neighborlist.dat"
HEADER = ["id", "cn", "neighborlist"]

# ============================================================================= shared oracle pieces


def frame_cells(case):
    """Per-frame cell dicts: case["cells"] for sheared trajectories (same edge lengths, per-frame tilt factors), else
    the one cell for every frame."""
    return case["cells"] if case.get("cells") else [case["cell"]] * len(case["pos"])


def _integral(a):
    a = np.asarray(a, dtype=float)
    return bool(np.all(a == np.rint(a)))


def make_snapshots(case):
    """Snapshots object for the case, with the value-equal representations of case["rep"]: label dtype (the GSD reader
    delivers uint32), integer positions / integer cell where all values are integers (crisp constructions)."""
    rep = case.get("rep") or {}
    snaps = []
    for c, p, ts in zip(frame_cells(case), case["pos"], case["timesteps"]):
        s = snapshot_from(c, p, case["types"], ts)
        ch = {}
        if rep.get("types", "int64") != "int64":
            ch["particle_type"] = np.asarray(case["types"]).astype(rep["types"])
        if rep.get("pos", "float64") != "float64" and _integral(p):
            ch["positions"] = np.asarray(p).astype(rep["pos"])
        if rep.get("cell", "float64") == "int64" and _integral(c["H"]) and _integral(s.boxbounds):
            ch.update(hmatrix=np.asarray(c["H"]).astype(np.int64), boxlength=np.diag(np.asarray(c["H"])).astype(np.int64),
                      boxbounds=np.asarray(s.boxbounds).astype(np.int64))
        snaps.append(dataclasses.replace(s, **ch) if ch else s)
    return Snapshots(nsnapshots=len(snaps), snapshots=snaps)


def _tol(case):
    m = max([1.0] + [float(np.abs(np.asarray(c["H"], dtype=float)).max()) for c in frame_cells(case)]
            + [float(np.abs(p).max()) for p in case["pos"]])
    return 1e-9 * m


def _rmax(case, dmax):
    H = np.asarray(case["cell"]["H"], dtype=float)
    per = np.asarray(case["ppp"]) > 0
    if per.any():
        return 0.5 * float(np.diag(H)[per].min())
    return 1.05 * dmax + 1e-3


def parse_written(fn, N, T, what):
    """Structure of a written neighbour file; returns (frames as parsed, lists[k][i] = 0-based neighbours)."""
    with open(fn, "r", encoding="utf-8") as f:
        text = f.read()
    try:
        frames = neigh.parse_list_file(text, N)
    except neigh.FormatError as e:
        raise Violation(f"{what}: written file malformed: {e}")
    require(len(frames) == T, f"{what}: file holds {len(frames)} frames for {T} snapshots")
    lists = []
    for k, fr in enumerate(frames):
        require(fr["header"] == HEADER, f"{what}: frame {k} header {fr['header']} != {HEADER}")
        seen = {}
        for pid, cn, ent in fr["rows"]:
            t = f"{what}: frame {k} row of id {pid}"
            require(1 <= pid <= N, f"{t}: id outside 1..{N}")
            require(pid not in seen, f"{t}: id listed twice")
            require(cn == len(ent), f"{t}: cn = {cn} but {len(ent)} entries follow")
            try:
                ids = [int(x) for x in ent]
            except ValueError:
                raise Violation(f"{t}: non-integer neighbour entry in {ent}")
            require(all(1 <= v <= N for v in ids), f"{t}: neighbour id outside 1..{N} (ids must be 1-based): {ids}")
            require(pid not in ids, f"{t}: list contains the particle itself: {ids}")
            require(len(set(ids)) == len(ids), f"{t}: duplicate neighbour: {ids}")
            seen[pid] = [v - 1 for v in ids]
        require(len(seen) == N, f"{what}: frame {k} does not list every id once")
        lists.append([seen[i + 1] for i in range(N)])
    return frames, lists


def compare_read(tag, got, rows, N, nmax, is_neighbor):
    want = neigh.reader_model(rows, N, nmax, is_neighbor)
    g = arr(tag, got, shape=want.shape)
    if is_neighbor:
        require(np.issubdtype(g.dtype, np.integer), f"{tag}: neighbour list returned with dtype {g.dtype}, not integer")
        equal(tag, g, want)
    else:
        require(np.issubdtype(g.dtype, np.floating), f"{tag}: weights returned with dtype {g.dtype}, not float")
        close(tag, g, want, rtol=1e-12, atol=0.0)


def read_back(fn, frames, N, what):
    """Every written file is read back frame by frame with the default Nmax from one open handle; all returned
    arrays are kept and re-compared at the end (a result handed out earlier must stay what it was)."""
    kept = []
    with open(fn, "r", encoding="utf-8") as f:
        for k, fr in enumerate(frames):
            rows = {pid: ent for pid, _, ent in fr["rows"]}
            got = read_neighbors(f, N)
            compare_read(f"{what}: read_neighbors frame {k}", got, rows, N, 200, True)
            kept.append((got, np.array(got, copy=True)))
        require(f.read() == "", f"{what}: text left in the file after reading all {len(frames)} frames")
    for k, (got, copy) in enumerate(kept):
        require(np.array_equal(np.asarray(got), copy), f"{what}: the array returned for frame {k} changed during later reads")


FN_BY_REP = {"default-name": FN, "custom": "nl-custom.txt", "subdir": os.path.join("lists", "frame set.dat")}


def uses_defaults(case):
    rep = case.get("rep") or {}
    return (case["d"] == 3 and bool(np.all(np.asarray(case["ppp"]) == 1)) and len(case["types"]) % 2 == 0
            and rep.get("fn", "default-name") == "default-name" and rep.get("ppp", "array") == "array")


def call_writer(case, snaps, fn=None):
    """Calls the writer of case["w"] with the argument representations of case["rep"]; returns the file name."""
    kind = case["w"]
    rep = case.get("rep") or {}
    ppp = np.array(case["ppp"], dtype=int)
    # documented defaults: ppp = [1,1,1], fnfile = 'neighborlist.dat' (== FN); used for every other eligible case
    if fn is None and uses_defaults(case):
        kw = {}
        path = FN
    else:
        path = fn or FN_BY_REP[rep.get("fn", "default-name")]
        pr = rep.get("ppp", "array")
        pv = {"list": lambda: [int(x) for x in ppp], "tuple": lambda: tuple(int(x) for x in ppp),
              "bool": lambda: ppp.astype(bool), "int32": lambda: ppp.astype(np.int32),
              "float64": lambda: ppp.astype(np.float64)}.get(pr, lambda: ppp)()
        kw = {"ppp": pv, "fnfile": path}
    if os.path.dirname(path):
        os.makedirs(os.path.dirname(path), exist_ok=True)
    if os.path.exists(path):
        os.remove(path)
    if kind == "nn":
        nnn = {"np.int64": np.int64, "np.int32": np.int32}.get(rep.get("N", "int"), int)(case["nnn"])
        Nnearests(snaps, N=nnn, **kw)
    elif kind == "cut":
        rc = float(case["rc"])
        rr = rep.get("rc", "float")
        if rr in ("int", "np.int64") and rc.is_integer():
            rc = int(rc) if rr == "int" else np.int64(rc)
        elif rr == "np.float64":
            rc = np.float64(rc)
        cutoffneighbors(snaps, r_cut=rc, **kw)
    else:
        M = np.array(case["rcm"], dtype=float)
        rr = rep.get("rcm", "float64")
        if rr == "int64" and _integral(M):
            M = M.astype(np.int64)
        elif rr == "float32" and _integral(M):
            M = M.astype(np.float32)      # small integers are exact in float32
        elif rr == "fortran":
            M = np.asfortranarray(M)
        elif rr == "strided":             # a K x K block taken out of a wider table
            wide = np.full((2 * M.shape[0], 2 * M.shape[1]), 0.123)
            wide[::2, ::2] = M
            M = wide[::2, ::2]
        cutoffneighbors_particletype(snaps, r_cut=M, **kw)
    require(os.path.exists(path), f"{kind}: no file {path} written")
    return path


def decoy_of(case):
    """Another input of the same shapes (N, d, K, T, cell kind): particles in reverse order, everything scaled by 2,
    tilts negated, labels rotated, other parameters.  Used for a call BEFORE the one that is checked."""
    def flip(c):
        H = np.asarray(c["H"], dtype=float)
        D = np.diag(np.diag(H))
        return dict(c, H=2.0 * (2.0 * D - H), lo=2.0 * np.asarray(c["lo"], dtype=float))
    dc = dict(case)
    dc["pos"] = [np.ascontiguousarray(np.asarray(p)[::-1] * 2.0) for p in reversed(case["pos"])]
    dc["cell"] = flip(case["cell"])
    if case.get("cells"):
        dc["cells"] = [flip(c) for c in reversed(case["cells"])]
    dc["types"] = np.roll(np.asarray(case["types"]), 1)
    N = len(case["types"])
    if "nnn" in case:
        dc["nnn"] = max(1, N - 1 - int(case["nnn"])) if N > 2 else 1
    if "rc" in case:
        dc["rc"] = float(case["rc"]) * 2.0 * 0.75
    if "rcm" in case:
        dc["rcm"] = np.asarray(case["rcm"], dtype=float).T * 2.0 * 0.75
    dc["rep"] = dict(case.get("rep") or {}, prior="none")
    return dc


def run_writer(case):
    """Builds the Snapshots object and calls the writer; with case["rep"]["prior"] the writer has been called before
    with other contents — through another object, or through the SAME snapshot arrays which are then overwritten in
    place with the contents that are checked.  Returns the name of the file to check."""
    prior = (case.get("rep") or {}).get("prior", "none")
    if prior == "none":
        return call_writer(case, make_snapshots(case))
    decoy = decoy_of(case)
    dsn = make_snapshots(decoy)
    dpath = call_writer(decoy, dsn, fn="decoy.dat")
    with open(dpath, "r", encoding="utf-8") as f:
        before = f.read()
    real = make_snapshots(case)
    if prior == "same-object-inplace":
        for sd, sr in zip(dsn.snapshots, real.snapshots):
            for name in ("positions", "particle_type", "hmatrix", "boxlength", "boxbounds", "realbounds"):
                if getattr(sd, name) is not None:
                    getattr(sd, name)[...] = getattr(sr, name)
        real = dsn
    path = call_writer(case, real)
    with open(dpath, "r", encoding="utf-8") as f:
        require(f.read() == before, "the file written by an earlier call changed during a later call of the writer")
    return path


# ============================================================================= generated configurations


def ufrac_st(N, d):
    """Fractional coordinates with all N*d numbers distinct: no two particles coincide modulo the lattice, by
    construction.  Dyadic values k/4096 give exact half-cell ties between pairs."""
    el = st.one_of(st.integers(0, 4095).map(lambda k: k / 4096.0), fl(0.0, 1.0, exclude_max=True))
    return hnp.arrays(np.float64, (N, d), elements=el, unique=True)


PPP_REPS = ["array", "array", "array", "list", "tuple", "bool", "int32", "float64"]
TYPE_DTYPES = ["int64", "int64", "int32", "uint32", "uint8"]          # the GSD reader delivers uint32 labels
FN_REPS = ["default-name", "default-name", "default-name", "custom", "subdir"]
PRIOR = ["none"] * 5 + ["other-object", "same-object-inplace"]


@st.composite
def rep_st(draw, kind, crisp=False):
    """Value-equal argument representations (EXTENSION_2 class 3, EXTENSION_3 class 2) and the prior-call class
    (EXTENSION_1 class 3).  Each was probed on the unchanged tree: identical file."""
    rep = {"ppp": draw(st.sampled_from(PPP_REPS)), "types": draw(st.sampled_from(TYPE_DTYPES)),
           "fn": draw(st.sampled_from(FN_REPS)), "prior": draw(st.sampled_from(PRIOR))}
    if kind == "nn":
        rep["N"] = draw(st.sampled_from(["int", "int", "np.int64", "np.int32"]))
    elif kind == "cut":
        rep["rc"] = draw(st.sampled_from(["float", "int", "np.int64", "np.float64"]))
    else:
        rep["rcm"] = draw(st.sampled_from(["float64", "int64", "fortran", "strided"] + (["float32"] if crisp else [])))
    if crisp:
        rep["pos"] = draw(st.sampled_from(["float64", "float64", "int64", "int32"]))
        rep["cell"] = draw(st.sampled_from(["float64", "int64"]))
    return rep


def permuted_cell(cell, ax):
    """A reader-style triclinic cell after the axis permutation ax: P H P^T is no longer lower triangular."""
    ax = list(ax)
    return dict(cell, kind="general", H=np.asarray(cell["H"])[ax][:, ax], lo=np.asarray(cell["lo"])[ax])


def oblique_compact(rng, H, N, ppp):
    """N relative positions inside a Chebyshev box of edge 0.97 w, w = half the smallest perpendicular width of the cell:
    EVERY pair of the configuration is short in every Cartesian component, yet pairs between the two sub-clusters at
    opposite oblique corners have a fractional coordinate beyond 1/2 along a periodic axis of a tilted cell (EXTENSION_3
    class 4: a "nothing to fold" short-cut that looks at the whole batch positions - positions[i])."""
    d = H.shape[0]
    Hinv = np.linalg.inv(H)
    w = 0.5 / np.sqrt((Hinv * Hinv).sum(axis=0)).max()
    reach = w * np.abs(Hinv).sum(axis=0) * (np.asarray(ppp) > 0)
    k = int(np.argmax(reach))
    corner = 0.97 * w * np.where(Hinv[:, k] >= 0, 1.0, -1.0)
    which = rng.integers(0, 3, N)
    u = rng.random((N, d))
    t = np.where(which[:, None] == 0, 0.05 * u, np.where(which[:, None] == 1, 1.0 - 0.05 * u, u))
    return t * corner[None, :]


def whole_config_short(case):
    """True when every pair of some frame is short in every Cartesian component (below half the smallest perpendicular
    width) while some pair of it has a periodic fractional coordinate beyond 1/2."""
    per = np.asarray(case["ppp"]) > 0
    hit = False
    for p, c in zip(case["pos"], frame_cells(case)):
        H = np.asarray(c["H"], dtype=float)
        Hinv = np.linalg.inv(H)
        w = 0.5 / np.sqrt((Hinv * Hinv).sum(axis=0)).max()
        p = np.asarray(p, dtype=float)
        if np.any(p.max(axis=0) - p.min(axis=0) >= w):
            continue
        f = p @ Hinv
        span = f.max(axis=0) - f.min(axis=0)
        hit = hit or bool(np.any(span[per] > 0.5 + 1e-6))
    return hit


OFFS = ["inside", "inside", "near", "near", "far3", "far8", "far50"]


@st.composite
def conf_st(draw, nmin=3, nmax=40, frames=(1, 4), K=None, kmax=3, lmin=1.0, lmax=30.0, sheared=None):
    """Like gen.config_st (same case layout), but every kind is free of coincident particles by construction and the
    later frames are either fresh gases or small displacements of frame 0."""
    d = draw(st.sampled_from([2, 3]))
    cell = draw(cell_st(d, "tri" if sheared else "any", lmin=lmin, lmax=lmax))
    K_ = K if K is not None else draw(st.integers(1, kmax))
    nmin = max(nmin, K_)
    kind = draw(st.sampled_from(["gas", "gas", "lattice", "cluster"] + (["oblique"] if cell["kind"] == "tri" else [])))
    ppp = draw(ppp_st(d))
    if kind == "lattice":
        f0, kind = draw(frac_config_st(d, nmin=max(3, K_), nmax=nmax, kinds=("lattice",),
                                       exact_lattice=cell["kind"] == "ortho"))
    elif kind == "oblique":
        N = draw(st.integers(max(3, nmin), nmax))
        rng = np.random.default_rng(draw(st.integers(0, 2 ** 32 - 1)))
        f0 = (draw(ufrac_st(1, d)) @ cell["H"] + oblique_compact(rng, cell["H"], N, ppp)) @ np.linalg.inv(cell["H"])
    elif kind == "cluster":
        N = draw(st.integers(max(3, nmin), nmax))
        nc = draw(st.integers(1, 3))
        centres = draw(ufrac_st(nc, d))
        which = draw(st.lists(st.integers(0, nc - 1), min_size=N, max_size=N))
        width = draw(st.sampled_from([0.02, 0.05, 0.1]))
        f0 = (centres[which] + width * (2.0 * draw(ufrac_st(N, d)) - 1.0)) % 1.0
    else:
        N = draw(st.integers(nmin, min(nmax, nmin + 1))) if draw(st.integers(0, 9)) == 0 else draw(st.integers(max(3, nmin), nmax))
        f0 = draw(ufrac_st(N, d))
    N = len(f0)
    T = draw(st.integers(*frames))
    fr = [f0]
    for _ in range(T - 1):
        if draw(st.booleans()):
            fr.append(draw(ufrac_st(N, d)))
        else:
            fr.append((f0 + draw(st.sampled_from([0.01, 0.05])) * (2.0 * draw(ufrac_st(N, d)) - 1.0)) % 1.0)
    # frame schedules: a frame written twice (the same configuration again), timesteps that repeat or go back: one
    # list per frame in file order whatever the time stamps say
    schedule = draw(st.sampled_from(["increasing", "increasing", "increasing", "repeated-frame", "timesteps-back"])) if T >= 2 else "increasing"
    if schedule == "repeated-frame":
        fr[draw(st.integers(1, T - 1))] = fr[0].copy()
    # where the particles are relative to the cell: wrapped, one image outside, or unwrapped coordinates several cell
    # lengths apart (xu yu zu of a long run: a single-image fold is not the minimum image)
    offclass = draw(st.sampled_from(OFFS + (["inside"] * 12 if kind == "oblique" else [])))
    offs = np.zeros((N, d))
    if offclass != "inside":
        amp = {"near": 1, "far3": 3, "far8": 8, "far50": 50}[offclass]
        offs = draw(hnp.arrays(np.int64, (N, d), elements=st.integers(-amp, amp))).astype(float) * ppp
    cells = None
    if cell["kind"] == "tri" and T >= 2 and (sheared or (sheared is None and draw(st.integers(0, 3)) == 0)):
        # sheared trajectory: same edge lengths and origin, every later frame its own tilt factors
        L = np.diag(cell["H"])
        tl = st.one_of(st.integers(-50, 50).map(lambda k: k / 100.0), fl(-0.5, 0.5))
        cells = [cell]
        for _ in range(T - 1):
            Hk = np.diag(L).astype(float)
            Hk[1, 0] = draw(tl) * L[0]
            if d == 3:
                Hk[2, 0] = draw(tl) * L[0]
                Hk[2, 1] = draw(tl) * L[1]
            cells.append(dict(cell, H=Hk))
        if all(np.allclose(c["H"], cell["H"], rtol=0, atol=1e-3 * L.min()) for c in cells):
            Hk = cells[-1]["H"].copy()  # make the shear real: xy moved by 0.3 lx, folded back into [-lx/2, lx/2)
            Hk[1, 0] = ((cell["H"][1, 0] / L[0] + 0.3 + 0.5) % 1.0 - 0.5) * L[0]
            cells[-1] = dict(cell, H=Hk)
    elif cell["kind"] == "tri" and not sheared and kind != "oblique" and draw(st.integers(0, 3)) == 0:
        # a tilted cell with permuted axes (general cell matrix; the mask is drawn for the permuted axes)
        ax = draw(st.permutations(range(d)))
        if list(ax) != list(range(d)):
            cell = permuted_cell(cell, ax)
    Hs = [c["H"] for c in cells] if cells else [cell["H"]] * T
    pos = [cell["lo"] + (f + offs) @ Hk for f, Hk in zip(fr, Hs)]
    types = draw(types_st(N, K_))
    t0 = draw(st.integers(0, 10 ** 6))
    dt = draw(st.integers(1, 5000))
    steps = [t0 + k * dt for k in range(T)]
    if schedule == "timesteps-back":
        steps = [steps[k] for k in draw(st.permutations(range(T)))]
        steps[-1] = steps[0] if draw(st.booleans()) else steps[-1]
    out = {"d": d, "cell": cell, "pos": pos, "types": types, "ppp": ppp, "K": K_, "kind": kind,
           "timesteps": steps, "outside": bool(np.any(offs)), "schedule": schedule,
           "offs": offclass if np.any(offs) else "inside"}
    if cells:
        out["cells"] = cells
    return out


def cut_picker(draw, gaps, rmax, tol, mode="any"):
    """Returns one_cut(): a cut-off inside a gap of the reference distances (margin around ties).  An integer inside
    the gap is preferred every other time, so that r_cut can also be passed as an int / integer matrix."""
    all_empty = bool(gaps) and gaps[0][0] == 0.0 and draw(st.integers(0, 11)) == 0  # below the smallest distance
    want_int = draw(st.booleans())

    def in_gap(a, b):
        if want_int:
            k0 = int(np.ceil(a + 2 * tol))
            if k0 >= 1 and k0 < b - 2 * tol:
                return float(draw(st.integers(k0, min(int(np.floor(b - 2 * tol)), k0 + 3)).filter(lambda k: k < b - 2 * tol)))
        return a + draw(st.sampled_from([0.25, 0.5, 0.75])) * (b - a)

    def one_cut():
        if all_empty:
            return gaps[0][0] + draw(st.sampled_from([0.25, 0.5, 0.75])) * (gaps[0][1] - gaps[0][0])
        if not gaps or (mode == "any" and draw(st.integers(0, 7)) == 0):
            return draw(fl(rmax * 1e-3, rmax))  # anywhere: ambiguity rule decides
        if mode == "quantile":
            # inhomogeneous / large systems: a quantile of the pair-distance distribution (the short distances are
            # the intra-cluster ones, so small quantiles give cut-offs on the cluster scale)
            q = draw(st.sampled_from([0.0005, 0.002, 0.01, 0.03, 0.1, 0.3, 0.6, 1.0]))
            g = int(q * (len(gaps) - 1))
            g = min(len(gaps) - 1, max(0, g + draw(st.integers(-2, 2))))
            return in_gap(*gaps[g])
        # two draws, keep the larger index: longer lists are the interesting ones
        a, b = gaps[max(draw(st.integers(0, len(gaps) - 1)), draw(st.integers(0, len(gaps) - 1)))]
        return in_gap(a, b)

    return one_cut


def finish_writer_case(draw, c, kind, nn_st=None, mode="any"):
    """Adds the writer's parameter (N_nn / r_cut / matrix) and the representations to a configuration case."""
    tol = _tol(c)
    N = len(c["types"])
    dmax = 0.0
    mats = []
    for p, ck in zip(c["pos"], frame_cells(c)):
        dlo, dhi, _ = neigh.distance_intervals(p, ck["H"], c["ppp"])
        off = ~np.eye(N, dtype=bool)
        if N > 1:
            assume(dlo[off].min() > 100 * tol)  # no coincident particles
            dmax = max(dmax, float(dhi.max()))
        mats.append((dlo, dhi))
    c["w"] = kind
    c["rep"] = draw(rep_st(kind))
    if kind == "nn":
        c["nnn"] = draw(nn_st) if nn_st is not None else (N - 1 if draw(st.integers(0, 7)) == 0 else draw(st.integers(1, N - 1)))
        return c
    rmax = _rmax(c, dmax)
    gaps = neigh.gap_points(mats, rmax, tol)
    one_cut = cut_picker(draw, gaps, rmax, tol, mode)
    if kind == "cut":
        c["rc"] = one_cut()
    else:
        K_ = c["K"]
        M = np.array([[one_cut() for _ in range(K_)] for _ in range(K_)], dtype=float)
        if K_ > 1 and draw(st.integers(0, 4)) == 0:
            M = np.minimum(M, M.T)  # some symmetric matrices as well
        c["rcm"] = M
    return c


@st.composite
def writer_case_st(draw, kind, nmax=40, frames=(1, 4), sheared=None):
    if kind == "any":
        kind = draw(st.sampled_from(["nn", "cut", "type"]))
    K = None if kind == "type" else 1
    # cut-off kinds: aspect ratio <= 5, otherwise half the shortest edge leaves nearly every list empty
    lm = (1.0, 30.0) if kind == "nn" or draw(st.integers(0, 3)) == 0 else (3.0, 15.0)
    # smallest systems the statement still defines: one particle (empty list) for the cut-off kinds, two for N-nearest
    c = draw(conf_st(nmin=2 if kind == "nn" else 1, nmax=nmax, K=K, kmax=5, frames=frames, lmin=lm[0], lmax=lm[1],
                     sheared=sheared))
    return finish_writer_case(draw, c, kind)


@st.composite
def large_nn_st(draw):
    """N 150..400 with N_nn mostly in [N/5, 4N/5]: a partition index that is one too small (kth = N_nn - 1) changes
    the result of numpy's introselect only for arrays of >= ~200 elements and a kth well inside the array (measured:
    0 of 20000 arrays below 100 elements, ~0.5 % of arrays in this region), so this is where the index is exercised.  Bulk coordinates come from numpy's generator seeded by Hypothesis
    (DESIGN 1.3 exception); the case stores the arrays, so replays are self-contained."""
    d = draw(st.sampled_from([2, 3]))
    cell = draw(cell_st(d, "any", lmin=5.0, lmax=20.0))
    N = draw(st.integers(150, 400))
    rng = np.random.default_rng(draw(st.integers(0, 2 ** 32 - 1)))
    f = rng.random((N, d))
    ppp = draw(ppp_st(d))
    c = {"d": d, "cell": cell, "pos": [cell["lo"] + f @ cell["H"]], "types": np.ones(N, dtype=int), "ppp": ppp, "K": 1,
         "kind": "gas", "timesteps": [0], "outside": False, "w": "nn"}
    dlo, _, _ = neigh.distance_intervals(c["pos"][0], cell["H"], ppp)
    assume(dlo[~np.eye(N, dtype=bool)].min() > 100 * _tol(c))
    mid = st.integers(N // 5, 4 * N // 5)
    c["nnn"] = draw(st.one_of(mid, mid, mid, st.integers(1, 60), st.sampled_from([N - 1, N - 2, 12])))
    return c


# ----------------------------------------------------------------------------- bulk configurations (seeded)

# around typical block sizes 32, 50, 64, 100, 128, 200, 256 (EXTENSION_3 class 1); 128 + 128//3 = 170
SIZES_QUICK = [31, 32, 33, 49, 50, 51, 63, 64, 65, 99, 100, 101, 127, 128, 129, 130, 170, 199, 200, 201, 255, 256, 257, 258,
               127, 128, 129, 130, 255, 256, 257, 258]
SIZES_THOROUGH = [499, 500, 501, 511, 512, 513, 999, 1000, 1001, 1023, 1024, 1025]
FRAMES_B = [31, 32, 33, 49, 50, 51, 63, 64, 65, 99, 100, 101, 127, 128, 129]
NNN_B = [1, 2, 12, 31, 32, 33, 63, 64, 65, 99, 100, 101, 127, 128, 129, 199, 200, 201, 255, 256]


def mixed_rng(seed, *parts):
    """numpy generator seeded by a Hypothesis-drawn integer AND everything drawn before it.  Hypothesis derives many of
    its examples from earlier ones by copying parts of the choice sequence, so a bare seed repeats within a run and
    the sizes / styles taken from the generator come in clumps; hashing the earlier draws into the seed makes every
    distinct example a distinct stream.  Deterministic; the case stores the arrays, so replays do not depend on it."""
    import hashlib
    h = hashlib.sha1(repr([np.asarray(x).tolist() if isinstance(x, np.ndarray) else x for x in parts]).encode()).digest()
    return np.random.default_rng([int(seed)] + [int.from_bytes(h[i:i + 4], "little") for i in range(0, 16, 4)])


def bulk_frac(rng, N, d, style):
    """Fractional coordinates of an inhomogeneous configuration (numpy generator seeded by Hypothesis)."""
    if style == "gas":
        return rng.random((N, d))
    if style == "clusters":
        # dense clusters in a dilute background: most particles sit in 1..3 small blobs
        nb = max(2, int(N * float(rng.choice([0.03, 0.08, 0.15, 0.3]))))
        nc = int(rng.integers(1, 4))
        centres = rng.random((nc, d))
        width = float(rng.choice([0.01, 0.03, 0.06]))
        blobs = centres[rng.integers(0, nc, N - nb)] + width * rng.normal(size=(N - nb, d))
        f = np.vstack([rng.random((nb, d)), blobs]) % 1.0
    elif style == "void":
        # a liquid with 1..2 large spherical holes
        nv = int(rng.integers(1, 3))
        cv = rng.random((nv, d))
        rv = rng.uniform(0.25, 0.42, nv)
        cand = rng.random((8 * N + 200, d))
        dd = np.abs(cand[:, None, :] - cv[None, :, :])
        dd = np.minimum(dd, 1.0 - dd)
        keep = (np.sqrt((dd ** 2).sum(axis=2)) > rv[None, :]).all(axis=1)
        f = cand[keep][:N]
        if len(f) < N:
            f = np.vstack([f, rng.random((N - len(f), d))])
    elif style == "slab":
        # a film with two free surfaces (vacuum gap along one axis), a few vapour particles
        a = int(rng.integers(0, d))
        th = float(rng.choice([0.08, 0.2, 0.4]))
        f = rng.random((N, d))
        nvap = int(N * float(rng.choice([0.0, 0.02, 0.05])))
        f[nvap:, a] = (float(rng.random()) + th * f[nvap:, a]) % 1.0
    else:  # droplet
        c0 = rng.random(d)
        rad = float(rng.choice([0.08, 0.15, 0.25]))
        u = rng.normal(size=(N, d))
        u /= np.linalg.norm(u, axis=1)[:, None]
        f = (c0 + rad * u * rng.random((N, 1)) ** (1.0 / d)) % 1.0
        nvap = int(N * float(rng.choice([0.0, 0.03, 0.1])))
        f[:nvap] = rng.random((nvap, d))
    return f[rng.permutation(N)]      # ids carry no information about the region


@st.composite
def bulk_st(draw, sizes, styles, many_frames=False, dims=(2, 3), writers=("nn", "cut", "type")):
    """Seeded bulk configurations for the size-boundary and the inhomogeneous facets, all three writers."""
    d = draw(st.sampled_from(list(dims)))
    cell = draw(cell_st(d, "any", lmin=5.0, lmax=20.0))
    kind = draw(st.sampled_from(list(writers)))
    ppp = draw(ppp_st(d))
    # the size and the style are taken from the seeded generator, not from separate Hypothesis draws: Hypothesis
    # clumps `sampled_from` heavily within a few dozen cases (measured: 128/129 fifteen times, 255..258 once), while
    # every boundary value has to be populated in every run
    rng = mixed_rng(draw(st.integers(0, 2 ** 32 - 1)), d, cell["H"], cell["lo"], kind, ppp)
    style = str(rng.choice(styles))
    if many_frames and rng.integers(0, 6) == 0:
        # frames per file at the boundaries, tiny frames
        N = int(rng.integers(2, 6))
        T = int(rng.choice(FRAMES_B))
        style = "gas"
    else:
        N = int(rng.choice(sizes)) if isinstance(sizes, list) else int(rng.integers(sizes[0], sizes[1] + 1))
        T = 1 if N > 130 or rng.integers(0, 4) else 2
    if cell["kind"] == "tri" and draw(st.integers(0, 4)) == 0:
        ax = draw(st.permutations(range(d)))
        if list(ax) != list(range(d)):
            cell = permuted_cell(cell, ax)
    offclass = draw(st.sampled_from(["inside", "inside", "inside", "near", "far8"]))
    offs = np.zeros((N, d))
    if offclass != "inside":
        amp = {"near": 1, "far8": 8}[offclass]
        offs = rng.integers(-amp, amp + 1, (N, d)).astype(float) * ppp
    if style == "oblique" and cell["kind"] == "ortho":
        style = "clusters"
    if style == "oblique":
        Hinv = np.linalg.inv(cell["H"])
        fr = [(rng.random(d) @ cell["H"] + oblique_compact(rng, cell["H"], N, ppp)) @ Hinv for _ in range(T)]
    else:
        fr = [bulk_frac(rng, N, d, style) for _ in range(T)]
    K = min(N, draw(st.integers(1, 4))) if kind == "type" else 1
    types = np.concatenate([np.arange(1, K + 1), rng.integers(1, K + 1, N - K)])[rng.permutation(N)].astype(int)
    c = {"d": d, "cell": cell, "pos": [cell["lo"] + (f + offs) @ cell["H"] for f in fr], "types": types, "ppp": ppp, "K": K,
         "kind": style, "timesteps": [100 * k for k in range(T)], "outside": bool(np.any(offs)),
         "offs": offclass if np.any(offs) else "inside", "style": style}
    small = st.integers(1, min(16, N - 1))
    nn_st = st.one_of(small, small, small, st.sampled_from([k for k in NNN_B + [N - 1, N - 2, N // 2] if 1 <= k <= N - 1]))
    return finish_writer_case(draw, c, kind, nn_st=nn_st, mode="quantile")


def rep_tags(case):
    """Class tags for the representations that were really applied (an integer r_cut only where it is integral)."""
    rep = case.get("rep") or {}
    kind = case["w"]
    tags = []
    if not uses_defaults(case):
        if rep.get("ppp", "array") != "array":
            tags.append("ppp-" + rep["ppp"])
        if rep.get("fn", "default-name") != "default-name":
            tags.append("fn-" + rep["fn"])
    if rep.get("types", "int64") != "int64":
        tags.append("types-" + rep["types"])
    if rep.get("prior", "none") != "none":
        tags.append("prior-" + rep["prior"])
    if kind == "nn" and rep.get("N", "int") != "int":
        tags.append("N-" + rep["N"])
    if kind == "cut":
        rr = rep.get("rc", "float")
        if rr == "np.float64" or (rr in ("int", "np.int64") and float(case["rc"]).is_integer()):
            tags.append("rc-" + rr)
    if kind == "type":
        rr = rep.get("rcm", "float64")
        if rr in ("fortran", "strided") or (rr in ("int64", "float32") and _integral(case["rcm"])):
            tags.append("rcm-" + rr)
    if rep.get("pos", "float64") != "float64" and all(_integral(p) for p in case["pos"]):
        tags.append("pos-" + rep["pos"])
    if rep.get("cell", "float64") == "int64" and _integral(case["cell"]["H"]) and _integral(case["cell"]["lo"]):
        tags.append("cell-int64")
    return tags


def check_writer(case):
    kind = case["w"]
    N = len(case["types"])
    T = len(case["pos"])
    cells = frame_cells(case)
    types = np.asarray(case["types"], dtype=int)
    tol = _tol(case)
    path = run_writer(case)
    frames, lists = parse_written(path, N, T, kind)
    maxcn = 0
    n_amb = n_tie = 0
    cn_varies = False
    multi = False
    excluded = False
    for k in range(T):
        dlo, dhi, tie = neigh.distance_intervals(case["pos"][k], np.asarray(cells[k]["H"], dtype=float), case["ppp"])
        n_tie += int(tie.sum())
        L = lists[k]
        listed = np.zeros((N, N), dtype=bool)
        for i in range(N):
            listed[i, L[i]] = True
            pos = neigh.order_ok(dlo[i], dhi[i], L[i], tol)
            require(pos < 0, lambda: f"{kind}: frame {k} particle {i + 1}: list not in increasing distance order at "
                    f"position {pos}: ids {[j + 1 for j in L[i]]} distances {[float(dlo[i, j]) for j in L[i]]}")
        cns = listed.sum(axis=1)
        maxcn = max(maxcn, int(cns.max()))
        multi = multi or bool((cns >= 2).any())
        cn_varies = cn_varies or len(set(cns.tolist())) > 1
        excluded = excluded or bool((cns < N - 1).any())
        if kind == "nn":
            nnn = int(case["nnn"])
            require(np.all(cns == nnn), lambda: f"nn: frame {k}: coordination numbers {cns.tolist()} != N = {nnn}")
            for i in range(N):
                w = neigh.nearest_ok(dlo[i], dhi[i], i, L[i], tol)
                require(w is None, lambda: f"nn: frame {k} particle {i + 1}: listed id {w[0] + 1} at distance "
                        f"{dlo[i, w[0]]!r} while unlisted id {w[1] + 1} is closer ({dhi[i, w[1]]!r}); N = {nnn}")
                thr = np.partition(dlo[i][np.arange(N) != i], nnn - 1)[nnn - 1]
                n_amb += int((np.abs(dlo[i] - thr) <= tol).sum()) - 1
        else:
            if kind == "cut":
                rc = float(case["rc"])
            else:
                M = np.asarray(case["rcm"], dtype=float)
                rc = M[types[:, None] - 1, types[None, :] - 1]  # row = centre type, column = neighbour type
            din, dout = neigh.cutoff_classes(dlo, dhi, rc, tol)
            miss = din & ~listed
            extra = dout & listed
            if miss.any():
                i, j = (int(x) for x in np.argwhere(miss)[0])
                raise Violation(f"{kind}: frame {k}: id {j + 1} missing from the list of id {i + 1}: distance "
                                f"{dhi[i, j]!r} <= cut-off {np.broadcast_to(rc, (N, N))[i, j]!r} "
                                f"(types {types[i]}->{types[j]})")
            if extra.any():
                i, j = (int(x) for x in np.argwhere(extra)[0])
                raise Violation(f"{kind}: frame {k}: id {j + 1} wrongly in the list of id {i + 1}: distance "
                                f"{dlo[i, j]!r} > cut-off {np.broadcast_to(rc, (N, N))[i, j]!r} "
                                f"(types {types[i]}->{types[j]})")
            amb = ~(din | dout)
            n_amb += int(amb.sum())
            if kind == "cut":
                asym = (listed ^ listed.T) & ~(amb | amb.T)
                if asym.any():
                    i, j = (int(x) for x in np.argwhere(asym)[0])
                    raise Violation(f"cut: frame {k}: relation not symmetric for ids {i + 1},{j + 1}")
    read_back(path, frames, N, kind)

    ppp = np.asarray(case["ppp"])
    rep = case.get("rep") or {}
    nontrivial = bool(multi and (kind == "nn" or cn_varies))
    tags = [f"d{case['d']}", case["cell"]["kind"], "mask-full" if ppp.all() else ("mask-open" if not ppp.any() else "mask-partial"),
            f"frames{T}" if T <= 4 else f"frames-boundary-{T}",
            ("style-" + case["style"]) if case.get("style") else case["kind"].split("-")[0] + ("-jit" if case["kind"].endswith("jit") else ""),
            "N=1" if N == 1 else ("N=2" if N == 2 else ("N<=8" if N <= 8 else ("N<=20" if N <= 20 else ("N<=40" if N <= 40 else "N>=150" if N >= 150 else "N<150")))),
            "outside" if case["outside"] else "inside", "offs-" + case.get("offs", "near" if case["outside"] else "inside"),
            "ambiguous" if n_amb else "no-ambiguous", "tie-pairs" if n_tie else "no-tie-pairs",
            "default-args" if uses_defaults(case) else "explicit-args",
            "sheared" if case.get("cells") else "fixed-cell", "w-" + kind]
    if N in SIZES_QUICK or N in SIZES_THOROUGH:
        tags.append(f"size-boundary-{N}")
    if case.get("schedule", "increasing") != "increasing":
        tags.append("schedule-" + case["schedule"])
    if case["cell"]["kind"] != "ortho" and whole_config_short(case):
        tags.append("whole-config-short-but-beyond-half-cell")
    tags += rep_tags(case)
    if kind == "nn":
        nnn = int(case["nnn"])
        tags.append("Nnn=N-1" if nnn == N - 1 else ("Nnn=1" if nnn == 1 else "Nnn-mid"))
        if nnn in NNN_B[3:]:
            tags.append(f"Nnn-boundary-{nnn}")
    else:
        tags += [t for t, v in (("maxcn>=32", 32), ("maxcn>=64", 64), ("maxcn>=128", 128)) if maxcn >= v]
        tags.append("cn-varies" if cn_varies else "cn-uniform")
        tags.append("some-cn0" if any(len(x) == 0 for L in lists for x in L) else "all-cn>0")
        if any(all(len(x) == 0 for x in L) for L in lists):
            tags.append("frame-all-empty")
        tags.append("some-excluded" if excluded else "all-pairs-listed")
        if kind == "type":
            M = np.asarray(case["rcm"])
            tags.append(f"K{case['K']}")
            if case["K"] > 1:
                tags.append("matrix-asym" if not np.array_equal(M, M.T) else "matrix-sym")
    return {"nontrivial": nontrivial, "tags": tags, "extra": {"ambiguous_items": n_amb, "tie_pairs": n_tie}}


def describe_writer(case):
    out = {"w": case["w"], "d": case["d"], "cell": case["cell"]["kind"], "H": np.round(case["cell"]["H"], 4).tolist(),
           "ppp": np.asarray(case["ppp"]).tolist(), "N": len(case["types"]), "frames": len(case["pos"]),
           "kind": case["kind"], "pos0": np.round(case["pos"][0][:3], 4).tolist()}
    if case.get("cells"):
        out["H_per_frame"] = [np.round(c["H"], 4).tolist() for c in case["cells"]]
    for k in ("nnn", "rc"):
        if k in case:
            out[k] = case[k]
    if "rcm" in case:
        out["rcm"] = np.round(case["rcm"], 5).tolist()
        out["types"] = np.asarray(case["types"]).tolist()[:12]
    out["rep"] = case.get("rep")
    out["offs"] = case.get("offs")
    return out


# ============================================================================= crisp constructions (exact)

_VEC = {d: neigh.integer_vectors_by_norm(d, 26, 26) for d in (2, 3)}


@st.composite
def crisp_st(draw):
    d = draw(st.sampled_from([2, 3]))
    Ls = [2 ** draw(st.integers(4, 6)) for _ in range(d)]
    ck = draw(st.sampled_from(["ortho", "ortho", "tri"]))
    H = np.diag(Ls).astype(np.int64)
    if ck == "tri":
        tl = st.sampled_from([0, -1, 1, -2, 2, 3, -3])  # multiples of L/8, |tilt| <= 3L/8
        H[1, 0] = draw(tl) * Ls[0] // 8
        if d == 3:
            H[2, 0] = draw(tl) * Ls[0] // 8
            H[2, 1] = draw(tl) * Ls[1] // 8
        if not np.any(H - np.diag(Ls)):
            H[1, 0] = Ls[0] // 4
    lo = np.array([draw(st.integers(-32, 32)) for _ in range(d)], dtype=np.int64)
    ppp = draw(ppp_st(d))
    per = ppp > 0
    Lmin = min([Ls[a] for a in range(d) if per[a]] or [64])
    rtop = Lmin // 2 - 1  # r < L/2 strictly
    table = _VEC[d]
    radii = [r for r in sorted(table) if r <= rtop]
    rich = [r for r in radii if any(sum(1 for x in v if x) >= 2 for v in table[r])]  # Pythagorean radii (3-4-5, ...)
    pick_r = st.sampled_from(rich + rich + radii) if rich else st.sampled_from(radii)
    kind = draw(st.sampled_from(["cut", "cut", "type", "nn"]))
    K = draw(st.integers(1, 3)) if kind == "type" else 1
    if kind == "type":
        M = np.array([[draw(pick_r) for _ in range(K)] for _ in range(K)], dtype=np.int64)
        used = sorted(set(M.ravel().tolist()))
    else:
        M = None
        used = [draw(pick_r)]
    pts = []

    def point():
        c = np.array([draw(st.integers(0, Ls[a] - 1)) for a in range(d)], dtype=np.int64)
        n = np.array([draw(st.integers(-1, 1)) for _ in range(d)], dtype=np.int64) * per
        return lo + c + n @ H

    for _ in range(draw(st.integers(1, 4))):
        base = point()
        pts.append(base)
        r0 = draw(st.sampled_from(used))
        for r in {r0, r0 + draw(st.sampled_from([0, 1, -1]))}:
            if r not in table:
                continue
            v = np.array(draw(st.sampled_from(table[r])), dtype=np.int64)
            v = v[list(draw(st.permutations(range(d))))] * np.array([draw(st.sampled_from([-1, 1])) for _ in range(d)])
            n = np.array([draw(st.integers(-1, 1)) for _ in range(d)], dtype=np.int64) * per
            pts.append(base + v + n @ H)
    for _ in range(draw(st.integers(0, 5))):
        pts.append(point())
    pts = np.array(pts, dtype=np.int64)
    d2lo, _ = neigh.exact_d2_intervals(pts, H, ppp)
    keep = []
    for i in range(len(pts)):
        if all(d2lo[i, j] != 0 for j in keep):
            keep.append(i)
    pts = pts[keep]
    N = len(pts)
    assume(N >= max(2, K))
    types = draw(types_st(N, K))
    case = {"d": d, "cell": {"d": d, "kind": ck, "H": H.astype(float), "lo": lo.astype(float), "origin": "int"},
            "pos": [pts.astype(float)], "types": types, "ppp": ppp, "K": K, "timesteps": [0], "w": kind,
            "Hint": H, "posint": pts}
    if kind == "nn":
        case["nnn"] = draw(st.integers(1, N - 1))
    elif kind == "cut":
        case["rc"] = float(used[0])
    else:
        case["rcm"] = M.astype(float)
    # the same integers in the representations a caller may hold them in: positions / cell as int64 or int32 arrays,
    # r_cut as int, the matrix as an integer or float32 array, labels as int32 / uint32 / uint8, the mask as a list ...
    case["rep"] = draw(rep_st(kind, crisp=True))
    return case


def check_crisp(case):
    kind = case["w"]
    N = len(case["types"])
    types = np.asarray(case["types"], dtype=int)
    path = run_writer(case)
    frames, lists = parse_written(path, N, 1, "crisp-" + kind)
    L = lists[0]
    d2lo, d2hi = neigh.exact_d2_intervals(case["posint"], case["Hint"], case["ppp"])
    listed = np.zeros((N, N), dtype=bool)
    n_tie_order = 0
    for i in range(N):
        listed[i, L[i]] = True
        for a, b in zip(L[i][:-1], L[i][1:]):
            require(d2lo[i, a] <= d2hi[i, b], lambda: f"crisp-{kind}: particle {i + 1}: id {a + 1} (d^2 = {d2lo[i, a]}) "
                    f"listed before id {b + 1} (d^2 = {d2hi[i, b]})")
            n_tie_order += int(d2lo[i, a] == d2hi[i, b])
    off = ~np.eye(N, dtype=bool)
    boundary = outside1 = 0
    if kind == "nn":
        nnn = int(case["nnn"])
        require(all(len(x) == nnn for x in L), f"crisp-nn: coordination numbers {[len(x) for x in L]} != {nnn}")
        for i in range(N):
            un = [j for j in range(N) if j != i and not listed[i, j]]
            if un and L[i]:
                a = max(L[i], key=lambda j: d2lo[i, j])
                b = min(un, key=lambda j: d2hi[i, j])
                require(d2lo[i, a] <= d2hi[i, b], lambda: f"crisp-nn: particle {i + 1}: listed id {a + 1} (d^2 = "
                        f"{d2lo[i, a]}) while unlisted id {b + 1} is closer (d^2 = {d2hi[i, b]})")
                boundary += int(d2lo[i, a] == d2hi[i, b])
        nontrivial = bool(nnn >= 2 and (n_tie_order or boundary))
    else:
        if kind == "cut":
            rc = np.full((N, N), int(case["rc"]), dtype=object)
        else:
            Mi = np.asarray(case["rcm"]).astype(np.int64)
            rc = Mi[types[:, None] - 1, types[None, :] - 1].astype(object)
        rc2 = rc * rc
        amb_any = False
        for i in range(N):
            for j in range(N):
                if i == j:
                    continue
                if d2hi[i, j] <= rc2[i, j]:
                    require(listed[i, j], lambda: f"crisp-{kind}: id {j + 1} missing from the list of id {i + 1}: d^2 = "
                            f"{d2hi[i, j]} <= r_cut^2 = {rc2[i, j]} (cut-off is inclusive; types {types[i]}->{types[j]})")
                    boundary += int(d2lo[i, j] == rc2[i, j])
                elif d2lo[i, j] > rc2[i, j]:
                    require(not listed[i, j], lambda: f"crisp-{kind}: id {j + 1} wrongly in the list of id {i + 1}: d^2 = "
                            f"{d2lo[i, j]} > r_cut^2 = {rc2[i, j]} (types {types[i]}->{types[j]})")
                    outside1 += int(d2lo[i, j] <= (rc[i, j] + 1) ** 2)
                else:
                    amb_any = True
        if kind == "cut":
            for i in range(N):
                for j in range(i):
                    if d2lo[i, j] == d2hi[i, j] and d2lo[j, i] == d2hi[j, i]:
                        require(listed[i, j] == listed[j, i], f"crisp-cut: relation not symmetric for ids {i + 1},{j + 1}")
        nontrivial = bool(boundary)
    read_back(path, frames, N, "crisp-" + kind)
    ppp = np.asarray(case["ppp"])
    tags = rep_tags(case) + ["N=2" if N == 2 else "N>=3"] + [f"d{case['d']}", case["cell"]["kind"], kind, "mask-full" if ppp.all() else ("mask-open" if not ppp.any() else "mask-partial"),
            "on-boundary" if boundary else "no-boundary-pair", "exact-order-tie" if n_tie_order else "no-order-tie"]
    if kind != "nn":
        tags.append("just-outside" if outside1 else "no-just-outside")
        r_used = sorted({int(x) for x in (np.asarray(case["rcm"]).ravel() if kind == "type" else [case["rc"]])})
        tags.append("rcut=5" if 5 in r_used else "rcut-other")
        if kind == "type":
            tags.append(f"K{case['K']}")
    return {"nontrivial": nontrivial, "tags": tags, "extra": {"boundary_pairs": boundary, "exact_order_ties": n_tie_order}}


def describe_crisp(case):
    out = {"w": case["w"], "d": case["d"], "H": case["Hint"].tolist(), "ppp": np.asarray(case["ppp"]).tolist(),
           "pos": case["posint"].tolist(), "types": np.asarray(case["types"]).tolist()}
    for k in ("nnn", "rc"):
        if k in case:
            out[k] = case[k]
    if "rcm" in case:
        out["rcm"] = np.asarray(case["rcm"]).tolist()
    out["rep"] = case.get("rep")
    return out


# ============================================================================= the reader as a state machine

N_HEADERS = ["id     cn     neighborlist", "id   cn   neighborlist", "id cn neighborlist"]
W_HEADERS = ["id   cn   edgelengthlist", "id   cn   facearealist", "id cn facearealist", "id cn edgelengthlist"]
W_FORMATS = ["%.6f", "%.17g", "%g", "%.3e", "%.2f"]


@st.composite
def text_style_st(draw):
    """Text variants of a well-formed file that the unchanged reader accepts (probed): blanks or tabs between the
    fields, leading / trailing blanks, LF or CRLF line ends, blank lines after the last frame, an unterminated last
    line; `newline` is how the caller opens the file (None: universal newlines, '': untranslated)."""
    style = {"lead": draw(st.sampled_from(["", "", " ", "   "])), "sep": draw(st.sampled_from([" ", " ", "  ", "    ", "\t"])),
             "trail": draw(st.sampled_from(["", "", " "])), "eol": draw(st.sampled_from(["\n", "\n", "\r\n"])),
             "tail": draw(st.sampled_from(["", "", "", "\n", "\n\n"])), "final_newline": draw(st.integers(0, 5)) > 0,
             "newline": draw(st.sampled_from([None, None, ""]))}
    if style["eol"] == "\r\n" and style["tail"]:
        style["tail"] = style["tail"].replace("\n", "\r\n")
    return style


def style_tags(style):
    tags = []
    if style.get("eol", "\n") == "\r\n":
        tags.append("eol-crlf")
        if style.get("newline") == "":
            tags.append("newline-untranslated")
    if style.get("tail"):
        tags.append("tail-blank-lines")
    elif not style.get("final_newline", True):
        tags.append("no-final-newline")
    if style.get("sep") == "\t":
        tags.append("sep-tab")
    return tags


def write_text(name, text):
    with open(name, "w", encoding="utf-8", newline="") as f:      # line ends exactly as encoded
        f.write(text)


def text_as_seen(name, newline):
    with open(name, "r", encoding="utf-8", newline=newline) as f:
        return f.read()


@st.composite
def syn_files_st(draw):
    """1 or 2 synthetic files written by the harness' own encoder.  'pair' = a neighbour file and a weight file with
    the same (id, cn) structure (the way static.boo reads them side by side)."""
    N = draw(st.one_of(st.integers(1, 9), st.integers(5, 9)))
    F = draw(st.integers(1, 4))
    mode = draw(st.sampled_from(["neigh", "weight", "pair", "pair"]))
    cmax = draw(st.sampled_from([0, 3, 5, 8, 8]))
    struct = []
    for _ in range(F):
        fr = {}
        for pid in range(1, N + 1):
            others = draw(st.lists(st.integers(1, max(1, N - 1)), unique=True, max_size=min(cmax, N - 1)))
            fr[pid] = [v if v < pid else v + 1 for v in others]  # never the particle itself
        struct.append(fr)
    files = []
    kinds = {"neigh": ["neigh"], "weight": ["weight"], "pair": ["neigh", "weight"]}[mode]
    for kind in kinds:
        hdr = draw(st.sampled_from(N_HEADERS if kind == "neigh" else W_HEADERS))
        style = draw(text_style_st())
        fmt = draw(st.sampled_from(W_FORMATS))
        frames = []
        for fr in struct:
            order = list(draw(st.permutations(range(1, N + 1)))) if draw(st.integers(0, 3)) else list(range(1, N + 1))
            rows = {}
            for pid in range(1, N + 1):
                if kind == "neigh":
                    rows[pid] = [str(v) for v in fr[pid]]
                else:
                    w = draw(st.lists(st.one_of(st.integers(0, 10 ** 7).map(lambda k: k / 1e4), fl(0.0, 1e3)),
                                      min_size=len(fr[pid]), max_size=len(fr[pid])))
                    rows[pid] = [fmt % x for x in w]
            frames.append({"header": hdr, "order": order, "rows": rows})
        files.append({"kind": kind, "N": N, "frames": frames, "style": style})
    if mode == "pair" and draw(st.booleans()):
        files.reverse()  # weight file written, opened and indexed first
    return {"src": "syn", "mode": mode, "files": files}


@st.composite
def lib_file_st(draw):
    kind = draw(st.sampled_from(["nn", "cut", "type"]))
    return {"src": "lib", "conf": draw(writer_case_st(kind, nmax=9, frames=(1, 4)))}


class ReaderMachine(RecordingMachine):
    """Model: per open file a frame pointer and the rows of every frame.  read_next(Nmax) must return the model row
    table of the frame under the pointer and advance it by one."""

    def __init__(self):
        super().__init__()
        self.files = []
        self.kept = []      # (array returned by the reader, copy taken at return, description)
        self.flags = {"cn_varies": False, "truncated": False, "consecutive": False}

    # ---- set-up
    @initialize(case=st.one_of(syn_files_st(), lib_file_st()))
    def r_init(self, case):
        self.step("init", case=case)
        self.do_init(case=case)

    def do_init(self, case):
        self.files = []
        if case["src"] == "lib":
            conf = case["conf"]
            path = run_writer(conf)
            N = len(conf["types"])
            frames, _ = parse_written(path, N, len(conf["pos"]), "machine-" + conf["w"])
            with open(path, "r", encoding="utf-8") as f:
                text = f.read()
            model = [{pid: ent for pid, _, ent in fr["rows"]} for fr in frames]
            self.files.append({"name": path, "N": N, "neighbor": True, "frames": model, "text": text, "newline": None})
            self.tag("lib-" + conf["w"])
        else:
            for k, fd in enumerate(case["files"]):
                name = f"syn{k}.dat"
                write_text(name, neigh.encode_list_file(fd["frames"], fd["style"]))
                nl = fd["style"].get("newline")
                self.files.append({"name": name, "N": fd["N"], "neighbor": fd["kind"] == "neigh", "newline": nl,
                                   "frames": [fr["rows"] for fr in fd["frames"]], "text": text_as_seen(name, nl)})
                for t in style_tags(fd["style"]):
                    self.tag(t)
                shuffled = any(fr["order"] != sorted(fr["order"]) for fr in fd["frames"])
                self.tag(f"syn-{fd['kind']}" + ("-shuffled" if shuffled else "-ordered"))
                if any(len(e) == 0 for fr in fd["frames"] for e in fr["rows"].values()):
                    self.tag("cn0-rows")
            if case["mode"] == "pair":
                self.tag("two-files-neigh-opened-first" if self.files[0]["neighbor"] else "two-files-weight-opened-first")
        for fo in self.files:
            fo["F"] = len(fo["frames"])
            fo["offs"] = neigh.frame_offsets(fo["text"], fo["N"], fo["F"])
            fo["ptr"] = 0
            fo["run"] = 0
            fo["rest_done"] = False
            fo["h"] = open(fo["name"], "r", encoding="utf-8", newline=fo["newline"])
        self.last = None

    def teardown(self):
        if not any(name in ("read", "alternate") for name, _ in self.log):
            self._failed = True  # run cut short by Hypothesis before any read: not an evaluated history
        for fo in self.files:
            try:
                fo["h"].close()
            except Exception:  # noqa: BLE001
                pass
        super().teardown()

    # ---- rules
    def _readable(self):
        return [fo for fo in self.files if fo["ptr"] < fo["F"]]

    def _reopenable(self):
        return [fo for fo in self.files if fo["ptr"] >= 2 or fo["ptr"] == fo["F"]]

    def _restable(self):
        return [fo for fo in self.files if fo["ptr"] >= 1 and not fo["rest_done"]]

    @precondition(lambda self: bool(self._readable()))
    @rule(which=st.integers(0, 1), u=st.integers(0, 10 ** 6), kw=st.booleans())
    def r_read(self, which, u, kw):
        self.step("read", which=which, u=u, kw=kw)
        self.do_read(which=which, u=u, kw=kw)

    @precondition(lambda self: bool(self._readable()))
    @rule(which=st.integers(0, 1), u=st.integers(0, 10 ** 6))
    def r_read_small(self, which, u):
        """Same operation, Nmax biased below the largest coordination number (truncation branch)."""
        cands = self._readable()
        fo = cands[which % len(cands)]
        maxcn = max(len(e) for e in fo["frames"][fo["ptr"]].values())
        v = 8 * (u % max(1, maxcn - 1))  # -> Nmax in 1..maxcn-1 (1 when maxcn <= 2)
        self.step("read", which=which, u=v, kw=False)
        self.do_read(which=which, u=v, kw=False)

    def do_read(self, which, u, kw):
        cands = self._readable()
        return self._read_file(cands[which % len(cands)], u, kw)

    def _pairable(self):
        return (len(self.files) == 2 and self.files[0]["ptr"] == self.files[1]["ptr"] < self.files[0]["F"])

    @precondition(lambda self: self._pairable())
    @rule(first=st.integers(0, 1), u=st.integers(0, 10 ** 6))
    def r_alternate(self, first, u):
        self.step("alternate", first=first, u=u)
        self.do_alternate(first=first, u=u)

    def do_alternate(self, first, u):
        """The way static.boo consumes a neighbour file and a weight file of the same shape: the same frame of both,
        one after the other (either first), with the same Nmax; the two tables must have the same shape and cn column."""
        a, b = self.files[first], self.files[1 - first]
        ga = self._read_file(a, u, False)
        gb = self._read_file(b, u, False)
        require(np.shape(ga) == np.shape(gb), f"alternate read: shapes {np.shape(ga)} and {np.shape(gb)} differ for the "
                f"same (id, cn) structure and the same Nmax")
        require(np.array_equal(np.asarray(ga)[:, 0], np.asarray(gb)[:, 0]), "alternate read: cn columns differ")
        self.tag("alternate-" + ("neigh" if a["neighbor"] else "weight") + "-first")

    def _read_file(self, fo, u, kw):
        rows = fo["frames"][fo["ptr"]]
        cns = [len(e) for e in rows.values()]
        maxcn = max(cns)
        default = (u % 8 == 7)
        nmax = 200 if default else 1 + (u // 8) % (maxcn + 3)
        if default:
            got = read_neighbors(fo["h"], fo["N"])
        elif kw:
            got = read_neighbors(f=fo["h"], nparticle=fo["N"], Nmax=nmax)
        else:
            got = read_neighbors(fo["h"], fo["N"], nmax)
        tag = f"read #{len(self.log)} of {fo['name']} frame {fo['ptr']} Nmax={nmax}"
        compare_read(tag, got, rows, fo["N"], nmax, fo["neighbor"])
        self.kept.append((got, np.array(got, copy=True), tag))
        fo["ptr"] += 1
        fo["run"] += 1
        if self.last is not None and self.last is not fo:
            self.tag("interleaved")
        self.last = fo
        self.flags["cn_varies"] |= len(set(cns)) > 1
        self.flags["truncated"] |= nmax < maxcn
        self.flags["consecutive"] |= fo["run"] >= 2
        self.tag("truncated" if nmax < maxcn else ("Nmax=maxcn" if nmax == maxcn else ("default-Nmax" if default else "Nmax>maxcn")))
        self.tag("weight-read" if not fo["neighbor"] else "neighbor-read")
        if fo["ptr"] >= 2:
            self.tag("frame>=2-read")
        if maxcn == 0:
            self.tag("all-empty-frame-read")
        self.info["nontrivial"] = all(self.flags.values())
        return got

    @precondition(lambda self: bool(self._reopenable()))
    @rule(which=st.integers(0, 1))
    def r_reopen(self, which):
        self.step("reopen", which=which)
        self.do_reopen(which=which)

    def do_reopen(self, which):
        cands = self._reopenable()
        fo = cands[which % len(cands)]
        fo["h"].close()
        fo["h"] = open(fo["name"], "r", encoding="utf-8", newline=fo["newline"])
        fo["ptr"] = 0
        fo["run"] = 0
        fo["rest_done"] = False
        self.tag("reopen")

    @precondition(lambda self: bool(self._restable()))
    @rule(which=st.integers(0, 1))
    def r_rest(self, which):
        self.step("rest", which=which)
        self.do_rest(which=which)

    def do_rest(self, which):
        """The caller reads the remaining text itself: it must be exactly the frames not yet delivered."""
        cands = self._restable()
        fo = cands[which % len(cands)]
        rest = fo["h"].read()
        want = fo["text"][fo["offs"][fo["ptr"]]:]
        require(rest == want, lambda: f"after {fo['ptr']} reads of {fo['name']} the file position is not at the start of "
                f"frame {fo['ptr']}: {len(rest)} characters left, expected {len(want)}")
        self.tag("rest-checked-at-end" if fo["ptr"] == fo["F"] else "rest-checked-midfile")
        fo["ptr"] = fo["F"]
        fo["run"] = 0
        fo["rest_done"] = True

    # ---- invariants
    def check_invariants_now(self):
        for fo in self.files:
            require(0 <= fo["ptr"] <= fo["F"], "harness: frame pointer out of range")
            require(not fo["h"].closed, f"{fo['name']}: the reader closed the caller's file handle")
        # results handed out earlier must stay what they were (bit-for-bit against the copy taken at return)
        for got, copy, tag in self.kept:
            require(np.array_equal(np.asarray(got), copy), f"the array returned by {tag} changed during a later read")
        if len(self.kept) >= 2 and "kept-results-rechecked" not in self.info["tags"]:
            self.tag("kept-results-rechecked")

    @invariant()
    def inv(self):
        self.check_invariants_now()


def describe_machine(log):
    out = []
    for name, kw in log:
        if name == "init":
            c = kw["case"]
            if c["src"] == "lib":
                out.append(("init", "lib", describe_writer(c["conf"])))
            else:
                out.append(("init", c["mode"], [neigh.encode_list_file(f["frames"], f["style"])[:300] for f in c["files"]]))
        else:
            out.append((name, kw))
    return out


# ============================================================================= the reader at the size boundaries

ROWS_B = [1, 2, 31, 32, 33, 63, 64, 65, 99, 100, 101, 127, 128, 129, 130, 199, 200, 201, 255, 256, 257, 258]
CN_B = [127, 128, 129, 130, 199, 200, 201, 202, 255, 256, 257, 258]      # entries per row; default Nmax = 200
NMAX_B = [1, 2, 127, 128, 129, 199, 200, 201, 255, 256, 257]


@st.composite
def reader_bulk_st(draw):
    """One synthetic file whose rows per frame, frames per file or entries per row sit at a block-size boundary; all
    frames are read in sequence from one handle.  Bulk contents from numpy's generator seeded by Hypothesis; the case
    stores the arrays."""
    kind = draw(st.sampled_from(["neigh", "neigh", "weight"]))
    style = draw(text_style_st())
    header = draw(st.sampled_from(N_HEADERS if kind == "neigh" else W_HEADERS))
    fmt = draw(st.sampled_from(W_FORMATS))
    kw = draw(st.booleans())
    intrep = draw(st.sampled_from(["int", "int", "np.int64", "np.int32"]))
    # axis and sizes from the seeded generator (every boundary value populated in every run, see bulk_st)
    rng = mixed_rng(draw(st.integers(0, 2 ** 32 - 1)), kind, sorted(style.items(), key=str), header, fmt, kw, intrep)
    axis = str(rng.choice(["rows", "frames", "cn", "cn"]))
    if axis == "rows":
        N = int(rng.choice(ROWS_B))
        F = int(rng.integers(1, 4))
        cmax = min(N - 1, int(rng.choice([0, 2, 6, 12])))
        cn_pool = list(range(0, cmax + 1))
    elif axis == "frames":
        N = int(rng.integers(1, 6))
        F = int(rng.choice(FRAMES_B))
        cn_pool = list(range(0, N))
    else:
        cb = int(rng.choice(CN_B))
        N = cb + 1 + int(rng.integers(0, 4))
        F = int(rng.integers(1, 3))
        cn_pool = [0, 1, cb - 2, cb - 1, cb, cb, cb] + ([cb + 1] if cb + 1 <= N - 1 else [])
    frames = []
    for _ in range(F):
        cn = rng.choice(cn_pool, N)
        if axis == "cn" and rng.random() < 0.7:
            cn[rng.integers(0, N)] = max(cn_pool)          # the boundary value is the frame maximum
        order = rng.permutation(N) + 1 if rng.random() < 0.7 else np.arange(1, N + 1)
        ent = []
        for i in range(N):
            if kind == "neigh":
                others = rng.permutation(N - 1)[:cn[i]] + 1
                ent.append(np.where(others >= i + 1, others + 1, others).astype(np.int64))      # never the id itself
            else:
                ent.append(np.round(rng.random(cn[i]) * float(rng.choice([1.0, 50.0, 1e4])), 6))
        frames.append({"order": order.astype(np.int64), "ent": ent})
    # Nmax per frame: the default (200), the boundary values, around this frame's largest cn
    nmaxs = []
    for fr in frames:
        mc = max(len(e) for e in fr["ent"])
        nmaxs.append(draw(st.sampled_from(["default", "default", 1, max(1, mc - 1), max(1, mc), mc + 1] + NMAX_B)))
    if axis == "frames" and draw(st.booleans()):
        nmaxs = [nmaxs[0]] * F       # the documented loop: the same Nmax for every frame
    return {"axis": axis, "kind": kind, "N": N, "frames": frames, "nmaxs": nmaxs, "header": header, "fmt": fmt,
            "style": style, "kw": kw, "intrep": intrep}


def check_reader_bulk(case):
    N, kind, style = case["N"], case["kind"], case["style"]
    enc = []
    for fr in case["frames"]:
        rows = {}
        for i, e in enumerate(fr["ent"]):
            rows[i + 1] = [str(int(v)) for v in e] if kind == "neigh" else [case["fmt"] % float(v) for v in e]
        enc.append({"header": case["header"], "order": [int(x) for x in fr["order"]], "rows": rows})
    name = "bulk.dat"
    write_text(name, neigh.encode_list_file(enc, style))
    seen = text_as_seen(name, style.get("newline"))
    F = len(enc)
    offs = neigh.frame_offsets(seen, N, F)
    kept = []
    cn_varies = False
    tags = ["axis-" + case["axis"], "kind-" + kind] + style_tags(style)
    asint = {"np.int64": np.int64, "np.int32": np.int32}.get(case.get("intrep", "int"), int)      # same values (probed)
    if asint is not int:
        tags.append("counts-" + case["intrep"])
    with open(name, "r", encoding="utf-8", newline=style.get("newline")) as f:
        for k, fr in enumerate(enc):
            nm = case["nmaxs"][k]
            if nm == "default":
                got = read_neighbors(f, asint(N))
                nmax = 200
            elif case["kw"]:
                got = read_neighbors(f=f, nparticle=asint(N), Nmax=asint(nm))
                nmax = int(nm)
            else:
                got = read_neighbors(f, asint(N), asint(nm))
                nmax = int(nm)
            what = f"bulk read of frame {k} of {F} ({N} rows, Nmax={nmax})"
            compare_read(what, got, fr["rows"], N, nmax, kind == "neigh")
            kept.append((got, np.array(got, copy=True), what))
            cns = [len(e) for e in fr["rows"].values()]
            mc = max(cns)
            cn_varies = cn_varies or len(set(cns)) > 1
            if mc in CN_B:
                tags.append(f"cn-boundary-{mc}")
            tags.append("truncated" if nmax < mc else ("Nmax=maxcn" if nmax == mc else ("default-Nmax" if nm == "default" else "Nmax>maxcn")))
            if nm != "default" and nmax in NMAX_B[2:]:
                tags.append(f"Nmax-boundary-{nmax}")
            if nmax == 1:
                tags.append("Nmax=1")
        rest = f.read()
        require(not f.closed, "the reader closed the caller's file handle")
    require(rest == seen[offs[F]:], lambda: f"after reading all {F} frames {len(rest)} characters are left in the file, "
            f"expected the {len(seen) - offs[F]} characters after the last frame")
    for got, copy, what in kept:
        require(np.array_equal(np.asarray(got), copy), f"the array returned by the {what} changed during later reads")
    if N in ROWS_B[2:]:
        tags.append(f"rows-boundary-{N}")
    if F in FRAMES_B:
        tags.append(f"frames-boundary-{F}")
    if F >= 2:
        tags.append("kept-results-rechecked")
    return {"nontrivial": bool(cn_varies and F >= 2), "tags": sorted(set(tags))}


def describe_reader_bulk(case):
    return {"axis": case["axis"], "kind": case["kind"], "N": case["N"], "F": len(case["frames"]), "nmaxs": case["nmaxs"][:6],
            "style": case["style"], "header": case["header"],
            "cn_frame0": [len(e) for e in case["frames"][0]["ent"]][:12]}


# ============================================================================= facets

BUD = 240.0     # wall-clock budget per shard in the quick tier (the default 60 s truncates facets on a loaded machine)

FACETS = [
    Facet("nnearest", writer_case_st("nn"), check_writer, quick=600, thorough=60000, describe=describe_writer, shards_quick=4,
          quick_budget_s=BUD, rule="Nnearests, N_nn 1..N-1 (N-1 over-weighted); non-trivial = N_nn >= 2"),
    Facet("nnearest_large", large_nn_st(), check_writer, quick=40, thorough=4000, describe=describe_writer, shards_quick=2,
          quick_budget_s=BUD,
          rule="Nnearests on seeded random gases of 150..400 particles, N_nn mostly in [N/5, 4N/5] (partition index "
               "beyond numpy's small-array path); non-trivial = N_nn >= 2"),
    Facet("cutoff", writer_case_st("cut"), check_writer, quick=600, thorough=60000, describe=describe_writer, shards_quick=4,
          quick_budget_s=BUD,
          rule="cutoffneighbors, r_cut mid-gap of the reference distances (1/8 anywhere); non-trivial = some cn >= 2 and cn "
               "differ within a frame"),
    Facet("cutoff_type", writer_case_st("type"), check_writer, quick=600, thorough=60000, describe=describe_writer,
          quick_budget_s=BUD,
          shards_quick=4, rule="cutoffneighbors_particletype, K 1..5, independent matrix entries; non-trivial as cutoff"),
    Facet("sheared", writer_case_st("any", nmax=24, frames=(2, 4), sheared=True), check_writer, quick=300, thorough=30000,
          describe=describe_writer, shards_quick=2, quick_budget_s=BUD,
          rule="all three writers on multi-frame triclinic trajectories whose tilt factors differ per frame (same edge "
               "lengths): every frame is compared with the reference for ITS cell matrix; non-trivial as the writer's facet"),
    Facet("size_boundary", bulk_st(SIZES_QUICK, ["gas", "gas", "clusters"], many_frames=True), check_writer,
          quick=200, thorough=6000, describe=describe_writer, shards_quick=4, quick_budget_s=BUD,
          rule="all three writers at particle numbers around block sizes (31..33, 49..51, 63..65, 99..101, 127..130, 170, "
               "199..201, 255..258), N_nn and cut-off list lengths around the same sizes, 31..129 frames per file of tiny "
               "frames; non-trivial as the writer's facet"),
    Facet("size_boundary_large", bulk_st(SIZES_THOROUGH, ["gas", "gas", "clusters"]), check_writer,
          quick=0, thorough=320, describe=describe_writer, thorough_budget_s=1500.0,
          rule="thorough tier only: particle numbers 499..501, 511..513, 999..1001, 1023..1025"),
    Facet("inhomogeneous", bulk_st((150, 400), ["clusters", "clusters", "droplet", "droplet", "void", "slab", "oblique"], dims=(2, 2, 3),
                                   writers=("nn", "nn", "cut", "type")), check_writer,
          quick=160, thorough=8000, describe=describe_writer, shards_quick=4, quick_budget_s=BUD,
          rule="all three writers on strongly inhomogeneous systems of 150..400 particles (clusters in a dilute background, "
               "voids, slabs and droplets with free surfaces; 2D / 3D, orthogonal / triclinic / axis-permuted), N_nn mostly "
               "1..16, cut-offs at quantiles of the pair-distance distribution; non-trivial as the writer's facet"),
    Facet("crisp", crisp_st(), check_crisp, quick=600, thorough=40000, describe=describe_crisp, shards_quick=2,
          quick_budget_s=BUD,
          rule="integer coordinates, power-of-two cells (dyadic tilts), integer cut-offs with planted pairs at distance "
               "r, r+1, r-1; exact oracle; non-trivial = a pair exactly on the boundary / an exact tie (N-nearest)"),
    Facet("reader_machine", machine=ReaderMachine, quick=400, thorough=20000, steps=10, describe=describe_machine,
          quick_budget_s=BUD,
          shards_quick=2, rule="histories of read(Nmax)/reopen/read-rest over 1-2 open files; non-trivial = cn differ "
                               "within a read frame, some read truncated, >= 2 consecutive frames from one handle"),
    Facet("reader_bulk", reader_bulk_st(), check_reader_bulk, quick=240, thorough=12000, describe=describe_reader_bulk,
          shards_quick=2, quick_budget_s=BUD,
          rule="synthetic files with rows per frame / frames per file / entries per row at block-size boundaries, read "
               "in sequence from one handle with Nmax at the default, 1, and the boundaries; LF / CRLF / tabs / blank "
               "tail; every returned array re-compared at the end; non-trivial = cn differ within a frame and >= 2 "
               "frames read"),
]
