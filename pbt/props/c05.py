"""C05 — neighbour lists hold exactly the right particles, nearest first, via the file.

Writer facets (Nnearests / cutoffneighbors / cutoffneighbors_particletype): the written text file is parsed by an
own parser and compared with an independent minimum-image reference (fractional rounding, contract of C02) under
the interval/ambiguity rule; crisp facet: integer coordinates in power-of-two boxes, everything exact, boundary
inclusive.  Reader facet: Hypothesis rule-based state machine over open files (library-written and synthetic).

Preconditions imposed on generated inputs (each is what real callers satisfy):
  * no two particles coincide modulo the periodic lattice (calculate_neighbors.py drops "the first after sorting"
    as the centre itself, L66-70 / L128-131 / L199-200) — enforced by `assume` on the reference distances;
  * type ids exactly 1..K, all present, identical in all frames (cutoffneighbors_particletype builds its cut-off
    table from frame 0, L181-187); cut-off matrices are float K x K with positive entries;
  * N_nn <= N-1 (that many other particles exist); cut-offs below half the shortest periodic box edge;
  * reader: well-formed files only (header + nparticle rows per frame, ids a permutation of 1..nparticle, cn equal to
    the number of entries), Nmax >= 1, never reading past the last frame.
"""
from __future__ import annotations

import os

import numpy as np
from hypothesis import assume
from hypothesis import strategies as st
from hypothesis.extra import numpy as hnp
from hypothesis.stateful import initialize, invariant, precondition, rule

from ..gen import cell_st, fl, frac_config_st, ppp_st, snapshot_from, types_st
from ..harness import Facet, RecordingMachine, Violation
from ..ref import neigh
from ..util import arr, close, equal, require

from PyMatterSim.neighbors.calculate_neighbors import Nnearests, cutoffneighbors, cutoffneighbors_particletype
from PyMatterSim.neighbors.read_neighbors import read_neighbors
from PyMatterSim.reader.reader_utils import Snapshots

RULE = ("writers: generated configurations (gas / lattice with and without jitter / clusters; 2D,3D; orthogonal and "
        "LAMMPS-triclinic cells; all periodicity masks; positions also outside the box; N 3..40, plus seeded gases of "
        "150..400 particles for the partition index; 1..4 frames, also sheared: per-frame tilt factors) x "
        "{N_nn 1..N-1 | global r_cut in a gap of the reference distances | K x K type-pair matrix, not symmetric}; "
        "crisp: integer coordinates, power-of-two cells, integer cut-offs with planted Pythagorean pairs exactly at, "
        "just inside and just outside the cut-off. reader: histories of read / reopen / read-rest over 1-2 open "
        "files of 1..4 frames. non-trivial: writers = some list holds >= 2 neighbours and (cut-off kinds) the "
        "coordination numbers differ within a frame; crisp = a pair sits exactly on the boundary (cut-off kinds) or "
        "an exact distance tie occurs (N-nearest); reader history = coordination numbers differ within a read frame "
        "and some read is truncated by Nmax and >= 2 consecutive frames are read from one handle")
ASSUMPTIONS = [
    "minimum image = fractional rounding (contract of C02); on half-cell ties either image is accepted",
    "pairs whose reference distance is within 1e-9*scale of a decision boundary (cut-off, N-th distance, order of "
    "two neighbours) may go either way; scale = max(1, |H|max, |positions|max)",
    "no coincident particles; same N / types / cell in all frames; cut-offs below half the shortest periodic edge",
    "crisp facet: all arithmetic exact in binary64 (integers < 2^12, power-of-two edges, dyadic tilts), so the "
    "inclusive boundary and exact distance ties are asserted without tolerance",
    "reader: well-formed files, Nmax >= 1, no read past the last frame (behaviour at EOF is not specified); "
    "integer dtype (not specifically int32) is required for neighbour lists, float for any other list",
]
MANIFEST = {
    "text": ("Files written by Nnearests, cutoffneighbors and cutoffneighbors_particletype are parsed independently "
             "and compared with a brute-force minimum-image reference: one header per frame, every id once, cn = "
             "length, 1-based ids, never the particle itself, exactly the N closest / exactly the pairs within the "
             "(type-pair) cut-off, non-decreasing distance order, symmetry of the global cut-off relation "
             "(facets nnearest, nnearest_large, cutoff, cutoff_type, and sheared = per-frame cell matrix); boundary-inclusive cut-offs and exact distance ties on integer "
             "constructions such as a 3-4-5 pair at r_cut = 5.0 (facet crisp); every written file is read back "
             "frame by frame. read_neighbors is checked as a rule-based state machine against a frame-pointer "
             "model: any Nmax per read (truncation, padding, width 1+min(max cn,Nmax)), id-indexed rows in shuffled "
             "order, cn = 0 rows, weight-type headers with verbatim floats, two files read interleaved, reopen, "
             "a neighbour and a weight file of the same shape read alternately with handles opened in either order, "
             "all-empty frames (width 1), remaining text after k reads (facet reader_machine)."),
    "note": ("Trusted base: own parser/encoder and numpy reference in pbt/ref/neigh.py; C02 contract for the "
             "minimum image. Ambiguity rule 1e-9*scale at every discrete decision; exact arithmetic in the crisp "
             "facet. Not covered: behaviour at EOF, malformed files, coincident particles, N_nn >= N."),
    "technique": ("property-based testing (Hypothesis): reference-model differential on the written file + "
                  "stateful model-based testing (RuleBasedStateMachine) of the sequential reader"),
}

FN = "neighborlist.dat"
HEADER = ["id", "cn", "neighborlist"]

# ============================================================================= shared oracle pieces


def frame_cells(case):
    """Per-frame cell dicts: case["cells"] for sheared trajectories (same edge lengths, per-frame tilt factors), else
    the one cell for every frame."""
    return case["cells"] if case.get("cells") else [case["cell"]] * len(case["pos"])


def make_snapshots(case):
    snaps = [snapshot_from(c, p, case["types"], ts)
             for c, p, ts in zip(frame_cells(case), case["pos"], case["timesteps"])]
    return Snapshots(nsnapshots=len(snaps), snapshots=snaps)


def _tol(case):
    m = max([1.0] + [float(np.abs(np.asarray(c["H"], dtype=float)).max()) for c in frame_cells(case)]
            + [float(np.abs(p).max()) for p in case["pos"]])
    return 1e-9 * m


def _rmax(case, dmax):
    H = np.asarray(case["cell"]["H"], dtype=float)
    per = np.asarray(case["ppp"]) > 0
    if per.any():
        return 0.5 * float(np.diag(H)[per].min())
    return 1.05 * dmax + 1e-3


def parse_written(fn, N, T, what):
    """Structure of a written neighbour file; returns (frames as parsed, lists[k][i] = 0-based neighbours)."""
    with open(fn, "r", encoding="utf-8") as f:
        text = f.read()
    try:
        frames = neigh.parse_list_file(text, N)
    except neigh.FormatError as e:
        raise Violation(f"{what}: written file malformed: {e}")
    require(len(frames) == T, f"{what}: file holds {len(frames)} frames for {T} snapshots")
    lists = []
    for k, fr in enumerate(frames):
        require(fr["header"] == HEADER, f"{what}: frame {k} header {fr['header']} != {HEADER}")
        seen = {}
        for pid, cn, ent in fr["rows"]:
            t = f"{what}: frame {k} row of id {pid}"
            require(1 <= pid <= N, f"{t}: id outside 1..{N}")
            require(pid not in seen, f"{t}: id listed twice")
            require(cn == len(ent), f"{t}: cn = {cn} but {len(ent)} entries follow")
            try:
                ids = [int(x) for x in ent]
            except ValueError:
                raise Violation(f"{t}: non-integer neighbour entry in {ent}")
            require(all(1 <= v <= N for v in ids), f"{t}: neighbour id outside 1..{N} (ids must be 1-based): {ids}")
            require(pid not in ids, f"{t}: list contains the particle itself: {ids}")
            require(len(set(ids)) == len(ids), f"{t}: duplicate neighbour: {ids}")
            seen[pid] = [v - 1 for v in ids]
        require(len(seen) == N, f"{what}: frame {k} does not list every id once")
        lists.append([seen[i + 1] for i in range(N)])
    return frames, lists


def compare_read(tag, got, rows, N, nmax, is_neighbor):
    want = neigh.reader_model(rows, N, nmax, is_neighbor)
    g = arr(tag, got, shape=want.shape)
    if is_neighbor:
        require(np.issubdtype(g.dtype, np.integer), f"{tag}: neighbour list returned with dtype {g.dtype}, not integer")
        equal(tag, g, want)
    else:
        require(np.issubdtype(g.dtype, np.floating), f"{tag}: weights returned with dtype {g.dtype}, not float")
        close(tag, g, want, rtol=1e-12, atol=0.0)


def read_back(fn, frames, N, what):
    """Every written file is read back frame by frame with the default Nmax from one open handle."""
    with open(fn, "r", encoding="utf-8") as f:
        for k, fr in enumerate(frames):
            rows = {pid: ent for pid, _, ent in fr["rows"]}
            compare_read(f"{what}: read_neighbors frame {k}", read_neighbors(f, N), rows, N, 200, True)
        require(f.read() == "", f"{what}: text left in the file after reading all {len(frames)} frames")


def uses_defaults(case):
    return case["d"] == 3 and bool(np.all(np.asarray(case["ppp"]) == 1)) and len(case["types"]) % 2 == 0


def call_writer(case, snaps):
    kind = case["w"]
    ppp = np.array(case["ppp"], dtype=int)
    if os.path.exists(FN):
        os.remove(FN)
    # documented defaults: ppp = [1,1,1], fnfile = 'neighborlist.dat' (== FN); used for every other eligible case
    kw = {} if uses_defaults(case) else {"ppp": ppp, "fnfile": FN}
    if kind == "nn":
        Nnearests(snaps, N=int(case["nnn"]), **kw)
    elif kind == "cut":
        cutoffneighbors(snaps, r_cut=float(case["rc"]), **kw)
    else:
        cutoffneighbors_particletype(snaps, r_cut=np.array(case["rcm"], dtype=float), **kw)
    require(os.path.exists(FN), f"{kind}: no file {FN} written")


# ============================================================================= generated configurations


def ufrac_st(N, d):
    """Fractional coordinates with all N*d numbers distinct: no two particles coincide modulo the lattice, by
    construction.  Dyadic values k/4096 give exact half-cell ties between pairs."""
    el = st.one_of(st.integers(0, 4095).map(lambda k: k / 4096.0), fl(0.0, 1.0, exclude_max=True))
    return hnp.arrays(np.float64, (N, d), elements=el, unique=True)


@st.composite
def conf_st(draw, nmax=40, frames=(1, 4), K=None, kmax=3, lmin=1.0, lmax=30.0, sheared=None):
    """Like gen.config_st (same case layout), but every kind is free of coincident particles by construction and the
    later frames are either fresh gases or small displacements of frame 0."""
    d = draw(st.sampled_from([2, 3]))
    cell = draw(cell_st(d, "tri" if sheared else "any", lmin=lmin, lmax=lmax))
    K_ = K if K is not None else draw(st.integers(1, kmax))
    kind = draw(st.sampled_from(["gas", "gas", "lattice", "cluster"]))
    if kind == "lattice":
        f0, kind = draw(frac_config_st(d, nmin=max(3, K_), nmax=nmax, kinds=("lattice",),
                                       exact_lattice=cell["kind"] == "ortho"))
    elif kind == "cluster":
        N = draw(st.integers(max(3, K_), nmax))
        nc = draw(st.integers(1, 3))
        centres = draw(ufrac_st(nc, d))
        which = draw(st.lists(st.integers(0, nc - 1), min_size=N, max_size=N))
        width = draw(st.sampled_from([0.02, 0.05, 0.1]))
        f0 = (centres[which] + width * (2.0 * draw(ufrac_st(N, d)) - 1.0)) % 1.0
    else:
        N = draw(st.integers(max(3, K_), nmax))
        f0 = draw(ufrac_st(N, d))
    N = len(f0)
    T = draw(st.integers(*frames))
    fr = [f0]
    for _ in range(T - 1):
        if draw(st.booleans()):
            fr.append(draw(ufrac_st(N, d)))
        else:
            fr.append((f0 + draw(st.sampled_from([0.01, 0.05])) * (2.0 * draw(ufrac_st(N, d)) - 1.0)) % 1.0)
    ppp = draw(ppp_st(d))
    offs = np.zeros((N, d))
    if draw(st.booleans()):
        offs = draw(hnp.arrays(np.int64, (N, d), elements=st.integers(-1, 1))).astype(float) * ppp
    cells = None
    if cell["kind"] == "tri" and T >= 2 and (sheared or (sheared is None and draw(st.integers(0, 3)) == 0)):
        # sheared trajectory: same edge lengths and origin, every later frame its own tilt factors
        L = np.diag(cell["H"])
        tl = st.one_of(st.integers(-50, 50).map(lambda k: k / 100.0), fl(-0.5, 0.5))
        cells = [cell]
        for _ in range(T - 1):
            Hk = np.diag(L).astype(float)
            Hk[1, 0] = draw(tl) * L[0]
            if d == 3:
                Hk[2, 0] = draw(tl) * L[0]
                Hk[2, 1] = draw(tl) * L[1]
            cells.append(dict(cell, H=Hk))
        if all(np.allclose(c["H"], cell["H"], rtol=0, atol=1e-3 * L.min()) for c in cells):
            Hk = cells[-1]["H"].copy()  # make the shear real: xy moved by 0.3 lx, folded back into [-lx/2, lx/2)
            Hk[1, 0] = ((cell["H"][1, 0] / L[0] + 0.3 + 0.5) % 1.0 - 0.5) * L[0]
            cells[-1] = dict(cell, H=Hk)
    Hs = [c["H"] for c in cells] if cells else [cell["H"]] * T
    pos = [cell["lo"] + (f + offs) @ Hk for f, Hk in zip(fr, Hs)]
    types = draw(types_st(N, K_))
    t0 = draw(st.integers(0, 10 ** 6))
    dt = draw(st.integers(1, 5000))
    out = {"d": d, "cell": cell, "pos": pos, "types": types, "ppp": ppp, "K": K_, "kind": kind,
           "timesteps": [t0 + k * dt for k in range(T)], "outside": bool(np.any(offs))}
    if cells:
        out["cells"] = cells
    return out


@st.composite
def writer_case_st(draw, kind, nmax=40, frames=(1, 4), sheared=None):
    if kind == "any":
        kind = draw(st.sampled_from(["nn", "cut", "type"]))
    K = None if kind == "type" else 1
    # cut-off kinds: aspect ratio <= 5, otherwise half the shortest edge leaves nearly every list empty
    lm = (1.0, 30.0) if kind == "nn" or draw(st.integers(0, 3)) == 0 else (3.0, 15.0)
    c = draw(conf_st(nmax=nmax, K=K, kmax=3, frames=frames, lmin=lm[0], lmax=lm[1], sheared=sheared))
    tol = _tol(c)
    N = len(c["types"])
    dmax = 0.0
    mats = []
    for p, ck in zip(c["pos"], frame_cells(c)):
        dlo, dhi, _ = neigh.distance_intervals(p, ck["H"], c["ppp"])
        off = ~np.eye(N, dtype=bool)
        assume(dlo[off].min() > 100 * tol)  # no coincident particles
        dmax = max(dmax, float(dhi.max()))
        mats.append((dlo, dhi))
    c["w"] = kind
    if kind == "nn":
        c["nnn"] = N - 1 if draw(st.integers(0, 7)) == 0 else draw(st.integers(1, N - 1))
        return c
    rmax = _rmax(c, dmax)
    gaps = neigh.gap_points(mats, rmax, tol)

    all_empty = bool(gaps) and gaps[0][0] == 0.0 and draw(st.integers(0, 11)) == 0  # below the smallest distance

    def one_cut():
        if all_empty:
            return gaps[0][0] + draw(st.sampled_from([0.25, 0.5, 0.75])) * (gaps[0][1] - gaps[0][0])
        if not gaps or draw(st.integers(0, 7)) == 0:
            return draw(fl(rmax * 1e-3, rmax))  # anywhere: ambiguity rule decides
        # two draws, keep the larger index: longer lists are the interesting ones
        a, b = gaps[max(draw(st.integers(0, len(gaps) - 1)), draw(st.integers(0, len(gaps) - 1)))]
        t = draw(st.sampled_from([0.25, 0.5, 0.75]))
        return a + t * (b - a)

    if kind == "cut":
        c["rc"] = one_cut()
    else:
        K_ = c["K"]
        M = np.array([[one_cut() for _ in range(K_)] for _ in range(K_)], dtype=float)
        if K_ > 1 and draw(st.integers(0, 4)) == 0:
            M = np.minimum(M, M.T)  # some symmetric matrices as well
        c["rcm"] = M
    return c


@st.composite
def large_nn_st(draw):
    """N 150..400 with N_nn mostly in [N/5, 4N/5]: a partition index that is one too small (kth = N_nn - 1) changes
    the result of numpy's introselect only for arrays of >= ~200 elements and a kth well inside the array (measured:
    0 of 20000 arrays below 100 elements, ~0.5 % of arrays in this region), so this is where the index is exercised.  Bulk coordinates come from numpy's generator seeded by Hypothesis
    (DESIGN 1.3 exception); the case stores the arrays, so replays are self-contained."""
    d = draw(st.sampled_from([2, 3]))
    cell = draw(cell_st(d, "any", lmin=5.0, lmax=20.0))
    N = draw(st.integers(150, 400))
    rng = np.random.default_rng(draw(st.integers(0, 2 ** 32 - 1)))
    f = rng.random((N, d))
    ppp = draw(ppp_st(d))
    c = {"d": d, "cell": cell, "pos": [cell["lo"] + f @ cell["H"]], "types": np.ones(N, dtype=int), "ppp": ppp, "K": 1,
         "kind": "gas", "timesteps": [0], "outside": False, "w": "nn"}
    dlo, _, _ = neigh.distance_intervals(c["pos"][0], cell["H"], ppp)
    assume(dlo[~np.eye(N, dtype=bool)].min() > 100 * _tol(c))
    mid = st.integers(N // 5, 4 * N // 5)
    c["nnn"] = draw(st.one_of(mid, mid, mid, st.integers(1, 60), st.sampled_from([N - 1, N - 2, 12])))
    return c


def check_writer(case):
    kind = case["w"]
    snaps = make_snapshots(case)
    N = len(case["types"])
    T = len(case["pos"])
    cells = frame_cells(case)
    types = np.asarray(case["types"], dtype=int)
    tol = _tol(case)
    call_writer(case, snaps)
    frames, lists = parse_written(FN, N, T, kind)
    n_amb = n_tie = 0
    cn_varies = False
    multi = False
    excluded = False
    for k in range(T):
        dlo, dhi, tie = neigh.distance_intervals(case["pos"][k], np.asarray(cells[k]["H"], dtype=float), case["ppp"])
        n_tie += int(tie.sum())
        L = lists[k]
        listed = np.zeros((N, N), dtype=bool)
        for i in range(N):
            listed[i, L[i]] = True
            pos = neigh.order_ok(dlo[i], dhi[i], L[i], tol)
            require(pos < 0, lambda: f"{kind}: frame {k} particle {i + 1}: list not in increasing distance order at "
                    f"position {pos}: ids {[j + 1 for j in L[i]]} distances {[float(dlo[i, j]) for j in L[i]]}")
        cns = listed.sum(axis=1)
        multi = multi or bool((cns >= 2).any())
        cn_varies = cn_varies or len(set(cns.tolist())) > 1
        excluded = excluded or bool((cns < N - 1).any())
        if kind == "nn":
            nnn = int(case["nnn"])
            require(np.all(cns == nnn), lambda: f"nn: frame {k}: coordination numbers {cns.tolist()} != N = {nnn}")
            for i in range(N):
                w = neigh.nearest_ok(dlo[i], dhi[i], i, L[i], tol)
                require(w is None, lambda: f"nn: frame {k} particle {i + 1}: listed id {w[0] + 1} at distance "
                        f"{dlo[i, w[0]]!r} while unlisted id {w[1] + 1} is closer ({dhi[i, w[1]]!r}); N = {nnn}")
                thr = np.sort(dlo[i][np.arange(N) != i])[nnn - 1]
                n_amb += int((np.abs(dlo[i] - thr) <= tol).sum()) - 1
        else:
            if kind == "cut":
                rc = float(case["rc"])
            else:
                M = np.asarray(case["rcm"], dtype=float)
                rc = M[types[:, None] - 1, types[None, :] - 1]  # row = centre type, column = neighbour type
            din, dout = neigh.cutoff_classes(dlo, dhi, rc, tol)
            miss = din & ~listed
            extra = dout & listed
            if miss.any():
                i, j = (int(x) for x in np.argwhere(miss)[0])
                raise Violation(f"{kind}: frame {k}: id {j + 1} missing from the list of id {i + 1}: distance "
                                f"{dhi[i, j]!r} <= cut-off {np.broadcast_to(rc, (N, N))[i, j]!r} "
                                f"(types {types[i]}->{types[j]})")
            if extra.any():
                i, j = (int(x) for x in np.argwhere(extra)[0])
                raise Violation(f"{kind}: frame {k}: id {j + 1} wrongly in the list of id {i + 1}: distance "
                                f"{dlo[i, j]!r} > cut-off {np.broadcast_to(rc, (N, N))[i, j]!r} "
                                f"(types {types[i]}->{types[j]})")
            amb = ~(din | dout)
            n_amb += int(amb.sum())
            if kind == "cut":
                asym = (listed ^ listed.T) & ~(amb | amb.T)
                if asym.any():
                    i, j = (int(x) for x in np.argwhere(asym)[0])
                    raise Violation(f"cut: frame {k}: relation not symmetric for ids {i + 1},{j + 1}")
    read_back(FN, frames, N, kind)

    ppp = np.asarray(case["ppp"])
    nontrivial = bool(multi and (kind == "nn" or cn_varies))
    tags = [f"d{case['d']}", case["cell"]["kind"], "mask-full" if ppp.all() else ("mask-open" if not ppp.any() else "mask-partial"),
            f"frames{T}", case["kind"].split("-")[0] + ("-jit" if case["kind"].endswith("jit") else ""),
            "N<=8" if N <= 8 else ("N<=20" if N <= 20 else ("N<=40" if N <= 40 else "N>=150")),
            "outside" if case["outside"] else "inside",
            "ambiguous" if n_amb else "no-ambiguous", "tie-pairs" if n_tie else "no-tie-pairs",
            "default-args" if uses_defaults(case) else "explicit-args",
            "sheared" if case.get("cells") else "fixed-cell", "w-" + kind]
    if kind == "nn":
        nnn = int(case["nnn"])
        tags.append("Nnn=N-1" if nnn == N - 1 else ("Nnn=1" if nnn == 1 else "Nnn-mid"))
    else:
        tags.append("cn-varies" if cn_varies else "cn-uniform")
        tags.append("some-cn0" if any(len(x) == 0 for L in lists for x in L) else "all-cn>0")
        if any(all(len(x) == 0 for x in L) for L in lists):
            tags.append("frame-all-empty")
        tags.append("some-excluded" if excluded else "all-pairs-listed")
        if kind == "type":
            M = np.asarray(case["rcm"])
            tags.append(f"K{case['K']}")
            if case["K"] > 1:
                tags.append("matrix-asym" if not np.array_equal(M, M.T) else "matrix-sym")
    return {"nontrivial": nontrivial, "tags": tags, "extra": {"ambiguous_items": n_amb, "tie_pairs": n_tie}}


def describe_writer(case):
    out = {"w": case["w"], "d": case["d"], "cell": case["cell"]["kind"], "H": np.round(case["cell"]["H"], 4).tolist(),
           "ppp": np.asarray(case["ppp"]).tolist(), "N": len(case["types"]), "frames": len(case["pos"]),
           "kind": case["kind"], "pos0": np.round(case["pos"][0][:3], 4).tolist()}
    if case.get("cells"):
        out["H_per_frame"] = [np.round(c["H"], 4).tolist() for c in case["cells"]]
    for k in ("nnn", "rc"):
        if k in case:
            out[k] = case[k]
    if "rcm" in case:
        out["rcm"] = np.round(case["rcm"], 5).tolist()
        out["types"] = np.asarray(case["types"]).tolist()[:12]
    return out


# ============================================================================= crisp constructions (exact)

_VEC = {d: neigh.integer_vectors_by_norm(d, 26, 26) for d in (2, 3)}


@st.composite
def crisp_st(draw):
    d = draw(st.sampled_from([2, 3]))
    Ls = [2 ** draw(st.integers(4, 6)) for _ in range(d)]
    ck = draw(st.sampled_from(["ortho", "ortho", "tri"]))
    H = np.diag(Ls).astype(np.int64)
    if ck == "tri":
        tl = st.sampled_from([0, -1, 1, -2, 2, 3, -3])  # multiples of L/8, |tilt| <= 3L/8
        H[1, 0] = draw(tl) * Ls[0] // 8
        if d == 3:
            H[2, 0] = draw(tl) * Ls[0] // 8
            H[2, 1] = draw(tl) * Ls[1] // 8
        if not np.any(H - np.diag(Ls)):
            H[1, 0] = Ls[0] // 4
    lo = np.array([draw(st.integers(-32, 32)) for _ in range(d)], dtype=np.int64)
    ppp = draw(ppp_st(d))
    per = ppp > 0
    Lmin = min([Ls[a] for a in range(d) if per[a]] or [64])
    rtop = Lmin // 2 - 1  # r < L/2 strictly
    table = _VEC[d]
    radii = [r for r in sorted(table) if r <= rtop]
    rich = [r for r in radii if any(sum(1 for x in v if x) >= 2 for v in table[r])]  # Pythagorean radii (3-4-5, ...)
    pick_r = st.sampled_from(rich + rich + radii) if rich else st.sampled_from(radii)
    kind = draw(st.sampled_from(["cut", "cut", "type", "nn"]))
    K = draw(st.integers(1, 3)) if kind == "type" else 1
    if kind == "type":
        M = np.array([[draw(pick_r) for _ in range(K)] for _ in range(K)], dtype=np.int64)
        used = sorted(set(M.ravel().tolist()))
    else:
        M = None
        used = [draw(pick_r)]
    pts = []

    def point():
        c = np.array([draw(st.integers(0, Ls[a] - 1)) for a in range(d)], dtype=np.int64)
        n = np.array([draw(st.integers(-1, 1)) for _ in range(d)], dtype=np.int64) * per
        return lo + c + n @ H

    for _ in range(draw(st.integers(1, 4))):
        base = point()
        pts.append(base)
        r0 = draw(st.sampled_from(used))
        for r in {r0, r0 + draw(st.sampled_from([0, 1, -1]))}:
            if r not in table:
                continue
            v = np.array(draw(st.sampled_from(table[r])), dtype=np.int64)
            v = v[list(draw(st.permutations(range(d))))] * np.array([draw(st.sampled_from([-1, 1])) for _ in range(d)])
            n = np.array([draw(st.integers(-1, 1)) for _ in range(d)], dtype=np.int64) * per
            pts.append(base + v + n @ H)
    for _ in range(draw(st.integers(0, 5))):
        pts.append(point())
    pts = np.array(pts, dtype=np.int64)
    d2lo, _ = neigh.exact_d2_intervals(pts, H, ppp)
    keep = []
    for i in range(len(pts)):
        if all(d2lo[i, j] != 0 for j in keep):
            keep.append(i)
    pts = pts[keep]
    N = len(pts)
    assume(N >= max(3, K))
    types = draw(types_st(N, K))
    case = {"d": d, "cell": {"d": d, "kind": ck, "H": H.astype(float), "lo": lo.astype(float), "origin": "int"},
            "pos": [pts.astype(float)], "types": types, "ppp": ppp, "K": K, "timesteps": [0], "w": kind,
            "Hint": H, "posint": pts}
    if kind == "nn":
        case["nnn"] = draw(st.integers(1, N - 1))
    elif kind == "cut":
        case["rc"] = float(used[0])
    else:
        case["rcm"] = M.astype(float)
    return case


def check_crisp(case):
    kind = case["w"]
    N = len(case["types"])
    types = np.asarray(case["types"], dtype=int)
    snaps = Snapshots(nsnapshots=1, snapshots=[snapshot_from(case["cell"], case["pos"][0], case["types"], 0)])
    call_writer(case, snaps)
    frames, lists = parse_written(FN, N, 1, "crisp-" + kind)
    L = lists[0]
    d2lo, d2hi = neigh.exact_d2_intervals(case["posint"], case["Hint"], case["ppp"])
    listed = np.zeros((N, N), dtype=bool)
    n_tie_order = 0
    for i in range(N):
        listed[i, L[i]] = True
        for a, b in zip(L[i][:-1], L[i][1:]):
            require(d2lo[i, a] <= d2hi[i, b], lambda: f"crisp-{kind}: particle {i + 1}: id {a + 1} (d^2 = {d2lo[i, a]}) "
                    f"listed before id {b + 1} (d^2 = {d2hi[i, b]})")
            n_tie_order += int(d2lo[i, a] == d2hi[i, b])
    off = ~np.eye(N, dtype=bool)
    boundary = outside1 = 0
    if kind == "nn":
        nnn = int(case["nnn"])
        require(all(len(x) == nnn for x in L), f"crisp-nn: coordination numbers {[len(x) for x in L]} != {nnn}")
        for i in range(N):
            un = [j for j in range(N) if j != i and not listed[i, j]]
            if un and L[i]:
                a = max(L[i], key=lambda j: d2lo[i, j])
                b = min(un, key=lambda j: d2hi[i, j])
                require(d2lo[i, a] <= d2hi[i, b], lambda: f"crisp-nn: particle {i + 1}: listed id {a + 1} (d^2 = "
                        f"{d2lo[i, a]}) while unlisted id {b + 1} is closer (d^2 = {d2hi[i, b]})")
                boundary += int(d2lo[i, a] == d2hi[i, b])
        nontrivial = bool(nnn >= 2 and (n_tie_order or boundary))
    else:
        if kind == "cut":
            rc = np.full((N, N), int(case["rc"]), dtype=object)
        else:
            Mi = np.asarray(case["rcm"]).astype(np.int64)
            rc = Mi[types[:, None] - 1, types[None, :] - 1].astype(object)
        rc2 = rc * rc
        amb_any = False
        for i in range(N):
            for j in range(N):
                if i == j:
                    continue
                if d2hi[i, j] <= rc2[i, j]:
                    require(listed[i, j], lambda: f"crisp-{kind}: id {j + 1} missing from the list of id {i + 1}: d^2 = "
                            f"{d2hi[i, j]} <= r_cut^2 = {rc2[i, j]} (cut-off is inclusive; types {types[i]}->{types[j]})")
                    boundary += int(d2lo[i, j] == rc2[i, j])
                elif d2lo[i, j] > rc2[i, j]:
                    require(not listed[i, j], lambda: f"crisp-{kind}: id {j + 1} wrongly in the list of id {i + 1}: d^2 = "
                            f"{d2lo[i, j]} > r_cut^2 = {rc2[i, j]} (types {types[i]}->{types[j]})")
                    outside1 += int(d2lo[i, j] <= (rc[i, j] + 1) ** 2)
                else:
                    amb_any = True
        if kind == "cut":
            for i in range(N):
                for j in range(i):
                    if d2lo[i, j] == d2hi[i, j] and d2lo[j, i] == d2hi[j, i]:
                        require(listed[i, j] == listed[j, i], f"crisp-cut: relation not symmetric for ids {i + 1},{j + 1}")
        nontrivial = bool(boundary)
    read_back(FN, frames, N, "crisp-" + kind)
    ppp = np.asarray(case["ppp"])
    tags = [f"d{case['d']}", case["cell"]["kind"], kind, "mask-full" if ppp.all() else ("mask-open" if not ppp.any() else "mask-partial"),
            "on-boundary" if boundary else "no-boundary-pair", "exact-order-tie" if n_tie_order else "no-order-tie"]
    if kind != "nn":
        tags.append("just-outside" if outside1 else "no-just-outside")
        r_used = sorted({int(x) for x in (np.asarray(case["rcm"]).ravel() if kind == "type" else [case["rc"]])})
        tags.append("rcut=5" if 5 in r_used else "rcut-other")
        if kind == "type":
            tags.append(f"K{case['K']}")
    return {"nontrivial": nontrivial, "tags": tags, "extra": {"boundary_pairs": boundary, "exact_order_ties": n_tie_order}}


def describe_crisp(case):
    out = {"w": case["w"], "d": case["d"], "H": case["Hint"].tolist(), "ppp": np.asarray(case["ppp"]).tolist(),
           "pos": case["posint"].tolist(), "types": np.asarray(case["types"]).tolist()}
    for k in ("nnn", "rc"):
        if k in case:
            out[k] = case[k]
    if "rcm" in case:
        out["rcm"] = np.asarray(case["rcm"]).tolist()
    return out


# ============================================================================= the reader as a state machine

N_HEADERS = ["id     cn     neighborlist", "id   cn   neighborlist", "id cn neighborlist"]
W_HEADERS = ["id   cn   edgelengthlist", "id   cn   facearealist", "id cn facearealist", "id cn edgelengthlist"]
W_FORMATS = ["%.6f", "%.17g", "%g", "%.3e", "%.2f"]


@st.composite
def syn_files_st(draw):
    """1 or 2 synthetic files written by the harness' own encoder.  'pair' = a neighbour file and a weight file with
    the same (id, cn) structure (the way static.boo reads them side by side)."""
    N = draw(st.one_of(st.integers(1, 9), st.integers(5, 9)))
    F = draw(st.integers(1, 4))
    mode = draw(st.sampled_from(["neigh", "weight", "pair", "pair"]))
    cmax = draw(st.sampled_from([0, 3, 5, 8, 8]))
    struct = []
    for _ in range(F):
        fr = {}
        for pid in range(1, N + 1):
            others = draw(st.lists(st.integers(1, max(1, N - 1)), unique=True, max_size=min(cmax, N - 1)))
            fr[pid] = [v if v < pid else v + 1 for v in others]  # never the particle itself
        struct.append(fr)
    files = []
    kinds = {"neigh": ["neigh"], "weight": ["weight"], "pair": ["neigh", "weight"]}[mode]
    for kind in kinds:
        hdr = draw(st.sampled_from(N_HEADERS if kind == "neigh" else W_HEADERS))
        style = {"lead": draw(st.sampled_from(["", " ", "   "])), "sep": draw(st.sampled_from([" ", "  ", "    "])),
                 "trail": draw(st.sampled_from(["", " "]))}
        fmt = draw(st.sampled_from(W_FORMATS))
        frames = []
        for fr in struct:
            order = list(draw(st.permutations(range(1, N + 1)))) if draw(st.integers(0, 3)) else list(range(1, N + 1))
            rows = {}
            for pid in range(1, N + 1):
                if kind == "neigh":
                    rows[pid] = [str(v) for v in fr[pid]]
                else:
                    w = draw(st.lists(st.one_of(st.integers(0, 10 ** 7).map(lambda k: k / 1e4), fl(0.0, 1e3)),
                                      min_size=len(fr[pid]), max_size=len(fr[pid])))
                    rows[pid] = [fmt % x for x in w]
            frames.append({"header": hdr, "order": order, "rows": rows})
        files.append({"kind": kind, "N": N, "frames": frames, "style": style})
    if mode == "pair" and draw(st.booleans()):
        files.reverse()  # weight file written, opened and indexed first
    return {"src": "syn", "mode": mode, "files": files}


@st.composite
def lib_file_st(draw):
    kind = draw(st.sampled_from(["nn", "cut", "type"]))
    return {"src": "lib", "conf": draw(writer_case_st(kind, nmax=9, frames=(1, 4)))}


class ReaderMachine(RecordingMachine):
    """Model: per open file a frame pointer and the rows of every frame.  read_next(Nmax) must return the model row
    table of the frame under the pointer and advance it by one."""

    def __init__(self):
        super().__init__()
        self.files = []
        self.flags = {"cn_varies": False, "truncated": False, "consecutive": False}

    # ---- set-up
    @initialize(case=st.one_of(syn_files_st(), lib_file_st()))
    def r_init(self, case):
        self.step("init", case=case)
        self.do_init(case=case)

    def do_init(self, case):
        self.files = []
        if case["src"] == "lib":
            conf = case["conf"]
            call_writer(conf, make_snapshots(conf))
            N = len(conf["types"])
            frames, _ = parse_written(FN, N, len(conf["pos"]), "machine-" + conf["w"])
            with open(FN, "r", encoding="utf-8") as f:
                text = f.read()
            model = [{pid: ent for pid, _, ent in fr["rows"]} for fr in frames]
            self.files.append({"name": FN, "N": N, "neighbor": True, "frames": model, "text": text})
            self.tag("lib-" + conf["w"])
        else:
            for k, fd in enumerate(case["files"]):
                text = neigh.encode_list_file(fd["frames"], fd["style"])
                name = f"syn{k}.dat"
                with open(name, "w", encoding="utf-8") as f:
                    f.write(text)
                self.files.append({"name": name, "N": fd["N"], "neighbor": fd["kind"] == "neigh",
                                   "frames": [fr["rows"] for fr in fd["frames"]], "text": text})
                shuffled = any(fr["order"] != sorted(fr["order"]) for fr in fd["frames"])
                self.tag(f"syn-{fd['kind']}" + ("-shuffled" if shuffled else "-ordered"))
                if any(len(e) == 0 for fr in fd["frames"] for e in fr["rows"].values()):
                    self.tag("cn0-rows")
            if case["mode"] == "pair":
                self.tag("two-files-neigh-opened-first" if self.files[0]["neighbor"] else "two-files-weight-opened-first")
        for fo in self.files:
            fo["offs"] = neigh.frame_offsets(fo["text"], fo["N"])
            fo["F"] = len(fo["frames"])
            fo["ptr"] = 0
            fo["run"] = 0
            fo["rest_done"] = False
            fo["h"] = open(fo["name"], "r", encoding="utf-8")
        self.last = None

    def teardown(self):
        if not any(name in ("read", "alternate") for name, _ in self.log):
            self._failed = True  # run cut short by Hypothesis before any read: not an evaluated history
        for fo in self.files:
            try:
                fo["h"].close()
            except Exception:  # noqa: BLE001
                pass
        super().teardown()

    # ---- rules
    def _readable(self):
        return [fo for fo in self.files if fo["ptr"] < fo["F"]]

    def _reopenable(self):
        return [fo for fo in self.files if fo["ptr"] >= 2 or fo["ptr"] == fo["F"]]

    def _restable(self):
        return [fo for fo in self.files if fo["ptr"] >= 1 and not fo["rest_done"]]

    @precondition(lambda self: bool(self._readable()))
    @rule(which=st.integers(0, 1), u=st.integers(0, 10 ** 6), kw=st.booleans())
    def r_read(self, which, u, kw):
        self.step("read", which=which, u=u, kw=kw)
        self.do_read(which=which, u=u, kw=kw)

    @precondition(lambda self: bool(self._readable()))
    @rule(which=st.integers(0, 1), u=st.integers(0, 10 ** 6))
    def r_read_small(self, which, u):
        """Same operation, Nmax biased below the largest coordination number (truncation branch)."""
        cands = self._readable()
        fo = cands[which % len(cands)]
        maxcn = max(len(e) for e in fo["frames"][fo["ptr"]].values())
        v = 8 * (u % max(1, maxcn - 1))  # -> Nmax in 1..maxcn-1 (1 when maxcn <= 2)
        self.step("read", which=which, u=v, kw=False)
        self.do_read(which=which, u=v, kw=False)

    def do_read(self, which, u, kw):
        cands = self._readable()
        return self._read_file(cands[which % len(cands)], u, kw)

    def _pairable(self):
        return (len(self.files) == 2 and self.files[0]["ptr"] == self.files[1]["ptr"] < self.files[0]["F"])

    @precondition(lambda self: self._pairable())
    @rule(first=st.integers(0, 1), u=st.integers(0, 10 ** 6))
    def r_alternate(self, first, u):
        self.step("alternate", first=first, u=u)
        self.do_alternate(first=first, u=u)

    def do_alternate(self, first, u):
        """The way static.boo consumes a neighbour file and a weight file of the same shape: the same frame of both,
        one after the other (either first), with the same Nmax; the two tables must have the same shape and cn column."""
        a, b = self.files[first], self.files[1 - first]
        ga = self._read_file(a, u, False)
        gb = self._read_file(b, u, False)
        require(np.shape(ga) == np.shape(gb), f"alternate read: shapes {np.shape(ga)} and {np.shape(gb)} differ for the "
                f"same (id, cn) structure and the same Nmax")
        require(np.array_equal(np.asarray(ga)[:, 0], np.asarray(gb)[:, 0]), "alternate read: cn columns differ")
        self.tag("alternate-" + ("neigh" if a["neighbor"] else "weight") + "-first")

    def _read_file(self, fo, u, kw):
        rows = fo["frames"][fo["ptr"]]
        cns = [len(e) for e in rows.values()]
        maxcn = max(cns)
        default = (u % 8 == 7)
        nmax = 200 if default else 1 + (u // 8) % (maxcn + 3)
        if default:
            got = read_neighbors(fo["h"], fo["N"])
        elif kw:
            got = read_neighbors(f=fo["h"], nparticle=fo["N"], Nmax=nmax)
        else:
            got = read_neighbors(fo["h"], fo["N"], nmax)
        tag = f"read #{len(self.log)} of {fo['name']} frame {fo['ptr']} Nmax={nmax}"
        compare_read(tag, got, rows, fo["N"], nmax, fo["neighbor"])
        fo["ptr"] += 1
        fo["run"] += 1
        if self.last is not None and self.last is not fo:
            self.tag("interleaved")
        self.last = fo
        self.flags["cn_varies"] |= len(set(cns)) > 1
        self.flags["truncated"] |= nmax < maxcn
        self.flags["consecutive"] |= fo["run"] >= 2
        self.tag("truncated" if nmax < maxcn else ("Nmax=maxcn" if nmax == maxcn else ("default-Nmax" if default else "Nmax>maxcn")))
        self.tag("weight-read" if not fo["neighbor"] else "neighbor-read")
        if fo["ptr"] >= 2:
            self.tag("frame>=2-read")
        if maxcn == 0:
            self.tag("all-empty-frame-read")
        self.info["nontrivial"] = all(self.flags.values())
        return got

    @precondition(lambda self: bool(self._reopenable()))
    @rule(which=st.integers(0, 1))
    def r_reopen(self, which):
        self.step("reopen", which=which)
        self.do_reopen(which=which)

    def do_reopen(self, which):
        cands = self._reopenable()
        fo = cands[which % len(cands)]
        fo["h"].close()
        fo["h"] = open(fo["name"], "r", encoding="utf-8")
        fo["ptr"] = 0
        fo["run"] = 0
        fo["rest_done"] = False
        self.tag("reopen")

    @precondition(lambda self: bool(self._restable()))
    @rule(which=st.integers(0, 1))
    def r_rest(self, which):
        self.step("rest", which=which)
        self.do_rest(which=which)

    def do_rest(self, which):
        """The caller reads the remaining text itself: it must be exactly the frames not yet delivered."""
        cands = self._restable()
        fo = cands[which % len(cands)]
        rest = fo["h"].read()
        want = fo["text"][fo["offs"][fo["ptr"]]:]
        require(rest == want, lambda: f"after {fo['ptr']} reads of {fo['name']} the file position is not at the start of "
                f"frame {fo['ptr']}: {len(rest)} characters left, expected {len(want)}")
        self.tag("rest-checked-at-end" if fo["ptr"] == fo["F"] else "rest-checked-midfile")
        fo["ptr"] = fo["F"]
        fo["run"] = 0
        fo["rest_done"] = True

    # ---- invariants
    def check_invariants_now(self):
        for fo in self.files:
            require(0 <= fo["ptr"] <= fo["F"], "harness: frame pointer out of range")
            require(not fo["h"].closed, f"{fo['name']}: the reader closed the caller's file handle")

    @invariant()
    def inv(self):
        self.check_invariants_now()


def describe_machine(log):
    out = []
    for name, kw in log:
        if name == "init":
            c = kw["case"]
            if c["src"] == "lib":
                out.append(("init", "lib", describe_writer(c["conf"])))
            else:
                out.append(("init", c["mode"], [neigh.encode_list_file(f["frames"], f["style"])[:300] for f in c["files"]]))
        else:
            out.append((name, kw))
    return out


# ============================================================================= facets

FACETS = [
    Facet("nnearest", writer_case_st("nn"), check_writer, quick=600, thorough=60000, describe=describe_writer, shards_quick=4,
          rule="Nnearests, N_nn 1..N-1 (N-1 over-weighted); non-trivial = N_nn >= 2"),
    Facet("nnearest_large", large_nn_st(), check_writer, quick=40, thorough=4000, describe=describe_writer, shards_quick=2,
          rule="Nnearests on seeded random gases of 150..400 particles, N_nn mostly in [N/5, 4N/5] (partition index "
               "beyond numpy's small-array path); non-trivial = N_nn >= 2"),
    Facet("cutoff", writer_case_st("cut"), check_writer, quick=600, thorough=60000, describe=describe_writer, shards_quick=4,
          rule="cutoffneighbors, r_cut mid-gap of the reference distances (1/8 anywhere); non-trivial = some cn >= 2 and cn "
               "differ within a frame"),
    Facet("cutoff_type", writer_case_st("type"), check_writer, quick=600, thorough=60000, describe=describe_writer,
          shards_quick=4, rule="cutoffneighbors_particletype, K 1..3, independent matrix entries; non-trivial as cutoff"),
    Facet("sheared", writer_case_st("any", nmax=24, frames=(2, 4), sheared=True), check_writer, quick=300, thorough=30000,
          describe=describe_writer, shards_quick=2,
          rule="all three writers on multi-frame triclinic trajectories whose tilt factors differ per frame (same edge "
               "lengths): every frame is compared with the reference for ITS cell matrix; non-trivial as the writer's facet"),
    Facet("crisp", crisp_st(), check_crisp, quick=600, thorough=40000, describe=describe_crisp, shards_quick=2,
          rule="integer coordinates, power-of-two cells (dyadic tilts), integer cut-offs with planted pairs at distance "
               "r, r+1, r-1; exact oracle; non-trivial = a pair exactly on the boundary / an exact tie (N-nearest)"),
    Facet("reader_machine", machine=ReaderMachine, quick=400, thorough=20000, steps=10, describe=describe_machine,
          shards_quick=2, rule="histories of read(Nmax)/reopen/read-rest over 1-2 open files; non-trivial = cn differ "
                               "within a read frame, some read truncated, >= 2 consecutive frames from one handle"),
]
