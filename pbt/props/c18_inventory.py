"""C18 helper: completeness of the catalogue, measured.

`inventory()` enumerates by introspection (pkgutil.walk_packages + inspect) every public callable of PyMatterSim:
module-level functions, public classes (calling the class = its constructor) and public methods of public classes that
are DEFINED in a PyMatterSim.* module (names starting with `_` are skipped, `utils.logging` is skipped, Enum classes are
value sets and not callables).  `CallTracer` (sys.setprofile) records, while catalogue entries run, which inventoried
callables are entered, whether the call came straight from the harness ("direct": the caller's frame is not library
code, i.e. OUR arrays are the arguments) or from inside the library ("indirect"), and -- for direct calls -- the value
every FLAG parameter was called with.

A flag parameter of a callable is: a keyword whose default is a bool; a keyword annotated with an Enum class or
typing.Literal; a keyword for which the documentation lists a closed set of values (DOCUMENTED_CHOICES).  The sweep in
c18.py (facet `flag_coverage`) runs every (entry, parameter set, output on/off) of the catalogue once and then demands
that every flag of every directly exercised callable took all its values, unless the (callable, flag, value) is listed
in FLAG_EXEMPT with a reason.  A flag that no entry varies is a HARNESS error (the catalogue is incomplete), not a
violation of the library.

`default_objects()` / `check_defaults()` (round 3): the MUTABLE default values in the signatures of the inventoried
callables (numpy arrays, dicts, lists) are arguments too -- of every call that omits the keyword -- and are watched like the
arrays the harness passes explicitly.
"""
from __future__ import annotations

import enum
import importlib
import inspect
import os
import pkgutil
import sys
import typing

from ..harness import REPO

CUT_PREFIX = os.path.join(REPO, "PyMatterSim") + os.sep
SKIP_MODULES = {"PyMatterSim.utils.logging": "logging set-up, no analysis"}

# callables that cannot run offline / are deliberately left to other checks: qualified name -> reason
NOT_RUNNABLE = {
    "PyMatterSim.neighbors.voropp_neighbors.cal_voro": "shells out to the external voro++ executable (not installed)",
    "PyMatterSim.neighbors.voropp_neighbors.voronowalls": "shells out to the external voro++ executable (not installed)",
    "PyMatterSim.reader.gsd_reader_helper.read_gsd_wrapper": "needs the gsd package (not installed)",
    "PyMatterSim.reader.gsd_reader_helper.read_gsd_dcd_wrapper": "needs the gsd and mdtraj packages (not installed)",
    "PyMatterSim.reader.gsd_reader_helper.read_gsd": "takes an open gsd trajectory object (gsd not installed); C19 drives it "
                                                      "with duck-typed frames",
    "PyMatterSim.reader.gsd_reader_helper.read_gsd_dcd": "takes gsd + mdtraj trajectory objects (not installed); C19 drives "
                                                          "it with duck-typed frames",
}

# closed value sets stated in the docstrings / docs (not expressible as bool defaults): (qualified name, parameter) -> values
_ONLYPOS = [False, True, "x", "y", "z"]
DOCUMENTED_CHOICES = {
    ("PyMatterSim.dynamic.dynamics.Dynamics", "cal_type"): ["slow", "fast"],
    ("PyMatterSim.dynamic.dynamics.LogDynamics", "cal_type"): ["slow", "fast"],
    ("PyMatterSim.static.gr.conditional_gr", "conditiontype"): [None, "vector", "tensor"],
    ("PyMatterSim.static.sq.sq", "onlypositive"): _ONLYPOS,
    ("PyMatterSim.utils.wavevector.choosewavevector", "onlypositive"): _ONLYPOS,
    ("PyMatterSim.utils.fitting.fits", "style"): ["linear", "log"],
    ("PyMatterSim.neighbors.voropp_neighbors.voronowalls", "ppp"): ["-px", "-py", "-pz"],
}

# (qualified name, parameter, repr(value)) -> why no entry passes it
FLAG_EXEMPT = {
    ("PyMatterSim.reader.dump_reader.DumpReader", "filetype", "<DumpFileType.GSD: 3>"): "needs the gsd package (not installed)",
    ("PyMatterSim.reader.dump_reader.DumpReader", "filetype", "<DumpFileType.GSD_DCD: 4>"): "needs gsd + mdtraj (not installed)",
    ("PyMatterSim.neighbors.freud_neighbors.VolumeMatrix", "transform_matrix", "True"):
        "A A^T is singular by volume conservation, so inv() either raises LinAlgError or returns rounding noise: the "
        "transformed matrix has no contract (cf. C20) and a refusal there is not a purity defect",
}


def _public(name):
    return not name.startswith("_")


def inventory():
    """{qualified name: {"obj", "code", "kind", "module"}} plus {"module": reason} for modules that cannot be imported."""
    import PyMatterSim

    found, broken = {}, {}
    for m in pkgutil.walk_packages(PyMatterSim.__path__, "PyMatterSim."):
        if m.ispkg or m.name in SKIP_MODULES:
            continue
        try:
            mod = importlib.import_module(m.name)
        except Exception as e:  # noqa: BLE001 - reported, the entries of that module fail on their own
            broken[m.name] = f"{type(e).__name__}: {e}"
            continue
        for n, o in vars(mod).items():
            if not _public(n) or getattr(o, "__module__", None) != m.name:
                continue
            if inspect.isfunction(o):
                found[f"{m.name}.{n}"] = {"obj": o, "code": o.__code__, "kind": "function", "module": m.name}
            elif inspect.isclass(o):
                if issubclass(o, enum.Enum):
                    continue
                init = vars(o).get("__init__")
                found[f"{m.name}.{n}"] = {"obj": o, "code": getattr(init, "__code__", None), "kind": "class", "module": m.name}
                for k, v in vars(o).items():
                    if not _public(k):
                        continue
                    if isinstance(v, (staticmethod, classmethod)):
                        v = v.__func__
                    if inspect.isfunction(v):
                        found[f"{m.name}.{n}.{k}"] = {"obj": v, "code": v.__code__, "kind": "method", "module": m.name}
    return found, broken


def flag_params(qual, obj):
    """{parameter: [values]} for the flag parameters of one inventoried callable."""
    try:
        sig = inspect.signature(obj)
    except (TypeError, ValueError):
        return {}
    try:
        hints = typing.get_type_hints(obj.__init__ if inspect.isclass(obj) else obj)
    except Exception:  # noqa: BLE001
        hints = {}
    out = {}
    for name, prm in sig.parameters.items():
        if name == "self":
            continue
        vals = None
        ann = hints.get(name, prm.annotation)
        if isinstance(prm.default, bool):
            vals = [False, True]
        if typing.get_origin(ann) is typing.Literal:
            vals = list(typing.get_args(ann))
        elif inspect.isclass(ann) and issubclass(ann, enum.Enum):
            vals = list(ann)
        if (qual, name) in DOCUMENTED_CHOICES:
            vals = list(DOCUMENTED_CHOICES[(qual, name)])
        if vals:
            out[name] = vals
    return out


class CallTracer:
    """with CallTracer(inv) as t: ... ; afterwards t.direct / t.indirect (qualified names), t.flagvals[(qual, param)] =
    {repr(value)} over the direct calls, t.by_entry[label] = callables entered directly while `label` was current."""

    def __init__(self, inv):
        self.by_code = {rec["code"]: q for q, rec in inv.items() if rec["code"] is not None}
        self.flags = {q: flag_params(q, rec["obj"]) for q, rec in inv.items()}
        self.direct, self.indirect = set(), set()
        self.flagvals = {}
        self.by_entry = {}
        self.current = None
        self._prev = None

    def _prof(self, frame, event, arg):
        if event != "call":
            return
        q = self.by_code.get(frame.f_code)
        if q is None:
            return
        caller = frame.f_back
        if caller is not None and caller.f_code.co_filename.startswith(CUT_PREFIX):
            self.indirect.add(q)
            return
        self.direct.add(q)
        if self.current is not None:
            self.by_entry.setdefault(self.current, set()).add(q)
        fl = self.flags.get(q)
        if fl:
            loc = frame.f_locals
            for p in fl:
                if p in loc:
                    self.flagvals.setdefault((q, p), set()).add(repr(loc[p]))

    def __enter__(self):
        self._prev = sys.getprofile()
        sys.setprofile(self._prof)
        return self

    def __exit__(self, *a):
        sys.setprofile(self._prev)
        return False


# ============================================================================= mutable default arguments

_DEFAULTS = None


def _freeze_default(v):
    import numpy as np
    if isinstance(v, np.ndarray):
        return ("ndarray", v.dtype.str, tuple(v.shape), v.tobytes())
    if isinstance(v, dict):
        return ("dict", repr(list(v.items())))
    return (type(v).__name__, repr(v))


def default_objects():
    """[(qualified name, parameter, the default object, frozen state)] for every MUTABLE default value (numpy array, dict,
    list, set, bytearray) in the signature of an inventoried public callable -- `ppp=np.array([1, 1, 1])`,
    `diameters={1: 1.0, 2: 1.0}`, `radii={1: 0.5, 2: 0.5}`.  Such an object is created once at import and is the ARGUMENT of
    every call that omits the keyword: writing to it changes what every later call with the default computes.  Frozen at
    the first use in a process, i.e. before the first catalogue call."""
    global _DEFAULTS
    if _DEFAULTS is None:
        import numpy as np
        inv, _ = inventory()
        out, seen = [], set()
        for q, rec in sorted(inv.items()):
            try:
                sig = inspect.signature(rec["obj"])
            except (TypeError, ValueError):
                continue
            for name, prm in sig.parameters.items():
                v = prm.default
                if isinstance(v, (np.ndarray, dict, list, set, bytearray)) and (q, name) not in seen:
                    seen.add((q, name))
                    out.append((q, name, v, _freeze_default(v)))
        _DEFAULTS = out
    return _DEFAULTS


def check_defaults(after):
    """Invariant (1) for the arguments a caller passes by OMITTING them."""
    from ..harness import Violation
    for q, name, v, frozen in default_objects():
        now = _freeze_default(v)
        if now != frozen:
            raise Violation(f"after {after}: the mutable default value of parameter {name!r} of {q.replace('PyMatterSim.', '')} -- the "
                            f"argument of every call that omits it -- was modified in place: {frozen[-1]!r:.80} -> {now[-1]!r:.80}"
                            if frozen[0] != "ndarray" else
                            f"after {after}: the default array of parameter {name!r} of {q.replace('PyMatterSim.', '')} -- the argument "
                            f"of every call that omits it -- was modified in place (now {v!r:.80})")


def flag_report(inv, tracer):
    """[(qual, param, wanted reprs, seen reprs, missing reprs not exempt, exempt {repr: reason})] for every flag of every
    DIRECTLY exercised callable."""
    rows = []
    for q in sorted(tracer.direct):
        for p, vals in tracer.flags.get(q, {}).items():
            want = [repr(v) for v in vals]
            seen = tracer.flagvals.get((q, p), set())
            exempt = {r: FLAG_EXEMPT[(q, p, r)] for r in want if (q, p, r) in FLAG_EXEMPT}
            missing = [r for r in want if r not in seen and r not in exempt]
            rows.append((q, p, want, sorted(seen), missing, exempt))
    return rows
