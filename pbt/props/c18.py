"""C18 -- analyses are pure: inputs are never modified, repeated calls agree regardless of what ran in between, output
files hold the returned values to the written precision.

CLAUSES (statement / quantifier split into axes; facet and assertion that decides each; class tags in evidence/C18.json,
coverage.facets.*.classes, that show the axis is populated; "r3" = added in extension round 3)
  clause / axis                         | decided by                                             | populated classes (tags)
  --------------------------------------+--------------------------------------------------------+----------------------------------------
  S1 every array of the snapshots       | (1) World.check_pure after EVERY call: dtype, shape,   | origin-{zero,centred,sumzero,arbitrary},
     bit-for-bit unchanged              | bytes of positions / particle_type / boxlength /       | cell-{ortho,tri}, d2 / d3, T1..T5 (r3),
                                        | boxbounds / realbounds / hmatrix of x, xu and the      | N8-11 / 12-16 / 17-40 / 64-99 / 100+ (r3),
                                        | orientation snapshots, and of the frame list itself    | world-{noncontig,int32-types,perm-types,
                                        | (order, length, time steps: world-back-times, r3)      | back-times,...}
  S2 every array ARGUMENT unchanged     | (1) the same for every field / mask / matrix / vector  | <entry name> tags (every entry), world-
                                        | argument (World.A), input files, dict and list         | mixed-ppp (r3), dict-and-list-arguments-
                                        | arguments INCLUDING their order (r3); (9, r3) the      | {ascending,not-sorted} (r3), call-omits-
                                        | MUTABLE DEFAULT values of every public signature (ppp  | arguments-that-have-mutable-defaults (r3),
                                        | arrays, diameters / radii dicts, fits(p0=[])) -- the   | sweep:Dynamics.sq4 with the integer
                                        | arguments of a call that omits them  [check_defaults]  | condition (r3)
  S3 calling again with the same inputs | (2) History.call: equals the detached first result     | repeat, repeat-interleaved, object-reuse-
     returns identical results          | bit-for-bit (NaN == NaN positionally); same VALUES in  | allowed, deep-copy-differential, rebuild-
                                        | other objects (4) deep copy, (5) rebuild; other values | fresh-objects, mutate-and-restore,
                                        | in the SAME objects (6) mutate-and-restore             | result-holds-nan-or-inf (r3 tag)
  S4 ... regardless of what was         | machine / chains / sweeps: other entries, other        | focus-3-families / focus-all, live-objects-
     computed in between                | parameters, other methods of the same live object in   | k, caller-overwrote-returned-arrays (r3),
                                        | between; (7) returned values are not rewritten later;  | returned-arrays-watched, cwd-holds-files-
                                        | (8, r3) the CALLER overwrites what was returned, new   | of-earlier-calls (r3)
                                        | objects must reproduce the first results; (11, r3) the | known-printoptions-left-by-Nnearests
                                        | PROCESS-GLOBAL state (numpy error handling and print   | (the one known leak, excluded exactly)
                                        | options, warnings filters, cwd, environ, logging, the  |
                                        | global RNGs, pandas options, open descriptors, ...) is |
                                        | what it was just before the call; nothing is reset     |
                                        | between calls, so a leak also hits the later calls     |
  S5 output file holds the returned     | (3) inside each entry: every token within half a unit  | with-output-file, result-holds-nan-or-inf-
     values to the written precision    | of its last digit, NaN / inf tokens, .npy exact, header | and-file-requested, output-file-name-in-a-
                                        | = columns, row / column counts; a file of that name    | subdirectory (r3), cwd-holds-files-of-
                                        | left by an earlier call is overwritten, not appended   | earlier-calls (r3)
                                        | to / reused (r3: one working directory per session)    |
  Q1 all public analysis entry points   | catalogue (c18_entries) + inventory by introspection   | inventory: exercised / only reached
                                        | with measured coverage, flag_coverage raises a HARNESS | through ... / NOT exercised (with reason),
                                        | error for a flag value never passed                    | flag ...: k/k values exercised
  Q2 valid inputs                       | worlds: ordinary / unusual-but-accepted / degenerate   | world-ordinary / world-off-domain / world-
                                        | (see Worlds); r3: one frame, 4-8 frames, N up to 150,  | degenerate and world-<variant> for each of
                                        | partially periodic boxes, repeated / decreasing time   | the 15 variants, K1..K6
                                        | steps, isolated particle (cn = 0), integer conditions  |
  Q3 arbitrary interleavings on shared  | machine (<= 10 steps quick; machine_deep <= 30 steps   | repeat-interleaved, rebuild-fresh-objects,
     snapshot objects                   | thorough, r3), steps: call / repeat / vary / rebuild / | mutate-and-restore, caller-overwrote-
                                        | mutate-and-restore / caller-overwrites (r3)            | returned-arrays
Weak before round 3 and closed now: S2 covered arrays the harness passes explicitly only (default-argument objects were never
the argument: every entry passed ppp / diameters / radii), dict comparison ignored order and all list / dict arguments were
sorted; S4 never let the caller touch a returned value and ran every call in its own empty directory; S5 never met a
pre-existing file or a name with a directory; Q1 lacked write_dump_header(addson=None), NematicOrder without positions,
boo_2d(output_phi=...); Q2 had T in {2, 3} and N <= 16 only and fully periodic boxes only.

History facet `machine`: a Hypothesis rule-based state machine over ONE shared world per history (c18_world.World:
wrapped + unwrapped Snapshots of the same trajectory, an orientation Snapshots in 2D, shared per-particle fields,
parameter matrices, synthetic neighbour / weight / Voronoi-index / dump / log files).  Rules = "call public entry point
X with drawn parameters" (catalogue in c18_entries.py, 70+ entries in 14 families; which of the public callables of
PyMatterSim they exercise is measured, see `flag_coverage`).  After EVERY step:
  (1) every array reachable from the snapshots and every argument array has the dtype, shape and bytes of its pristine
      copy; input files and dict / list arguments (with their order) are unchanged          [World.check_pure]
  (2) if (X, params, out) was called before in this history the result equals the one returned then (a detached copy
      taken at return time) bit-for-bit                                                     [History.call]
  (3) a requested output file parses back to the returned values at the written precision   [inside each entry]
  (4) (sometimes, `dup`) the same call on a bit-identical deep copy of the inputs (a second world rebuilt from the same
      arguments: different object identities, same values) gives the identical result -- "same inputs => same results"
      with respect to the values of the inputs, which exposes caches keyed by object identity.
  (5) step kind `rebuild`: every shared array (and the Snapshots / SingleSnapshot objects) is replaced by a value-equal,
      freshly allocated one; repeated (X, params) calls made afterwards must still reproduce the stored results
      bit-for-bit (same VALUES in a different object).
  (6) step kind `mutate-and-restore` (rules r_mut_<family>): call X on contents A; overwrite the SAME array objects and
      input files in place with the contents B of a second world of identical structure (no library call in between);
      call X again -> must equal X on a freshly built B; write A back in place; call X -> must equal the first result
      (different values in the SAME object: memos keyed on object identity / shape / file name).
  (7) every array / DataFrame that a call RETURNED to the caller (plus the result attributes the entry reads off the
      analysis object: s2_results, QIJ, smallqlm, ParticlePhi) still has, at every later step, the bytes it had when the
      call returned -- "the file holds the values that were returned" and "calling it again returns identical results"
      presuppose that returned values are not rewritten behind the caller's back (a later method normalising the
      object's cached array in place, a recycled buffer).  Sound because it is only demanded while the harness has not
      rebuilt / overwritten the inputs (a result may alias an input: voropp.get_input returns the box-bound arrays), and
      no routine documents its return value as a live view.                                 [History.check_watch]
  (8) step kind `scribble` (r3): the caller overwrites IN PLACE every array / DataFrame returned so far (they are the
      caller's) and throws the analysis objects away; the last call and one other earlier call are then made again
      through NEW objects and must return what they returned first: a routine that hands out its memo, a module-level
      table or an lru_cache'd array instead of a value of its own is exposed.  Inputs that a returned array aliases are
      written back in place first (tag returned-array-aliased-an-input).                    [History.scribble]
  (9) (r3) the mutable default values in the signatures of all public callables (found by introspection: 22 ppp arrays /
      diameters / radii dicts / fits(p0=[])) have the state they had before the first call; entries with "dflt" in their
      parameter set OMIT those keywords where the default describes the world.             [c18_inventory.check_defaults]
 (10) (r3) a call returns in the working directory it was made in.                          [part of (11)]
 (11) (r3, after the miss of seeded C18-E) PROCESS-GLOBAL STATE: a snapshot taken just before every single call of the code
      under test -- np.geterr(), np.geterrcall(), np.get_printoptions(), warnings.filters, os.getcwd(), os.environ, the
      logging root (level, handlers, disable level), np.random.get_state(), random.getstate(), pandas display / compute
      options, decimal context, locale, number of open file descriptors, sys.path, recursion limit -- is compared with the
      state right after the call (also when the call raised).  The harness sets the state every call starts from ONCE
      per process (np.seterr(all="ignore"), warnings ignored) and resets nothing between calls: what a call leaves
      behind is what the next call meets, so a later call of an underflow- / 0-division-sensitive routine (S2 with narrow
      smearing, gaussian_blurring with sigma 0.02, conditions selecting nobody) that raises where the same call returned
      a value before is ALSO reported, by (2).  Only after a leak has been reported is the state put back (so that the
      shrinking is not judged in the leaked state).  Known on the unchanged tree and excluded exactly (tag known-
      printoptions-left-by-Nnearests; VERIF_STRICT=1 removes the exclusion): Nnearests leaves
      np.set_printoptions(threshold=inf, linewidth=inf) behind.                              [check_process_state]
Analysis objects (gr / sq / boo_3d / boo_2d / Dynamics / LogDynamics / S2 / NematicOrder / HessianMatrix / DumpReader)
are, when `reuse` is drawn (2 in 3 calls), kept alive and shared between the calls of the history, as in an interactive
session: method chains on one live object in any order with other methods in between.  The expected result never
depends on it (c18_entries: `make` puts a new object into the state the chain starts from).  Those calls also share ONE
working directory per world (r3): the output files of earlier calls -- same names, other parameters -- are still there
when the next call writes (append mode / "skip, the file exists" conveniences); all other calls get an empty directory.
Odd parameter sets request their text / csv files under 'res.v1/<stem>.run2.<ext>' instead of '<stem>.<ext>' (r3).

Worlds: 55 % ordinary (valid-input domain of c18_world), 20 % unusual-but-accepted (`variant`: species labels {1,3} /
{2,3} / {2} / {1,2,4} / 0-based, per-frame permuted labels, int32 labels, non-contiguous position views, logarithmic
time steps, r3: partially periodic boxes, a repeated time step, a time step that goes back, sheared trajectories with a
cell matrix per frame), 25 % degenerate (pinned
particles, revisited frames, zero fields + an isolated particle: results hold NaN / inf).  T = 1..5 frames (r3; 2-3 before),
N = 8..28 (r3; 8..16 before).  Purity is promised for ANY call: in an off-domain / degenerate world an exception raised
inside PyMatterSim is a refusal, not a violation (tag `rejected-input`; it must then refuse again when the call is
repeated), but (1) is checked after the refusal as well and calls that return are subject to (1)-(10) like anywhere else.
In ordinary worlds an exception is a violation, as before.

Facet `chains`: one family of methods that share an analysis object (s2, nematic, boo, pair, dyn, hess): 4-7 drawn
(method, params, out) calls on ONE set of live objects, then two of the earlier calls again; (1), (2), (3), (7); in half
the cases then (8) and the first two calls once more through new objects.

Facet `flag_coverage` (finite, deterministic; c18_inventory.py): every (entry, params, output on/off) once (and, in the
worlds marked so, every (entry, params) again in the opposite order: a repeat with the whole catalogue in between),
through one set of live objects and one working directory per fixed world (two ordinary worlds in full, small ones for
the label / dtype / layout / time-step / periodicity variants, the 1-, 4-, 5-species methods, one- and five-frame
trajectories) with (1), (3), (7), (9), (10); while it runs a profiler hook records (first run of every (entry, params,
out, d, K)) which public callables of PyMatterSim (inventory by pkgutil + inspect) are entered straight from the harness
and with which values of their flag keywords (bool default / Enum / Literal / documented choice).  Reported in the
evidence: callables found / exercised directly / only indirectly / not exercised with the reason; per flag the values
exercised.  A flag of a directly exercised routine that no entry varies over all its values (and is not exempt with a
written reason) is a HARNESS error (exit 2), not a violation.
Facets `sweep_nonfinite` / `sweep_sizes` (r3 split; separate processes): the same deterministic sweep in the degenerate
worlds (every call with and without output file and once more as a repeat: NaN / inf in repeat-equality and in the file
round trips), and on two larger systems (N = 100, 101: either side of a block size of 100) and two long trajectories
(8 and 7 frames).

Facets `single_<family>`: for one catalogue entry drawn at random: call - check purity - another call of the family -
call again - compare - both on a deep copy in the opposite order - compare - (the caller overwrites the returned arrays,
both calls again, r3) - (re-allocate all inputs, call, compare) - mutate-and-restore as in (6); (7) across the calls on the
shared world.  Cheap, high volume, and a defect of one entry point is reported per family, separately from the history
facet.  Facet `sizes` (r3): the same stages without mutate-and-restore for one entry of any family on N = 64 ... 128.
Facet `machine_deep` (r3, thorough tier only): the state machine with up to 30 steps, 1-8 frames, N up to 40 (64-150).
"""
from __future__ import annotations

import os
import shutil
import tempfile
import warnings

import numpy as np
from hypothesis import strategies as st
from hypothesis.stateful import initialize, invariant, precondition, rule

from ..harness import STRICT, Facet, RecordingMachine, Violation, exception_from_cut
from .c18_entries import CATALOGUE, FAMILIES, Ctx, eligible
from .c18_inventory import NOT_RUNNABLE, SKIP_MODULES, CallTracer, check_defaults, default_objects, flag_report, inventory
from .c18_world import DEGENERATE, ORIGINS, VARIANTS, World, detach, fingerprint, has_arrays, same

RULE = ("histories of <= 10 calls of public analysis entry points (catalogue of %d entries in %d families; measured API "
        "coverage in facet flag_coverage) on one shared world: d in {2,3}, N 8..28 (64..150 in sizes / sweep_sizes / "
        "machine_deep), 1..5 frames (..8 thorough), K 1..6 species, box origin in "
        "{zero, centred on the origin, bounds summing to zero, arbitrary}, orthogonal or (where the routine documents it) "
        "triclinic cell; 55 %% ordinary worlds, 20 %% unusual-but-accepted ones (labels not 1..K, per-frame permuted labels, "
        "int32 labels, non-contiguous positions, logarithmic / repeated / decreasing time steps, partially periodic boxes), "
        "25 %% degenerate ones (pinned particles, revisited frames, zero fields, an isolated particle); parameters from small "
        "finite sets that take every "
        "documented value of every flag and omit the keywords with mutable defaults where those describe the world, "
        "'repeat an earlier call' rules, optional output files (plain names and names in a sub-directory), analysis objects "
        "kept alive and shared between calls (2 in 3; those calls share one working directory), optional deep-copy "
        "differential, 'rebuild all inputs as fresh value-equal "
        "objects' steps, 'overwrite the inputs in place with other contents / call / restore / call' steps and 'the caller "
        "overwrites every returned array in place, then repeats through new objects' steps.  Non-trivial "
        "history = >= 2 different entry points and >= 1 repeated (entry, params, out) call with at least one other call in "
        "between." % (len(CATALOGUE), len(FAMILIES)))
ASSUMPTIONS = [
    "bulk coordinates / fields come from numpy.random.default_rng seeded with Hypothesis-drawn integers (pure function "
    "of the seed; shrinks in the discrete choices, not in the coordinates)",
    "results are compared with themselves only (no reference values): a routine that is consistently wrong is the "
    "business of C03-C20, not of this check -- in particular in the off-domain worlds",
    "VolumeMatrix is called with transform_matrix=False only (A A^T is singular by volume conservation, so the "
    "transformed matrix has no contract, cf. C20; listed in c18_inventory.FLAG_EXEMPT); OMP_NUM_THREADS=1 (set by "
    "./check) for freud",
    "Dynamics.sq4 is called only for (mode, cal_type) whose mobile subset is non-empty in every origin frame, and with a "
    "condition only when the selected AND mobile subset is non-empty as well",
    "equality of results is array_equal with NaN == NaN (0.0 == -0.0 accepted); equality of inputs is byte equality",
    "mutate-and-restore treats the snapshot arrays like any other array argument: after an in-place update of their "
    "contents a NEW analysis object / call must see the new contents (analysis objects built before the update are "
    "not used across it)",
    "output files are compared at the precision of each written token (half a unit of its last digit), not at a "
    "format string copied from the current source",
    "a live analysis object is shared only between calls whose constructor arguments agree; S2 objects start with "
    "particle_s2() done and NematicOrder objects with tensor() done for the neighbour setting in their key (the docs "
    "give that order: the correlation methods read the stored field), so a method's expected result is a function of "
    "(inputs, params) alone",
    "invariant (7) is not demanded across harness steps that rebuild or overwrite the inputs (a result may alias an input), "
    "and compares result attributes of the object (s2_results, QIJ, smallqlm, largeQlm, ParticlePhi) like returned values",
    "off-domain worlds: an exception raised inside PyMatterSim is accepted as a refusal of the input (and must be "
    "repeated by a repeated call); the per-species parameter tables there have one row per type up to the largest label",
    "the caller-overwrites step (8) is only followed by calls through NEW analysis objects (an object's attributes are "
    "documented state of that object; a module-level table or memo is not); an input that changed because a returned array "
    "aliases it is restored by the harness and not reported",
    "a call that omits a keyword with a mutable default does so only where the default describes the world (ppp: all ones of "
    "the world's dimension and a fully periodic world; zeros(3) for unwrapped 3D coordinates; diameters / radii: labels "
    "within {1, 2}) -- in off-domain worlds default diameters are also used for other labels (NaN results, purity still holds)",
    "calls through shared live objects run in one working directory per world in which output files of earlier calls "
    "remain; 'the file holds the returned values' is demanded of the file as it is after the call, whatever was there before",
    "requested csv / text names keep the extension the docs ask for ('filename.csv': vector_decomposition_sq appends '.csv' "
    "to any other name); the directory part of a name exists before the call",
    "the per-vector table sq writes next to its csv (saveqvectors) and the spectra file of vector_fft_corr are not "
    "returned: their text is compared between repeated calls only",
    "process-global state (11): the harness itself sets np.seterr(all='ignore') and warnings.simplefilter('ignore') once "
    "per process and never resets them around a call; a difference between the snapshot before a call and the state after "
    "it is attributed to that call (the entries' own harness code only reads files the call wrote).  Nnearests' "
    "np.set_printoptions(threshold=inf, linewidth=inf) is a known, reported leak and excluded exactly (VERIF_STRICT=1 "
    "includes it); it changes no result of the library (only Nnearests / voronowalls print arrays)",
    "the GSD / DCD readers and the voro++ wrappers are not exercised (packages / executable absent; C19 drives read_gsd "
    "with duck-typed frames); every other public callable found by introspection is called directly by some entry",
]
MANIFEST = {
    "text": "Purity / repeatability of the public analysis API (%d catalogue entries; API inventory by introspection with "
            "measured coverage): machine facet = generated call histories on shared snapshots and shared live analysis "
            "objects with byte-level input invariants, repeat-call equality, returned-value stability, output-file round "
            "trips, a deep-copy differential, re-allocation of all inputs and in-place overwrite/restore of all inputs, in "
            "ordinary, unusual-but-accepted (labels not 1..K, int32 labels, non-contiguous positions, permuted labels, "
            "logarithmic / repeated / decreasing time steps, partially periodic boxes) and degenerate worlds (NaN / inf "
            "results), 1-5 frames (8 thorough), N 8-28 (150 thorough); round 3: the mutable default arguments of all public "
            "signatures are watched like passed arguments, dict / list arguments are compared with their order, the caller "
            "overwrites returned arrays and repeats through new objects, calls of a session share one working directory "
            "(pre-existing output files), file names with a directory, process-global state (numpy error handling / print "
            "options, warnings filters, cwd, environ, logging, global RNGs, pandas options, open descriptors) compared "
            "before / after every call with nothing reset in between; chains facet = method chains of one class on one live "
            "object; flag_coverage = deterministic sweep of every (entry, parameter set, output on/off) + completeness "
            "self-check (every flag keyword takes all its values); sweep_nonfinite / sweep_sizes = the sweep in degenerate "
            "worlds / on N = 100, 101 and 7-8 frames; single_* and sizes facets = the same checks per entry point in "
            "isolation; machine_deep (thorough) = histories of 30 steps."
            % len(CATALOGUE),
    "note": "Self-consistency only (no reference values). Trusted: numpy/pandas readers used to parse the output "
            "files, Hypothesis. Not exercised, with reasons in the evidence: voro++ wrappers (external binary), GSD/DCD "
            "readers (gsd, mdtraj absent); VolumeMatrix(transform_matrix=True) is exempt (singular matrix, no contract).",
    "technique": "property-based testing (Hypothesis): stateful model-based (rule-based state machine with invariants "
                 "over a shared world and shared live objects) + per-entry metamorphic (call twice / call on a deep copy / "
                 "overwrite-and-restore) + file round trip + finite enumeration of the catalogue with a traced API inventory",
}

ONLY = [s for s in os.environ.get("C18_ONLY", "").split(",") if s]  # debugging aid: restrict the catalogue


def _names(fam):
    return [n for n in FAMILIES[fam] if not ONLY or n in ONLY]


def _fail(msg):
    raise Violation(msg)


REJECTED = "rejected-input"
_POISON = [0]
try:
    import ctypes
    _LIBC = ctypes.CDLL("libc.so.6")
except Exception:  # noqa: BLE001
    _LIBC = None


def _poison():
    """Leave recognisable, call-specific numbers in the small-block caches of numpy's allocator and let glibc fill fresh and
    freed blocks with a call-specific byte (mallopt M_PERTURB): a result read from uninitialised memory (np.empty filled through a mask) then tends to differ between a call and its repeat instead of
    accidentally reproducing.  Changes nothing for code that initialises what it returns."""
    _POISON[0] += 1
    if _LIBC is not None:
        try:
            _LIBC.mallopt(-6, 1 + _POISON[0] % 254)  # M_PERTURB: fresh / freed malloc blocks are filled with a call-specific byte
        except Exception:  # noqa: BLE001 - not glibc
            pass
    for size in (1, 2, 3, 4, 6, 8, 12, 16, 24, 32, 48, 64):
        a = np.full(size, 1.0e300 + 1.0e290 * _POISON[0])
        del a



def _nonfinite(x):
    """True when a result structure holds a NaN / inf somewhere (class tag: repeat-equality and file round trips on
    non-finite values)."""
    import pandas as pd
    if isinstance(x, (pd.DataFrame, pd.Series)):
        x = x.to_numpy()
    if isinstance(x, np.ndarray):
        if x.dtype == object:
            return any(_nonfinite(v) for v in x.ravel().tolist())
        return bool(x.dtype.kind in "fc" and x.size and not np.isfinite(x).all())
    if isinstance(x, dict):
        return any(_nonfinite(v) for v in x.values())
    if isinstance(x, (list, tuple)):
        return any(_nonfinite(v) for v in x)
    return isinstance(x, (float, complex, np.floating, np.complexfloating)) and not np.isfinite(x)


# ---- process-global state (invariant 11).  The harness sets, ONCE per process, the state every call starts from -- numpy
# floating-point errors ignored (0/0 -> NaN in degenerate bins is a value, compared as such, not an event) and warnings
# silenced -- and never resets it between calls: what a call leaves behind is what the next call meets.
np.seterr(all="ignore")
warnings.simplefilter("ignore")


def _pandas_options():
    import pandas as pd
    out = []
    for opt in ("display.precision", "display.float_format", "display.max_rows", "display.max_columns",
                "compute.use_numexpr", "compute.use_bottleneck", "mode.chained_assignment", "future.infer_string"):
        try:
            out.append((opt, repr(pd.get_option(opt))))
        except Exception:  # noqa: BLE001 - option unknown to this pandas
            pass
    return out


def process_state():
    """What a routine can leave behind without touching any array: the process-wide settings and resources that LATER calls
    depend on.  {label: comparable value}."""
    import decimal
    import locale
    import logging
    import random
    import sys
    st = np.random.get_state()
    try:
        nfd = len(os.listdir("/proc/self/fd"))
    except OSError:
        nfd = -1
    return {
        "numpy's floating-point error handling (np.geterr())": dict(np.geterr()),
        "numpy's error callback (np.geterrcall())": repr(np.geterrcall()),
        "numpy's print options (np.get_printoptions())": sorted((k, repr(v)) for k, v in np.get_printoptions().items()),
        "the warnings filters (warnings.filters)": [repr(f) for f in warnings.filters],
        "the working directory (os.getcwd())": os.getcwd(),
        "the environment (os.environ)": dict(os.environ),
        "the logging root (level, handlers, logging.disable level)": (logging.root.level, len(logging.root.handlers),
                                                                      logging.root.manager.disable),
        "numpy's global random state (np.random.get_state())": (st[0], st[1].tobytes(), st[2], st[3], st[4]),
        "Python's global random state (random.getstate())": random.getstate(),
        "pandas options": _pandas_options(),
        "the decimal context": repr(decimal.getcontext()),
        "the locale": locale.setlocale(locale.LC_ALL),
        "the number of open file descriptors": nfd,
        "sys.path / recursion limit": (list(sys.path), sys.getrecursionlimit()),
    }


def _restore_process_state(before):
    """After a leak has been REPORTED the harness puts the settings back (best effort), so that the shrinking and the other
    cases of this process are not judged in the state the defect left behind."""
    import random
    try:
        np.seterr(**before["numpy's floating-point error handling (np.geterr())"])
        np.set_printoptions(**{k: eval(v, {"nan": float("nan"), "inf": float("inf")})  # noqa: S307 - reprs of plain values
                               for k, v in before["numpy's print options (np.get_printoptions())"] if k != "formatter"})
    except Exception:  # noqa: BLE001
        pass
    try:
        os.environ.clear()
        os.environ.update(before["the environment (os.environ)"])
        st = before["numpy's global random state (np.random.get_state())"]
        np.random.set_state((st[0], np.frombuffer(st[1], dtype=np.uint32), st[2], st[3], st[4]))
        random.setstate(before["Python's global random state (random.getstate())"])
    except Exception:  # noqa: BLE001
        pass


# KNOWN on the unchanged tree (reported, not repaired; VERIF_STRICT=1 switches the exclusion off): Nnearests (and the voro++
# wrapper voronowalls) call np.set_printoptions(threshold=np.inf, linewidth=np.inf) before writing their table with
# np.array2string and never put the caller's settings back.  Exactly that is excluded -- these two options, set to inf, by
# Nnearests -- and counted (tag known-printoptions-left-by-Nnearests); every other option, value and entry is compared.
_PO = "numpy's print options (np.get_printoptions())"


def _known_printoptions(name, before, now):
    if STRICT or name != "Nnearests":
        return False
    b, n = dict(before[_PO]), dict(now[_PO])
    diff = {k for k in set(b) | set(n) if b.get(k) != n.get(k)}
    return bool(diff) and diff <= {"threshold", "linewidth"} and all(n[k] == "inf" for k in diff)


def check_process_state(before, after_what, name=None, note=None):
    now = process_state()
    for label, v in before.items():
        if now[label] != v:
            if label == _PO and _known_printoptions(name, before, now):
                if note:
                    note("known-printoptions-left-by-Nnearests")
                continue
            a, b = v, now[label]
            if isinstance(v, dict):
                keys = sorted(k for k in set(v) | set(b) if v.get(k) != b.get(k))
                a, b = {k: v.get(k) for k in keys[:4]}, {k: b.get(k) for k in keys[:4]}
            elif isinstance(v, list) and len(v) > 6:
                a, b = f"{len(v)} entries", f"{len(b)} entries, e.g. {[x for x in b if x not in v][:2]}"
            elif "random state" in label:
                a, b = "(state before the call)", "(another state: the routine seeded or consumed the caller's generator)"
            _restore_process_state(before)
            _fail(f"after {after_what}: the call left process-global state changed -- {label}: {a!r:.300} -> {b!r:.300}.  No array "
                  f"was touched, but what LATER analyses return (or whether they return at all) now depends on this call "
                  f"having run before them.")


def run_entry(w, name, p, out, objs, tag, note=None):
    """One call of a catalogue entry in a fresh output directory (cwd during the call).  Returns (key, result).
    In an off-domain world (w.tolerant) an exception raised inside PyMatterSim is a refusal of the input, not a
    violation: the result is then the marker (REJECTED, exception type); invariant (1) is checked all the same."""
    fn = CATALOGUE[name]
    q = fn.P[p % len(fn.P)]
    out = bool(out and fn.has_out)
    key = (name, p % len(fn.P), out)
    # Calls that go through the live objects of a history run in ONE working directory per world (an interactive
    # session: the output files of earlier calls -- same names, other parameters -- are still there and are overwritten);
    # all other calls get a fresh, empty directory.
    session = objs is not None
    if session:
        calldir = os.path.join(w.root, "session-cwd")
        os.makedirs(calldir, exist_ok=True)
        if note and os.listdir(calldir):
            note("cwd-holds-files-of-earlier-calls")
    else:
        calldir = tempfile.mkdtemp(prefix="call-", dir=w.root)
    old = os.getcwd()
    os.chdir(calldir)
    default_objects()  # frozen before the first call of the process
    _poison()
    # (11) snapshot of the process-global state taken just before THIS call; nothing is reset by the harness around it
    before = process_state()
    try:
        try:
            res = fn(w, q, out, Ctx(objs, style=key[1] % 2))
        except Violation:
            raise
        except Exception as e:  # noqa: BLE001
            check_process_state(before, f"{tag} {name}({q}, out={out}) [which raised {type(e).__name__}]", name, note)
            if not (w.tolerant and exception_from_cut(e)):
                raise
            res = (REJECTED, type(e).__name__)
            if note:
                note(REJECTED)
                note(f"{REJECTED}:{name}")
        check_process_state(before, f"{tag} {name}({q}, out={out})", name, note)
    finally:
        os.chdir(old)
        if not session:
            shutil.rmtree(calldir, ignore_errors=True)
    w.check_pure(f"{tag} {name}({q}, out={out})")
    check_defaults(f"{tag} {name}({q}, out={out})")
    if note:
        if q.get("dflt"):
            note("call-omits-arguments-that-have-mutable-defaults")
        if out and key[1] % 2:
            note("output-file-name-in-a-subdirectory")
        if _nonfinite(res):
            note("result-holds-nan-or-inf" + ("-and-file-requested" if out else ""))
    return key, res


def rejected(res):
    return isinstance(res, tuple) and len(res) == 2 and isinstance(res[0], str) and res[0] == REJECTED


def _scribble(x):
    """Overwrite IN PLACE, as their owner may, every array / DataFrame of a result structure with recognisable garbage;
    returns the number of leaves overwritten."""
    import pandas as pd
    if isinstance(x, np.ndarray):
        if not x.flags.writeable or x.size == 0:
            return 0
        if x.dtype == object:
            if any(has_arrays(v) for v in x.ravel().tolist()):
                return sum(_scribble(v) for v in x.ravel().tolist())
            x[...] = -7  # a table of Python / sympy numbers (Wignerindex)
            return 1
        k = x.dtype.kind
        if k == "f":
            x[...] = -12345.678
        elif k == "c":
            x[...] = complex(-1.5, 2.5)
        elif k in "iu":
            x[...] = 7
        elif k == "b":
            np.logical_not(x, out=x)
        else:
            return 0
        return 1
    if isinstance(x, pd.DataFrame):
        n = 0
        for j in range(x.shape[1]):
            k = x.iloc[:, j].dtype.kind
            if k in "fiu" and len(x):
                x.iloc[:, j] = -12345.678 if k == "f" else 7
                n = 1
        return n
    if isinstance(x, dict):
        return sum(_scribble(v) for v in x.values())
    if isinstance(x, (list, tuple)):
        return sum(_scribble(v) for v in x)
    return 0


class History:
    """The calls made on one world: invariants (2) and (7).
    (2) a repeated (entry, params, out) call must return what the first one returned (compared with a detached copy taken
        when the first call returned), whatever ran in between and whether or not analysis objects were shared;
    (7) every array / DataFrame a call handed back to the caller must keep the bytes it had when the call returned, at
        every later step, as long as the inputs were not rebuilt / overwritten by the harness."""

    def __init__(self, w, note=None, stride=1):
        """stride > 1 (long deterministic sweeps): values returned more than `stride` calls ago are re-examined only at
        every stride-th call and by `check_watch(..., full=True)`; a change is then found at most `stride` calls late."""
        self.w = w
        self.stride = stride
        self.ncheck = 0
        self.note = note or (lambda t: None)
        self.objs = {}
        self.keys = []     # key of every call, in order
        self.store = {}    # key -> (detached first result, index)
        self.watch = []    # (index, key, live result, detached copy, fingerprint of the copy)
        self.repeat = self.interleaved = False

    def check_watch(self, after, full=False):
        self.ncheck += 1
        lazy = self.stride > 1 and not full and self.ncheck % self.stride != 0
        if self.stride > 1:
            after = f"{after} (or one of the {self.stride} calls before it)"
        for idx, key, live, frozen, fp in (self.watch[-self.stride:] if lazy else self.watch):
            if fingerprint(live) == fp:
                continue
            m = same(frozen, live, "returned value")
            if m:
                _fail(f"after {after}: the value that call {idx + 1} {label(key)} RETURNED to the caller has been changed behind "
                      f"the caller's back (it no longer holds what was returned / written to the output file): {m}")

    def call(self, entry, p, out, reuse, tag=None):
        idx = len(self.keys)
        key, res = run_entry(self.w, entry, p, out, self.objs if reuse else None, tag or f"step {idx + 1}:", self.note)
        self.keys.append(key)
        self.check_watch(f"call {idx + 1} {label(key)}")
        frozen = detach(res)
        if has_arrays(res):
            self.watch.append((idx, key, res, frozen, fingerprint(frozen)))
            self.note("returned-arrays-watched")
        if key in self.store:
            first, first_idx = self.store[key]
            m = same(first, frozen, "result")
            if m:
                between = [label(k) for k in self.keys[first_idx + 1:idx]]
                _fail(f"repeated call {label(key)} (call {idx + 1}, first made as call {first_idx + 1}) returned a different "
                      f"result: {m}; calls in between: {between}")
            self.repeat = True
            self.note("repeat")
            if any(k != key for k in self.keys[first_idx + 1:idx]):
                self.interleaved = True
                self.note("repeat-interleaved")
        else:
            self.store[key] = (frozen, idx)
        return key, frozen

    def invalidate(self):
        """The harness is about to rebuild / overwrite the inputs: kept analysis objects and returned values that may
        legitimately alias the inputs are dropped (the store of first results is kept: VALUES must still reproduce)."""
        self.objs.clear()
        self.watch.clear()

    def scribble(self):
        """Invariant (8).  What a call returned belongs to the caller: the caller now overwrites every returned array /
        DataFrame in place (`res[...] = ...`, `df.iloc[:, j] = ...`) and throws the analysis objects away.  Every later
        call -- necessarily through NEW analysis objects -- must still return what the same call returned first (the store
        of first results is kept): a routine that hands out its memo / a module-level table / a recycled buffer instead of
        a value of its own is then exposed.  A returned array may alias an INPUT (voropp.get_input returns the box-bound
        arrays): an input that changed through such an alias is written back in place (harness step, tagged)."""
        self.check_watch("the calls so far")
        n = sum(_scribble(live) for _, _, live, _, _ in self.watch)
        self.invalidate()
        aliased = self.w.restore_changed()
        check_defaults("the caller overwrote the returned arrays in place (a returned array aliases a default argument)")
        self.note("caller-overwrote-returned-arrays" if n else "nothing-to-overwrite")
        if aliased:
            self.note("returned-array-aliased-an-input")
        return n


def mutate_and_restore(w, entry, p, out, seed2, r1, root2, tag):
    """r1 = result of entry(p) on w (contents A, just computed).  Overwrite the SAME array objects / input files in
    place with the contents of another world B, call again (must equal the call on a freshly built B), write A back in
    place, call again (must equal r1).  Nothing of the library runs between the first and the second call."""
    fn = CATALOGUE[entry]
    other = World(root=root2, like=w, **dict(w.kw, seed=int(seed2) + int(w.kw["seed"]) + 1))
    try:
        if other.pristine == w.pristine or not eligible(fn, other):
            tag("mutate-skipped")
            return
        key = (entry, p % len(fn.P), bool(out and fn.has_out))
        w.mutate_to(other)
        try:
            _, r2 = run_entry(w, entry, p, out, None, "call after overwriting the inputs in place:")
            r2 = detach(r2)  # a result may legitimately alias the inputs (voropp.get_input returns the box-bound arrays)
        finally:
            w.restore()
        w.check_pure("restoring the inputs in place (harness)")
        _, rb = run_entry(other, entry, p, out, None, "call on freshly built inputs:")
        m = same(r2, rb, "result")
        if m:
            _fail(f"{label(key)}: after the contents of the SAME input objects were overwritten in place, the call does not "
                  f"return what it returns for freshly allocated inputs with those contents (state carried over from the "
                  f"previous call?): {m}")
        _, r3 = run_entry(w, entry, p, out, None, "call after restoring the inputs in place:")
        m = same(r1, r3, "result")
        if m:
            _fail(f"{label(key)}: first call and the call after (overwrite in place, call, restore in place) differ: {m}")
        tag("mutate-and-restore")
        if same(r1, r2, "result") is None:
            tag("mutate-same-result")
    finally:
        shutil.rmtree(root2, ignore_errors=True)


def label(key):
    name, p, out = key
    return f"{name}({CATALOGUE[name].P[p]}, out={out})"


def _mix(k):
    """Multiplicative hash: Hypothesis favours small and repeated integers; this spreads them over the catalogue."""
    return ((int(k) * 2654435761) >> 8) & 0xFFFFFF


def _pick(draw, seq, salt=0):
    """Near-uniform choice (sampled_from / small integers concentrate on few elements at small case counts)."""
    return seq[_mix(draw(st.integers(0, 2 ** 16)) + salt) % len(seq)]


_UNUSUAL = [v for v in VARIANTS if v != "plain" and v not in DEGENERATE]


def _variant(k):
    """55 % ordinary worlds, 20 % unusual-but-accepted inputs, 25 % degenerate worlds (results contain NaN / inf)."""
    k = _mix(k)
    r, k = k % 20, k // 20
    if r < 11:
        return "plain"
    return _UNUSUAL[k % len(_UNUSUAL)] if r < 15 else DEGENERATE[k % len(DEGENERATE)]


_KS = [1, 1, 2, 2, 2, 2, 3, 3, 3, 3, 4, 5, 6]  # the 4- and 5-species g(r) / S(q) are slow: 1 world in 13 each; 6 species:
#                                               "only overall" branch of gr / sq (more species than partial columns exist for)
_TS = [1, 2, 2, 2, 3, 3, 3, 4, 5]          # one frame (static analyses of a single configuration) ... five frames
VARIANT_ST = st.integers(0, 2 ** 16).map(_variant)
K_ST = st.integers(0, 2 ** 16).map(lambda k: _KS[_mix(k + 17) % len(_KS)])
T_ST = st.integers(0, 2 ** 16).map(lambda k: _TS[_mix(k + 5) % len(_TS)])



def _size(k):
    """N = 8..16 in 7 worlds of 8, 17..28 in the eighth."""
    k = _mix(k + 3)
    r, k = k % 8, k // 8
    return 8 + k % 9 if r < 7 else 17 + k % 12


N_ST = st.integers(0, 2 ** 16).map(_size)
# thorough-tier facets (machine_deep, sizes): longer trajectories, larger systems (N = 100, 101: around a block size of 100)
T_DEEP = st.sampled_from([1, 2, 3, 4, 5, 6, 7, 8])
_BIG = [63, 64, 65, 99, 100, 101, 127, 128, 129, 133, 150, 199, 201]


def _size_deep(k):
    """N = 8..40 in 9 worlds of 10, one of 64 ... 150 in the tenth."""
    k = _mix(k + 11)
    r, k = k % 10, k // 10
    return 8 + k % 33 if r < 9 else _BIG[k % len(_BIG)]


N_DEEP = st.integers(0, 2 ** 16).map(_size_deep)
N_BIG = st.sampled_from([63, 64, 65, 99, 100, 101, 127, 128, 129])  # B - 1, B, B + 1 around block sizes 64, 100, 128


def world_tags(kw):
    N = kw["N"]
    return [f"d{kw['d']}", f"origin-{kw['origin']}", f"cell-{kw['cell']}", f"K{kw['K']}", f"T{kw['T']}",
            f"N{'8-11' if N < 12 else '12-16' if N < 17 else '17-40' if N <= 40 else '64-99' if N < 100 else '100+'}",
            "dict-and-list-arguments-" + ("ascending" if kw["seed"] % 3 == 0 else "not-sorted"),
            *([f"size-boundary-{N}"] if N >= 63 else []),
            f"world-{kw.get('variant', 'plain')}",
            "world-ordinary" if kw.get("variant", "plain") == "plain" else
            ("world-degenerate" if kw.get("variant") in DEGENERATE else "world-off-domain")]


# ============================================================================= history facet

WORLD_KW = dict(seed=st.integers(0, 2 ** 20), d=st.sampled_from([2, 3]), N=N_ST, T=T_ST,
                K=K_ST, origin=st.sampled_from(ORIGINS),
                cell=st.sampled_from(["ortho", "ortho", "ortho", "tri"]), variant=VARIANT_ST,
                # families this history concentrates on (a session works with a few analyses, and order-dependent
                # defects need the same objects to meet repeatedly); 0 = all families
                focus=st.one_of(st.just(0), st.integers(1, 2 ** 20)))
CALL_KW = dict(which=st.integers(0, 2 ** 16), p=st.integers(0, 63), out=st.booleans(), reuse=st.sampled_from([True, True, False]),
               dup=st.booleans())


class PurityMachine(RecordingMachine):
    def __init__(self):
        super().__init__()
        self.w = None
        self.w2 = None
        self.h = None
        self.root = None
        self.calls = []     # (key, kwargs) in call order
        self.last_result = None

    # ---- set-up
    @initialize(**WORLD_KW)
    def r_init(self, **kw):
        self.step("init", **kw)
        self.do_init(**kw)

    def do_init(self, focus=0, **kw):
        self.root = tempfile.mkdtemp(prefix="hist-", dir=os.getcwd())
        self.w = World(root=os.path.join(self.root, "w"), **kw)
        self.h = History(self.w, self.tag)
        self.wkw = kw
        self.fam = {f: [n for n in _names(f) if eligible(CATALOGUE[n], self.w)] for f in FAMILIES}
        if not any(self.fam.values()):  # only possible with the C18_ONLY debugging filter
            self.fam = {f: [n for n in FAMILIES[f] if eligible(CATALOGUE[n], self.w)] for f in FAMILIES}
        if focus:
            live = sorted(f for f, v in self.fam.items() if v)
            k, keep = focus, []
            for _ in range(min(3, len(live))):
                keep.append(live.pop(k % len(live)))
                k //= 7
            self.fam = {f: (v if f in keep else []) for f, v in self.fam.items()}
            self.tag("focus-3-families")
        else:
            self.tag("focus-all")
        for t in world_tags(kw):
            self.tag(t)

    def teardown(self):
        if not self.calls:
            self._failed = True  # Hypothesis cut the run before the first call: not an evaluated history
        if self.root:
            shutil.rmtree(self.root, ignore_errors=True)
        super().teardown()

    # ---- the one real operation
    def do_call(self, entry, p, out, reuse, dup):
        w = self.w
        if entry not in CATALOGUE or not eligible(CATALOGUE[entry], w):
            _fail(f"harness: entry {entry!r} not eligible in this world")  # cannot happen (rules resolve names)
        idx = len(self.calls)
        key, res = self.h.call(entry, p, out, reuse)
        self.calls.append((key, dict(entry=entry, p=p, out=out, reuse=reuse, dup=dup)))
        self.tag(entry)
        if key[2]:
            self.tag("with-output-file")
        if reuse:
            self.tag("object-reuse-allowed")
        self.last_result = res
        if dup:
            if self.w2 is None:
                self.w2 = World(root=os.path.join(self.root, "copy"), **self.wkw)
                if self.w2.pristine != w.pristine:
                    _fail("harness: world construction is not deterministic")
            _, res2 = run_entry(self.w2, entry, p, out, None, f"step {idx + 1} (deep copy):")
            m = same(res, res2, "result")
            if m:
                _fail(f"{label(key)} (call {idx + 1}) on the shared objects differs from the same call on a bit-identical deep "
                      f"copy of all inputs: {m}; earlier calls: {[label(k) for k, _ in self.calls[:idx]]}")
            self.tag("deep-copy-differential")
        self.info["nontrivial"] = bool(len({k[0] for k, _ in self.calls}) >= 2 and self.h.interleaved)

    # ---- same values in freshly allocated objects
    @precondition(lambda self: bool(self.calls))
    @rule()
    def r_rebuild(self):
        self.step("rebuild")
        self.do_rebuild()

    def do_rebuild(self):
        """Every shared array is replaced by a value-equal, freshly allocated one (new Snapshots objects too); kept
        analysis objects are dropped.  Results of repeated (X, params) calls must still be bit-identical (the store of
        earlier results is kept)."""
        self.h.check_watch("the steps so far")
        self.h.invalidate()
        self.w.rebuild()
        self.w.check_pure("rebuilding the shared objects (harness)")
        self.tag("rebuild-fresh-objects")

    # ---- the caller overwrites what was returned to it
    @precondition(lambda self: bool(self.calls))
    @rule(idx=st.integers(0, 9))
    def r_scribble(self, idx):
        self.step("scribble", idx=idx)
        self.do_scribble(idx=idx)

    def do_scribble(self, idx):
        """Invariant (8): overwrite every returned array in place, drop the analysis objects, then make the last call and
        one other earlier call again (through new objects): each must return what it returned first."""
        self.h.scribble()
        again = [self.calls[-1][1]]
        other = [kw for k, kw in self.calls[:-1] if k != self.calls[-1][0]]
        if other:
            again.append(other[_mix(idx + 31 * self.wkw["seed"]) % len(other)])
        for kw in again:
            self.do_call(**dict(kw, reuse=False, dup=False))

    # ---- other values in the same objects
    def do_mutres(self, entry, p, out, seed2):
        self.do_call(entry=entry, p=p, out=out, reuse=False, dup=False)
        r1 = self.last_result
        self.h.invalidate()
        mutate_and_restore(self.w, entry, p, out, seed2, r1, os.path.join(self.root, f"other-{len(self.calls)}"),
                           lambda t: self.tag(t))

    def _mutres_rule(self, fam, which, p, out, seed2):
        names = self.fam[fam]
        entry = names[_mix(which + 7919 * self.wkw["seed"] + 104729 * len(self.calls) + 31 * self.wkw["N"]) % len(names)]
        kw = dict(entry=entry, p=p, out=out, seed2=seed2)
        self.step("mutres", **kw)
        self.do_mutres(**kw)

    def _family_rule(self, fam, which, p, out, reuse, dup):
        names = self.fam[fam]
        entry = names[_mix(which + 7919 * self.wkw["seed"] + 104729 * len(self.calls) + 31 * self.wkw["N"]) % len(names)]
        kw = dict(entry=entry, p=p, out=out, reuse=reuse, dup=dup)
        self.step("call", **kw)
        self.do_call(**kw)

    def _repeat_rule(self, idx, fresh):
        # prefer an earlier call that differs from the last one, so that something else ran in between
        last = self.calls[-1][0]
        cands = [c for c in self.calls[:-1] if c[0] != last] or self.calls
        _, kw = cands[_mix(idx + 31 * self.wkw["seed"]) % len(cands)]
        kw = dict(kw)
        if fresh:
            kw["reuse"] = not kw["reuse"]  # same inputs through a fresh / a kept analysis object
        self.step("call", **kw)
        self.do_call(**kw)

    def _vary_rule(self, idx, shift):
        """An earlier entry again with other parameters (and the deep-copy differential): results must depend on the
        parameters of this call, not on what an earlier call with the same objects left behind."""
        _, kw = self.calls[_mix(idx + 31 * self.wkw["seed"]) % len(self.calls)]
        kw = dict(kw, p=kw["p"] + 1 + shift, dup=True)
        self.step("call", **kw)
        self.do_call(**kw)

    # ---- invariants (purity is checked inside run_entry right after the call; here once more for the whole state)
    def check_invariants_now(self):
        if self.w is not None:
            self.w.check_pure("the last step")
        if self.w2 is not None:
            self.w2.check_pure("the last step (deep copy)")
        if self.h is not None:
            self.h.check_watch("the last step")

    @invariant()
    def inv(self):
        self.check_invariants_now()


def _add_rules():
    for fam in FAMILIES:
        def mk(fam):
            @precondition(lambda self: self.w is not None and bool(self.fam.get(fam)))
            @rule(**CALL_KW)
            def r(self, which, p, out, reuse, dup):
                self._family_rule(fam, which, p, out, reuse, dup)
            r.__name__ = f"r_{fam}"
            return r
        setattr(PurityMachine, f"r_{fam}", mk(fam))
    for fam in FAMILIES:
        def mkmut(fam):
            @precondition(lambda self: self.w is not None and bool(self.fam.get(fam)))
            @rule(which=st.integers(0, 2 ** 16), p=st.integers(0, 63), out=st.booleans(), seed2=st.integers(0, 2 ** 20))
            def r(self, which, p, out, seed2):
                self._mutres_rule(fam, which, p, out, seed2)
            r.__name__ = f"r_mut_{fam}"
            return r
        setattr(PurityMachine, f"r_mut_{fam}", mkmut(fam))
    for k in range(4):
        def mkrep(k):
            @precondition(lambda self: bool(self.calls))
            @rule(idx=st.integers(0, 9), fresh=st.booleans())
            def r(self, idx, fresh):
                self._repeat_rule(idx, fresh)
            r.__name__ = f"r_repeat{k}"
            return r
        setattr(PurityMachine, f"r_repeat{k}", mkrep(k))
    for k in range(2):
        def mkvar(k):
            @precondition(lambda self: bool(self.calls))
            @rule(idx=st.integers(0, 9), shift=st.integers(0, 2))
            def r(self, idx, shift):
                self._vary_rule(idx, shift)
            r.__name__ = f"r_vary{k}"
            return r
        setattr(PurityMachine, f"r_vary{k}", mkvar(k))


_add_rules()

WORLD_KW_DEEP = dict(WORLD_KW, N=N_DEEP, T=T_DEEP)


class PurityMachineDeep(PurityMachine):
    """Thorough tier only: histories of up to 30 steps on longer trajectories (up to 8 frames) and larger systems (N up to
    40, sometimes 64 ... 150); the rules are those of PurityMachine."""

    @initialize(**WORLD_KW_DEEP)
    def r_init(self, **kw):
        self.step("init", **kw)
        self.do_init(**kw)


def _params(entry, p):
    fn = CATALOGUE[entry]
    return fn.P[p % len(fn.P)]


def describe_machine(log):
    out = []
    for name, kw in log:
        if name == "init":
            out.append(("init", kw))
        elif name == "rebuild":
            out.append(("rebuild",))
        elif name == "scribble":
            out.append(("caller overwrites the returned arrays, then repeats",))
        elif name == "mutres":
            out.append(("mutate-and-restore", kw["entry"], _params(kw["entry"], kw["p"])))
        else:
            out.append((kw["entry"], _params(kw["entry"], kw["p"]), {k: kw[k] for k in ("out", "reuse", "dup")}))
    return out


# ============================================================================= single-call facets


def _world_for(draw, fn, fam, n_st=N_ST, t_st=T_ST):
    seed, N, T = draw(st.integers(0, 2 ** 20)), draw(n_st), draw(t_st)
    T = max(T, fn.minT)
    K = draw(K_ST)
    d = draw(st.sampled_from(list(fn.dims)))
    cell = draw(st.sampled_from(["ortho", "ortho", "tri"])) if fn.tri else "ortho"
    origin = draw(st.sampled_from(ORIGINS + (("centred", "sumzero") if fam == "voro" else ())))
    return dict(seed=seed, d=d, N=N, T=T, K=K, origin=origin, cell=cell, variant=draw(VARIANT_ST))


def single_st(fam):
    @st.composite
    def strat(draw):
        salt = draw(st.integers(0, 2 ** 20))
        name = _pick(draw, _names(fam) or FAMILIES[fam], salt)
        fn = CATALOGUE[name]
        world = _world_for(draw, fn, fam)
        # the call made in between: the same entry with other parameters, or another entry of the family (they share
        # analysis objects when `reuse` is drawn)
        others = [n for n in FAMILIES[fam] if world["d"] in CATALOGUE[n].dims and (CATALOGUE[n].tri or world["cell"] == "ortho")]
        name2 = _pick(draw, [name] + others, salt + 1)
        return {"entry": name, "p": _pick(draw, range(len(fn.P)), salt + 2), "entry2": name2,
                "p2": _pick(draw, range(len(CATALOGUE[name2].P)), salt + 3),
                "out": draw(st.booleans()), "reuse": draw(st.booleans()), "seed2": draw(st.integers(0, 2 ** 20)),
                "rebuild": draw(st.booleans()), "scribble": draw(st.booleans()), "world": world}
    return strat()


@st.composite
def sizes_st(draw):
    """Larger systems (N 64 ... 128, around a block size of 100) for one entry of any family: the call / repeat / deep-copy
    / overwrite-returned-arrays stages of check_single (no mutate-and-restore: cost)."""
    salt = draw(st.integers(0, 2 ** 20))
    fam = _pick(draw, sorted(FAMILIES), salt + 9)
    name = _pick(draw, _names(fam) or FAMILIES[fam], salt)
    fn = CATALOGUE[name]
    world = _world_for(draw, fn, fam, N_BIG, st.sampled_from([1, 2, 3]))
    world["K"] = min(world["K"], 3)
    world["variant"] = _pick(draw, ["plain", "plain", "plain", "pinned", "noncontig", "lab-gap"], salt + 4)
    return {"entry": name, "p": _pick(draw, range(len(fn.P)), salt + 2), "entry2": name,
            "p2": _pick(draw, range(len(fn.P)), salt + 3), "out": draw(st.booleans()), "reuse": draw(st.booleans()),
            "rebuild": False, "scribble": True, "world": world}


def check_single(case):
    name, name2 = case["entry"], case.get("entry2", case["entry"])
    fn, fn2 = CATALOGUE[name], CATALOGUE[name2]
    root = tempfile.mkdtemp(prefix="single-", dir=os.getcwd())
    try:
        w = World(root=os.path.join(root, "w"), **case["world"])
        tags = [name] + world_tags(case["world"])
        if not eligible(fn, w):
            return {"nontrivial": False, "tags": tags + ["not-eligible"], "extra": {"not_eligible": 1}}
        h = History(w, tags.append)
        reuse = bool(case["reuse"])
        key, r1 = h.call(name, case["p"], case["out"], reuse, "first call:")
        # something else in between (other parameters or another entry of the family), then the first call again
        key2 = (name2, case["p2"] % len(fn2.P), bool(case["out"] and fn2.has_out))
        between = key2 != key and eligible(fn2, w)
        if between:
            _, rb = h.call(name2, case["p2"], case["out"], reuse, "call in between:")
            tags.append("other-params-in-between" if name2 == name else "other-entry-in-between")
        h.call(name, case["p"], case["out"], reuse, "second call:")  # invariants (2) and (7) inside
        # deep copy of all inputs (same values, other object identities), calls in the opposite order
        w2 = World(root=os.path.join(root, "copy"), **case["world"])
        if w2.pristine != w.pristine:
            _fail("harness: world construction is not deterministic")
        if between:
            _, cb = run_entry(w2, name2, case["p2"], case["out"], None, "call on a deep copy:")
            m = same(rb, cb, "result")
            if m:
                _fail(f"{label(key2)} called after {label(key)} on the shared objects differs from the same call made first "
                      f"on a bit-identical deep copy of all inputs: {m}")
        _, r3 = run_entry(w2, name, case["p"], case["out"], None, "call on a deep copy:")
        m = same(r1, r3, "result")
        if m:
            _fail(f"{label(key)} on the shared objects differs from the same call on a bit-identical deep copy of all "
                  f"inputs: {m}")
        h.check_watch("the calls on a deep copy")
        # the caller overwrites the arrays it was handed, then calls again (new analysis objects)
        if case.get("scribble"):
            h.scribble()
            h.call(name, case["p"], case["out"], False, "call after the caller overwrote the returned arrays in place:")
            if between:
                h.call(name2, case["p2"], case["out"], False, "call after the caller overwrote the returned arrays in place:")
        # same values in freshly allocated objects: the result must not change
        if case.get("rebuild"):
            h.invalidate()
            w.rebuild()
            w.check_pure("rebuilding the shared objects (harness)")
            h.call(name, case["p"], case["out"], False, "call after re-allocating all inputs:")
            tags.append("rebuild-fresh-objects")
        # other values in the same objects
        if "seed2" in case:
            _, r5 = h.call(name, case["p"], case["out"], False, "call before overwriting the inputs in place:")
            h.invalidate()
            mutate_and_restore(w, name, case["p"], case["out"], case["seed2"], r5, os.path.join(root, "other"), tags.append)
        if key[2]:
            tags.append("with-output-file")
        if case["reuse"]:
            tags.append("object-reuse-allowed")
        if rejected(r1):
            return {"nontrivial": False, "tags": tags, "extra": {"rejected_input": 1}}
        return {"nontrivial": True, "tags": tags}
    finally:
        shutil.rmtree(root, ignore_errors=True)


def describe_single(case):
    return {"entry": case["entry"], "params": _params(case["entry"], case["p"]), "between": case.get("entry2"), "out": case["out"],
            "reuse": case["reuse"], "world": case["world"]}


# ============================================================================= method chains on one live analysis object

# families whose entries are methods of one analysis object that caches state between calls
CHAIN_FAMILIES = [f for f in ("s2", "nematic", "boo", "pair", "dyn", "hess") if f in FAMILIES]


@st.composite
def chain_st(draw):
    salt = draw(st.integers(0, 2 ** 20))
    fam = _pick(draw, CHAIN_FAMILIES, salt)
    first = _pick(draw, _names(fam) or FAMILIES[fam], salt + 1)
    world = _world_for(draw, CATALOGUE[first], fam)
    names = [n for n in FAMILIES[fam] if world["d"] in CATALOGUE[n].dims and (CATALOGUE[n].tri or world["cell"] == "ortho")]
    steps = [(first, _pick(draw, range(len(CATALOGUE[first].P)), salt + 2), draw(st.booleans()))]
    for k in range(draw(st.integers(3, 6))):
        n = _pick(draw, names, salt + 10 + k)
        steps.append((n, _pick(draw, range(len(CATALOGUE[n].P)), salt + 20 + k), draw(st.booleans())))
    return {"family": fam, "world": world, "steps": steps, "again": [draw(st.integers(0, 6)) for _ in range(2)],
            "scribble": draw(st.booleans())}


def check_chain(case):
    """All calls of the case go through ONE set of live analysis objects (reuse on): a drawn sequence of methods of one
    family, then two of the earlier calls once more.  Invariants (1), (2), (3), (7) after every call."""
    root = tempfile.mkdtemp(prefix="chain-", dir=os.getcwd())
    try:
        w = World(root=os.path.join(root, "w"), **case["world"])
        tags = [f"family-{case['family']}"] + world_tags(case["world"])
        h = History(w, tags.append)
        done = []
        for name, p, out in case["steps"]:
            if not eligible(CATALOGUE[name], w):
                tags.append("not-eligible")
                continue
            key, _ = h.call(name, p, out, True)
            done.append((name, p, out))
            tags.append(name)
        for k in case["again"]:
            if done:
                name, p, out = done[k % len(done)]
                h.call(name, p, out, True, "repeat at the end of the chain:")
        if case.get("scribble") and done:
            # the caller overwrites everything the chain returned; a NEW set of objects must reproduce the first results
            h.scribble()
            for name, p, out in done[:2]:
                h.call(name, p, out, True, "call through new objects after the caller overwrote the returned arrays:")
        tags.append(f"live-objects-{min(len(h.objs), 4)}{'+' if len(h.objs) > 4 else ''}")
        return {"nontrivial": bool(len({k for k in h.keys}) >= 2 and h.interleaved), "tags": tags}
    finally:
        shutil.rmtree(root, ignore_errors=True)


def describe_chain(case):
    return {"family": case["family"], "world": case["world"],
            "steps": [(n, _params(n, p), out) for n, p, out in case["steps"]], "again": case["again"]}


# ============================================================================= inventory / flag coverage / deterministic sweep

def _sweep_world(root, seed0=0, **kw):
    """The first world (seeds seed0, seed0 + 1, ...) in which Dynamics.sq4 is applicable with and without a condition."""
    for seed in range(seed0, seed0 + 200):
        w = World(root=root, seed=seed, **kw)
        if w.sq4_ok and w.sq4_ok_cond:
            return w
        shutil.rmtree(root, ignore_errors=True)
    raise RuntimeError(f"harness: no sweep world with a non-empty mobile subset for {kw}")


# (output files on/off too?, families or None = all): "full" worlds run every (entry, params, output on/off); the others
# every (entry, params) of the named families without output files
_TIME = ("dyn", "boo", "s2", "nematic", "vec", "cg")
_NONFINITE = ("dyn", "pair", "vec", "cg", "nematic", "boo", "s2", "misc")
_KARY_ONLY = ("gr.getresults", "gr.k-ary", "sq.getresults", "sq.k-ary")  # entry names: the methods that depend on K
SWEEP_WORLDS = [
    (True, None, dict(d=2, N=8, T=3, K=2, origin="arbitrary", cell="ortho", variant="plain")),
    # (seed0 = 1: dict arguments inserted in descending key order, descending column list)
    (True, None, dict(d=3, N=8, T=3, K=3, origin="zero", cell="ortho", variant="plain", seed0=1)),
    (False, None, dict(d=2, N=8, T=2, K=1, origin="centred", cell="tri", variant="lab-shift")),
    (False, None, dict(d=3, N=8, T=2, K=2, origin="sumzero", cell="tri", variant="lab-gap")),
    (False, ("pair", "s2", "dyn", "neigh", "order", "hess"), dict(d=2, N=8, T=2, K=2, origin="zero", cell="ortho", variant="lab-zero")),
    (False, _KARY_ONLY, dict(d=3, N=8, T=2, K=4, origin="zero", cell="ortho", variant="plain")),
    (False, _KARY_ONLY, dict(d=2, N=8, T=2, K=5, origin="zero", cell="ortho", variant="plain")),
    (False, _KARY_ONLY, dict(d=2, N=8, T=2, K=1, origin="zero", cell="ortho", variant="plain")),
    (False, ("pair", "s2", "dyn", "hess", "order"), dict(d=3, N=8, T=2, K=6, origin="arbitrary", cell="ortho", variant="plain", seed0=2)),
    (False, _TIME, dict(d=2, N=8, T=3, K=2, origin="zero", cell="ortho", variant="logtimes")),
    (False, _TIME, dict(d=3, N=8, T=3, K=1, origin="arbitrary", cell="tri", variant="logtimes")),
    (False, ("pair", "s2", "dyn", "neigh"), dict(d=3, N=8, T=3, K=2, origin="zero", cell="ortho", variant="perm-types")),
    (False, ("pair", "s2", "dyn", "neigh", "order", "hess", "voro"), dict(d=2, N=8, T=2, K=2, origin="centred", cell="ortho", variant="int32-types")),
    (False, ("pair", "neigh", "voro", "boo", "dyn", "order", "s2"), dict(d=3, N=8, T=2, K=2, origin="sumzero", cell="ortho", variant="noncontig")),
    # one frame / five frames; species labels within {1, 2} in 3D (the default diameters / radii / ppp describe the world)
    (False, None, dict(d=2, N=8, T=1, K=2, origin="arbitrary", cell="ortho", variant="plain", seed0=2)),
    (False, None, dict(d=3, N=8, T=1, K=1, origin="centred", cell="tri", variant="plain", seed0=1)),
    (True, _TIME + ("pair", "voro", "misc"), dict(d=3, N=8, T=5, K=2, origin="zero", cell="ortho", variant="plain", seed0=5)),
    (False, _TIME, dict(d=2, N=8, T=4, K=1, origin="arbitrary", cell="tri", variant="plain")),
    # partially periodic boxes, a repeated time step
    (False, ("pair", "neigh", "boo", "dyn", "order", "s2", "nematic", "cg", "misc", "hess"),
     dict(d=3, N=8, T=2, K=2, origin="zero", cell="tri", variant="mixed-ppp")),
    (False, ("pair", "neigh", "boo", "dyn", "order", "s2", "nematic", "cg", "misc", "hess"),
     dict(d=2, N=8, T=2, K=1, origin="arbitrary", cell="ortho", variant="mixed-ppp")),
    (False, _TIME, dict(d=2, N=8, T=3, K=2, origin="zero", cell="ortho", variant="dup-times")),
    (False, _TIME, dict(d=3, N=8, T=3, K=2, origin="zero", cell="ortho", variant="back-times")),
    (False, ("pair", "neigh", "boo", "dyn", "order", "s2", "cg", "hess", "vec"),
     dict(d=3, N=8, T=3, K=2, origin="arbitrary", cell="tri", variant="sheared")),
    (False, ("pair", "neigh", "boo", "dyn", "order", "s2", "nematic", "cg"),
     dict(d=2, N=8, T=2, K=1, origin="zero", cell="tri", variant="sheared", seed0=1)),
]
# larger systems on either side of a block size of 100 (first parameter set of every entry), a long trajectory
SWEEP_SIZES = [
    (False, None, dict(d=3, N=101, T=2, K=2, origin="arbitrary", cell="ortho", variant="plain"), 1),
    (False, None, dict(d=2, N=100, T=2, K=1, origin="centred", cell="tri", variant="plain"), 1),
    (False, None, dict(d=2, N=129, T=1, K=2, origin="zero", cell="ortho", variant="plain", seed0=1), 1),
    (False, _TIME, dict(d=2, N=8, T=8, K=2, origin="zero", cell="ortho", variant="plain")),
    (False, _TIME, dict(d=3, N=8, T=7, K=1, origin="arbitrary", cell="tri", variant="logtimes")),
]
# degenerate worlds (facet sweep_nonfinite): NaN / inf in the results -> with output files, and a second pass (repeats)
SWEEP_NONFINITE = [
    (True, _NONFINITE, dict(d=2, N=8, T=3, K=2, origin="zero", cell="ortho", variant="pinned")),
    (True, _NONFINITE, dict(d=3, N=8, T=3, K=1, origin="arbitrary", cell="ortho", variant="revisit")),
    (True, _NONFINITE, dict(d=2, N=8, T=3, K=2, origin="centred", cell="tri", variant="revisit", seed0=1)),
    (True, _NONFINITE, dict(d=3, N=8, T=3, K=2, origin="zero", cell="ortho", variant="zerofield")),
    (True, _NONFINITE, dict(d=2, N=8, T=2, K=1, origin="zero", cell="ortho", variant="zerofield")),
    (True, ("dyn",), dict(d=3, N=8, T=5, K=2, origin="zero", cell="tri", variant="revisit")),
    (True, ("dyn",), dict(d=2, N=8, T=4, K=2, origin="arbitrary", cell="ortho", variant="pinned")),
]


def _sweep_calls(outs, fams, w, maxp=None):
    for name, fn in CATALOGUE.items():
        if ONLY and name not in ONLY:
            continue
        if not eligible(fn, w) or (fams is not None and fn.fam not in fams and name not in fams):
            continue
        for p in range(min(len(fn.P), maxp or len(fn.P)) if fams is not _KARY_ONLY else 2):
            for out in ((False, True) if (fn.has_out and outs) else (False,)):
                yield name, p, out


def replay_sweep(case):
    if "entry" not in case:
        return
    root = tempfile.mkdtemp(prefix="sweep-", dir=os.getcwd())
    try:
        w = World(root=os.path.join(root, "w"), **case["world"])
        h = History(w)
        fresh = False
        for name, p, out in case.get("before", []) + [(case["entry"], case["p"], case["out"])]:
            if name == "<scribble>":
                h.scribble()
                fresh = True
            else:
                h.call(name, p, out, not fresh)
    finally:
        shutil.rmtree(root, ignore_errors=True)


def _sweep(worlds, root, tracer=None, tier="quick"):
    """Every (entry, params, output on/off) of the catalogue once per world of `worlds` -- and, in the worlds marked so, every
    (entry, params) a second time in the opposite order, so that each is REPEATED with the whole catalogue in between (2)
    -- all through ONE set of live analysis objects and one working directory per world, with invariants (1), (3), (7) after
    every call.  `tracer` (flag coverage): the first run of every (entry, params, out, d [, K for the K-ary methods]) goes through the
    profiler hook.  In the ordinary worlds that have a second pass a THIRD one follows: the caller overwrites everything returned
    so far (8), then every call again through new objects in an empty directory each.
    The harness runs finite enumerations under its line tracer (evidence of the code reached): kept for the first world,
    switched off afterwards (3.5 x CPU otherwise)."""
    import sys
    traced = set()
    if tier != "quick":  # thorough tier: every fixed world with three different contents (seeds)
        worlds = [(o, f, dict(kw, seed0=kw.get("seed0", 0) + 1000 * r), *rest) for r in range(3) for (o, f, kw, *rest) in worlds]
    for k, (outs, fams, kw, *rest) in enumerate(worlds):
        if k == 1:
            sys.settrace(None)
        if tracer is not None:
            with tracer:  # the harness constructs SingleSnapshot / Snapshots itself
                w = _sweep_world(os.path.join(root, f"w{k}"), **kw)
        else:
            w = _sweep_world(os.path.join(root, f"w{k}"), **kw)
        notes = []
        h = History(w, notes.append, stride=20)
        before = []
        todo = list(_sweep_calls(outs, fams, w, *rest))
        npass = len([c for c in todo if not c[2]])
        if outs:  # second pass in the opposite order: every call without output file is then a REPEAT (invariant 2)
            todo += [c for c in reversed(todo) if not c[2]]
            if kw["variant"] == "plain":
                # third pass (8): the caller first overwrites everything returned so far; every call again, new objects
                todo += [("<scribble>", 0, False)] + todo[-npass:][::-1]
        name = p = out = None
        for name, p, out in todo:
            if name == "<scribble>":
                h.scribble()
                before.append((name, p, out))
                continue
            case = {"world": dict(w.kw), "entry": name, "p": p, "out": out, "before": list(before)}
            tkey = (name, p, out, w.d, w.K if name in _KARY_ONLY else 0, w.T == 1)
            fresh = ("<scribble>", 0, False) in before  # third pass: new objects, and an empty working directory per call
            try:
                if tracer is not None and tkey not in traced:
                    traced.add(tkey)
                    tracer.current = name
                    with tracer:
                        _, res = h.call(name, p, out, True)
                else:
                    _, res = h.call(name, p, out, not fresh)
            except Violation as v:
                v.case = case
                raise
            except Exception as e:  # noqa: BLE001
                e.case = case
                raise
            # only the calls that returned arrays can matter for later steps of a replay
            if has_arrays(res):
                before.append((name, p, out))
            yield {k2: v for k2, v in case.items() if k2 != "before"}, {
                "nontrivial": not rejected(res), "tags": ["sweep:" + name, f"sweep-world-{kw['variant']}", f"sweep-world-T{w.T}"]
                + ([REJECTED] if rejected(res) and REJECTED not in notes else [])
                + [t for t in notes if not t.startswith(REJECTED + ":")], "extra": {"sweep_calls": 1}}
            del notes[:]
        try:
            h.check_watch("the last call of the sweep", full=True)
        except Violation as v:
            v.case = {"world": dict(w.kw), "entry": name, "p": p, "out": out, "before": list(before)}
            raise
        shutil.rmtree(w.root, ignore_errors=True)


def gen_sweep_nonfinite(tier):
    """The deterministic sweep of `_sweep` in the degenerate worlds (pinned particles, revisited frames, zero fields): the
    results contain NaN / inf, so repeat-equality (NaN == NaN positionally) and the file round trips (NaN / inf tokens,
    .npy) are exercised on non-finite values, every call once with and once without output file and once more as a repeat."""
    root = tempfile.mkdtemp(prefix="sweep-", dir=os.getcwd())
    try:
        yield from _sweep(SWEEP_NONFINITE, root, tier=tier)
    finally:
        shutil.rmtree(root, ignore_errors=True)


def gen_sweep_sizes(tier):
    """The deterministic sweep of `_sweep` on two larger systems (N = 100 and 101: either side of a block size of 100; first
    parameter set of every entry) and on two long trajectories (8 and 7 frames, the time-dependent families)."""
    root = tempfile.mkdtemp(prefix="sweep-", dir=os.getcwd())
    try:
        yield from _sweep(SWEEP_SIZES, root, tier=tier)
    finally:
        shutil.rmtree(root, ignore_errors=True)


def gen_sweep(tier):
    """(a) every (entry, params, output on/off) of the catalogue once -- and in the ordinary worlds marked so every (entry,
    params) a second time in the opposite order -- in fixed small worlds (two ordinary ones in full, two with unusual species
    labels, three for the 1-, 4- and 5-species methods, one-frame and five-frame trajectories, one or two per other
    off-domain variant for the families it concerns), see `_sweep`;  (b) while that runs, a profiler hook records which public
    callables of PyMatterSim are entered and with which flag values;  (c) the API inventory and the flag coverage are
    reported, and a flag of a catalogued routine that no entry varies is raised as a HARNESS error."""
    inv, broken = inventory()
    tracer = CallTracer(inv)
    root = tempfile.mkdtemp(prefix="sweep-", dir=os.getcwd())
    try:
        yield from _sweep(SWEEP_WORLDS, root, tracer, tier=tier)
    finally:
        shutil.rmtree(root, ignore_errors=True)

    # ---- (c) inventory
    covered_by = {}
    for ename, quals in tracer.by_entry.items():
        for q in quals:
            covered_by.setdefault(q, []).append(ename)
    for q in sorted(inv):
        if q in tracer.direct:
            tag = f"inventory: exercised: {q.replace('PyMatterSim.', '')} <- " + ", ".join(sorted(covered_by.get(q, ["(world construction)"]))[:5])
            extra = {"inventory_exercised": 1}
        elif q in tracer.indirect:
            tag = f"inventory: only reached through other routines: {q}"
            extra = {"inventory_only_indirect": 1}
        elif q in NOT_RUNNABLE:
            tag, extra = f"inventory: NOT exercised: {q} -- {NOT_RUNNABLE[q]}", {"inventory_uncovered_with_reason": 1}
        else:
            tag = f"inventory: NOT exercised: {q} -- no catalogue entry (added to the library after the catalogue was written?)"
            extra = {"inventory_uncovered_unexplained": 1}
        extra["inventory_total"] = 1
        yield {"callable": q, "entries": sorted(covered_by.get(q, []))[:6]}, {"nontrivial": q in tracer.direct, "tags": [tag], "extra": extra}
    for mname, why in sorted({**SKIP_MODULES, **broken}.items()):
        yield {"module": mname}, {"nontrivial": False, "tags": [f"inventory: module skipped: {mname} -- {why}"],
                                  "extra": {"inventory_modules_skipped": 1}}

    # ---- (c) flags
    missing_all = []
    for q, p, want, seen, missing, exempt in flag_report(inv, tracer):
        tags = [f"flag {q.replace('PyMatterSim.', '')}({p}): {len(want) - len(missing) - len(exempt)}/{len(want)} values exercised"]
        for r, why in exempt.items():
            tags.append(f"flag-exempt {q.replace('PyMatterSim.', '')}({p}={r}) -- {why}")
        yield {"flag": f"{q}({p})", "values": want, "seen": seen}, {
            "nontrivial": not missing, "tags": tags,
            "extra": {"flags_total": 1, "flags_all_values_exercised": int(not missing and not exempt), "flags_with_exemption": int(bool(exempt))}}
        if missing:
            missing_all.append(f"{q}({p}): value(s) {missing} never passed (seen: {seen})")
    if missing_all and not ONLY:
        raise RuntimeError("harness: flag parameters of catalogued routines that no entry varies over all documented values "
                           "(add parameter sets to the entry in c18_entries.py or list the value in c18_inventory.FLAG_EXEMPT "
                           "with a reason):\n  " + "\n  ".join(missing_all))


def describe_sweep(case):
    return case


# ============================================================================= facets

_SINGLE_N = {"pair": (72, 5000), "neigh": (46, 3400), "voro": (40, 1300), "boo": (84, 3400), "dyn": (76, 3600),
             "vec": (60, 4200), "cg": (40, 2600), "order": (40, 2600), "s2": (44, 2600), "nematic": (40, 2600),
             "hess": (40, 1800), "misc": (46, 3400), "utils": (44, 2600), "reader": (30, 1800)}
_SINGLE_SH = {"pair": 4, "boo": 4, "voro": 2, "dyn": 2, "vec": 2, "s2": 2}

FACETS = [
    Facet("machine", machine=PurityMachine, quick=132, thorough=6000, steps=10, describe=describe_machine, shards_quick=6,
          rule="call histories on one shared world (steps: call / repeat / vary parameters / rebuild inputs as fresh objects / "
               "mutate-and-restore); non-trivial = >= 2 different entry points and >= 1 repeated "
               "(entry, params, out) call with another call in between"),
    Facet("chains", chain_st(), check_chain, quick=100, thorough=6000, describe=describe_chain, shards_quick=4,
          rule="4-7 drawn methods of one family (" + ", ".join(CHAIN_FAMILIES) + ") on ONE set of live analysis objects, then two "
               "of the earlier calls again; non-trivial = >= 2 different calls and a repeated call with another one in between"),
    Facet("flag_coverage", check=gen_sweep, exhaustive=True, describe=describe_sweep,
          rule="deterministic sweep: every (entry, parameter set, output on/off) once through shared live objects in fixed "
               "worlds; API inventory by introspection with measured coverage; every bool / Enum / documented-choice keyword "
               "of every directly exercised callable must have taken all its values (else HARNESS error)"),
    Facet("sweep_nonfinite", check=gen_sweep_nonfinite, exhaustive=True, describe=describe_sweep,
          rule="the deterministic sweep in the degenerate worlds (pinned particles / revisited frames / zero fields): every "
               "(entry, parameter set) of the families concerned with and without output file and once more as a repeat; "
               "non-trivial = the call returned (was not refused)"),
    Facet("sweep_sizes", check=gen_sweep_sizes, exhaustive=True, describe=describe_sweep,
          rule="the deterministic sweep on two larger systems (N = 100, 101; first parameter set of every entry) and two long "
               "trajectories (8 and 7 frames; time-dependent families)"),
    Facet("sizes", sizes_st(), check_single, quick=10, thorough=480, describe=describe_single, shards_quick=2,
          rule="one entry of any family on a larger system (N = B - 1, B, B + 1 for block sizes B = 64, 100, 128; 1-3 frames): call / purity / other "
               "parameters / call again / deep copy / caller overwrites the returned arrays / call again"),
    Facet("machine_deep", machine=PurityMachineDeep, quick=0, thorough=1200, steps=30, describe=describe_machine,
          rule="thorough tier only: the histories of `machine` with up to 30 steps, 1-8 frames, N up to 40 (sometimes 64-150)"),
] + [
    Facet(f"single_{fam}", single_st(fam), check_single, quick=_SINGLE_N.get(fam, (60, 3000))[0],
          thorough=_SINGLE_N.get(fam, (60, 3000))[1],
          describe=describe_single, shards_quick=_SINGLE_SH.get(fam, 1),
          rule=f"one entry of family '{fam}' ({', '.join(FAMILIES[fam])}): call / purity / another call of the family / call again / "
               f"both calls on a deep copy in the opposite order; non-trivial = the entry is applicable to the drawn world")
    for fam in FAMILIES
]
for _f in FACETS:
    if _f.kind == "enum":
        _f.replay = replay_sweep
