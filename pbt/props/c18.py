"""C18 -- analyses are pure: inputs are never modified, repeated calls agree regardless of what ran in between, output
files hold the returned values to the written precision.

History facet `machine`: a Hypothesis rule-based state machine over ONE shared world per history (c18_world.World:
wrapped + unwrapped Snapshots of the same trajectory, an orientation Snapshots in 2D, shared per-particle fields,
parameter matrices, synthetic neighbour / weight files).  Rules = "call public entry point X with drawn parameters"
(catalogue in c18_entries.py, 50+ entry points).  After EVERY step:
  (1) every array reachable from the snapshots and every argument array has the dtype, shape and bytes of its pristine
      copy; input files and dict arguments are unchanged                                   [World.check_pure]
  (2) if (X, params, out) was called before in this history the result equals the stored one bit-for-bit
  (3) a requested output file parses back to the returned values at the written precision   [inside each entry]
  (4) (sometimes, `dup`) the same call on a bit-identical deep copy of the inputs (a second world rebuilt from the same
      arguments: different object identities, same values) gives the identical result -- "same inputs => same results"
      with respect to the values of the inputs, which exposes caches keyed by object identity.
  (5) step kind `rebuild`: every shared array (and the Snapshots / SingleSnapshot objects) is replaced by a value-equal,
      freshly allocated one; repeated (X, params) calls made afterwards must still reproduce the stored results
      bit-for-bit (same VALUES in a different object).
  (6) step kind `mutate-and-restore` (rules r_mut_<family>): call X on contents A; overwrite the SAME array objects and
      input files in place with the contents B of a second world of identical structure (no library call in between);
      call X again -> must equal X on a freshly built B; write A back in place; call X -> must equal the first result
      (different values in the SAME object: memos keyed on object identity / shape / file name).
Analysis objects (gr / sq / boo_3d / boo_2d / Dynamics / LogDynamics instances) are, when `reuse` is drawn, kept alive
and shared between calls of the history, as in an interactive session; the expected result does not depend on it.

Facets `single_<family>`: for one catalogue entry drawn at random: call - check purity - another call of the family -
call again - compare - both on a deep copy in the opposite order - compare - (re-allocate all inputs, call, compare) -
mutate-and-restore as in (6).  Cheap, high volume, and a defect of one entry point is reported per family, separately from
the history facet.
"""
from __future__ import annotations

import os
import shutil
import tempfile
import warnings

import numpy as np
from hypothesis import strategies as st
from hypothesis.stateful import initialize, invariant, precondition, rule

from ..harness import Facet, RecordingMachine, Violation
from .c18_entries import CATALOGUE, FAMILIES, Ctx, eligible
from .c18_world import ORIGINS, World, same

RULE = ("histories of <= 10 calls of public analysis entry points (catalogue of %d, grouped in %d families) on one shared "
        "world: d in {2,3}, N 8..16, 2..3 frames, K 1..3 species, box origin in {zero, centred on the origin, bounds "
        "summing to zero, arbitrary}, orthogonal or (where the routine documents it) triclinic cell; parameters from "
        "small finite sets, 'repeat an earlier call' rules, optional output files, optional reuse of analysis objects, "
        "optional deep-copy differential, 'rebuild all inputs as fresh value-equal objects' steps and 'overwrite the inputs "
        "in place with other contents / call / restore / call' steps.  Non-trivial history = >= 2 different entry points and >= 1 repeated "
        "(entry, params, out) call with at least one other call in between."
        % (len(CATALOGUE), len(FAMILIES)))
ASSUMPTIONS = [
    "bulk coordinates / fields come from numpy.random.default_rng seeded with Hypothesis-drawn integers (pure function "
    "of the seed; shrinks in the discrete choices, not in the coordinates)",
    "results are compared with themselves only (no reference values): a routine that is consistently wrong is the "
    "business of C03-C20, not of this check",
    "VolumeMatrix is called with transform_matrix=False only (A A^T is singular by volume conservation, so the "
    "transformed matrix has no contract, cf. C20); OMP_NUM_THREADS=1 (set by ./check) for freud",
    "Dynamics.sq4 is called only for (mode, cal_type) whose mobile subset is non-empty in every origin frame",
    "equality of results is array_equal with NaN == NaN (0.0 == -0.0 accepted); equality of inputs is byte equality",
    "mutate-and-restore treats the snapshot arrays like any other array argument: after an in-place update of their "
    "contents a NEW analysis object / call must see the new contents (analysis objects built before the update are "
    "not used across it)",
    "output files are compared at the precision of each written token (half a unit of its last digit), not at a "
    "format string copied from the current source",
]
MANIFEST = {
    "text": "Purity / repeatability of %d public analysis entry points: machine facet = generated call histories on "
            "shared snapshots with byte-level input invariants, repeat-call equality, output-file round trips and a "
            "deep-copy differential, re-allocation of all inputs and in-place overwrite/restore of all inputs; single_* "
            "facets = the same checks per entry point in isolation." % len(CATALOGUE),
    "note": "Self-consistency only (no reference values). Trusted: numpy/pandas readers used to parse the output "
            "files, Hypothesis. voro++ wrapper (needs an external binary), GSD/DCD readers and the LAMMPS dump readers "
            "are not in the catalogue (C01/C19 cover the readers).",
    "technique": "property-based testing (Hypothesis): stateful model-based (rule-based state machine with invariants "
                 "over a shared world) + per-entry metamorphic (call twice / call on a deep copy) + file round trip",
}

ONLY = [s for s in os.environ.get("C18_ONLY", "").split(",") if s]  # debugging aid: restrict the catalogue


def _names(fam):
    return [n for n in FAMILIES[fam] if not ONLY or n in ONLY]


def _fail(msg):
    raise Violation(msg)


def run_entry(w, name, p, out, objs, tag):
    """One call of a catalogue entry in a fresh output directory (cwd during the call).  Returns (key, result)."""
    fn = CATALOGUE[name]
    q = fn.P[p % len(fn.P)]
    out = bool(out and fn.has_out)
    key = (name, p % len(fn.P), out)
    calldir = tempfile.mkdtemp(prefix="call-", dir=w.root)
    old = os.getcwd()
    os.chdir(calldir)
    try:
        # 0/0 -> NaN in degenerate bins etc. is a value (compared as such), not an event: silence the warnings
        with warnings.catch_warnings(), np.errstate(all="ignore"):
            warnings.simplefilter("ignore")
            res = fn(w, q, out, Ctx(objs))
    finally:
        os.chdir(old)
        shutil.rmtree(calldir, ignore_errors=True)
    w.check_pure(f"{tag} {name}({q}, out={out})")
    return key, res


def mutate_and_restore(w, entry, p, out, seed2, r1, root2, tag):
    """r1 = result of entry(p) on w (contents A, just computed).  Overwrite the SAME array objects / input files in
    place with the contents of another world B, call again (must equal the call on a freshly built B), write A back in
    place, call again (must equal r1).  Nothing of the library runs between the first and the second call."""
    fn = CATALOGUE[entry]
    other = World(root=root2, like=w, **dict(w.kw, seed=int(seed2) + int(w.kw["seed"]) + 1))
    try:
        if other.pristine == w.pristine or not eligible(fn, other):
            tag("mutate-skipped")
            return
        key = (entry, p % len(fn.P), bool(out and fn.has_out))
        w.mutate_to(other)
        try:
            _, r2 = run_entry(w, entry, p, out, None, "call after overwriting the inputs in place:")
        finally:
            w.restore()
        w.check_pure("restoring the inputs in place (harness)")
        _, rb = run_entry(other, entry, p, out, None, "call on freshly built inputs:")
        m = same(r2, rb, "result")
        if m:
            _fail(f"{label(key)}: after the contents of the SAME input objects were overwritten in place, the call does not "
                  f"return what it returns for freshly allocated inputs with those contents (state carried over from the "
                  f"previous call?): {m}")
        _, r3 = run_entry(w, entry, p, out, None, "call after restoring the inputs in place:")
        m = same(r1, r3, "result")
        if m:
            _fail(f"{label(key)}: first call and the call after (overwrite in place, call, restore in place) differ: {m}")
        tag("mutate-and-restore")
        if same(r1, r2, "result") is None:
            tag("mutate-same-result")
    finally:
        shutil.rmtree(root2, ignore_errors=True)


def label(key):
    name, p, out = key
    return f"{name}({CATALOGUE[name].P[p]}, out={out})"


# ============================================================================= history facet

WORLD_KW = dict(seed=st.integers(0, 2 ** 20), d=st.sampled_from([2, 3]), N=st.integers(8, 16), T=st.sampled_from([2, 3]),
                K=st.sampled_from([1, 2, 2, 3]), origin=st.sampled_from(ORIGINS),
                cell=st.sampled_from(["ortho", "ortho", "ortho", "tri"]),
                # families this history concentrates on (a session works with a few analyses, and order-dependent
                # defects need the same objects to meet repeatedly); 0 = all families
                focus=st.one_of(st.just(0), st.integers(1, 2 ** 20)))
CALL_KW = dict(which=st.integers(0, 2 ** 16), p=st.integers(0, 5), out=st.booleans(), reuse=st.booleans(),
               dup=st.booleans())


class PurityMachine(RecordingMachine):
    def __init__(self):
        super().__init__()
        self.w = None
        self.w2 = None
        self.root = None
        self.objs = {}
        self.calls = []     # (key, kwargs) in call order
        self.store = {}     # key -> (first result, index of first call)
        self.flags = {"repeat": False, "interleaved": False}
        self.last_result = None

    # ---- set-up
    @initialize(**WORLD_KW)
    def r_init(self, **kw):
        self.step("init", **kw)
        self.do_init(**kw)

    def do_init(self, focus=0, **kw):
        self.root = tempfile.mkdtemp(prefix="hist-", dir=os.getcwd())
        self.w = World(root=os.path.join(self.root, "w"), **kw)
        self.wkw = kw
        self.fam = {f: [n for n in _names(f) if eligible(CATALOGUE[n], self.w)] for f in FAMILIES}
        if not any(self.fam.values()):  # only possible with the C18_ONLY debugging filter
            self.fam = {f: [n for n in FAMILIES[f] if eligible(CATALOGUE[n], self.w)] for f in FAMILIES}
        if focus:
            live = sorted(f for f, v in self.fam.items() if v)
            k, keep = focus, []
            for _ in range(min(3, len(live))):
                keep.append(live.pop(k % len(live)))
                k //= 7
            self.fam = {f: (v if f in keep else []) for f, v in self.fam.items()}
            self.tag("focus-3-families")
        else:
            self.tag("focus-all")
        for t in (f"d{kw['d']}", f"origin-{kw['origin']}", f"cell-{kw['cell']}", f"K{kw['K']}", f"T{kw['T']}",
                  f"N{'8-11' if kw['N'] < 12 else '12-16'}"):
            self.tag(t)

    def teardown(self):
        if not self.calls:
            self._failed = True  # Hypothesis cut the run before the first call: not an evaluated history
        if self.root:
            shutil.rmtree(self.root, ignore_errors=True)
        super().teardown()

    # ---- the one real operation
    def do_call(self, entry, p, out, reuse, dup):
        w = self.w
        if entry not in CATALOGUE or not eligible(CATALOGUE[entry], w):
            _fail(f"harness: entry {entry!r} not eligible in this world")  # cannot happen (rules resolve names)
        key, res = run_entry(w, entry, p, out, self.objs if reuse else None, f"step {len(self.calls) + 1}:")
        idx = len(self.calls)
        self.calls.append((key, dict(entry=entry, p=p, out=out, reuse=reuse, dup=dup)))
        self.tag(entry)
        if key[2]:
            self.tag("with-output-file")
        if reuse:
            self.tag("object-reuse-allowed")
        if key in self.store:
            first, first_idx = self.store[key]
            m = same(first, res, "result")
            if m:
                between = [label(k) for k, _ in self.calls[first_idx + 1:idx]]
                _fail(f"repeated call {label(key)} (call {idx + 1}, first made as call {first_idx + 1}) returned a different "
                      f"result: {m}; calls in between: {between}")
            self.flags["repeat"] = True
            self.tag("repeat")
            if any(k != key for k, _ in self.calls[first_idx + 1:idx]):
                self.flags["interleaved"] = True
                self.tag("repeat-interleaved")
        else:
            self.store[key] = (res, idx)
        self.last_result = res
        if dup:
            if self.w2 is None:
                self.w2 = World(root=os.path.join(self.root, "copy"), **self.wkw)
                if self.w2.pristine != w.pristine:
                    _fail("harness: world construction is not deterministic")
            _, res2 = run_entry(self.w2, entry, p, out, None, f"step {idx + 1} (deep copy):")
            m = same(res, res2, "result")
            if m:
                _fail(f"{label(key)} (call {idx + 1}) on the shared objects differs from the same call on a bit-identical deep "
                      f"copy of all inputs: {m}; earlier calls: {[label(k) for k, _ in self.calls[:idx]]}")
            self.tag("deep-copy-differential")
        self.info["nontrivial"] = bool(len({k[0] for k, _ in self.calls}) >= 2 and self.flags["interleaved"])

    # ---- same values in freshly allocated objects
    @precondition(lambda self: bool(self.calls))
    @rule()
    def r_rebuild(self):
        self.step("rebuild")
        self.do_rebuild()

    def do_rebuild(self):
        """Every shared array is replaced by a value-equal, freshly allocated one (new Snapshots objects too); kept
        analysis objects are dropped.  Results of repeated (X, params) calls must still be bit-identical (the store of
        earlier results is kept)."""
        self.w.rebuild()
        self.objs.clear()
        self.w.check_pure("rebuilding the shared objects (harness)")
        self.tag("rebuild-fresh-objects")

    # ---- other values in the same objects
    def do_mutres(self, entry, p, out, seed2):
        self.do_call(entry=entry, p=p, out=out, reuse=False, dup=False)
        r1 = self.last_result
        mutate_and_restore(self.w, entry, p, out, seed2, r1, os.path.join(self.root, f"other-{len(self.calls)}"),
                           lambda t: self.tag(t))

    def _mutres_rule(self, fam, which, p, out, seed2):
        names = self.fam[fam]
        entry = names[_mix(which + 7919 * self.wkw["seed"] + 104729 * len(self.calls) + 31 * self.wkw["N"]) % len(names)]
        kw = dict(entry=entry, p=p, out=out, seed2=seed2)
        self.step("mutres", **kw)
        self.do_mutres(**kw)

    def _family_rule(self, fam, which, p, out, reuse, dup):
        names = self.fam[fam]
        entry = names[_mix(which + 7919 * self.wkw["seed"] + 104729 * len(self.calls) + 31 * self.wkw["N"]) % len(names)]
        kw = dict(entry=entry, p=p, out=out, reuse=reuse, dup=dup)
        self.step("call", **kw)
        self.do_call(**kw)

    def _repeat_rule(self, idx, fresh):
        # prefer an earlier call that differs from the last one, so that something else ran in between
        last = self.calls[-1][0]
        cands = [c for c in self.calls[:-1] if c[0] != last] or self.calls
        _, kw = cands[_mix(idx + 31 * self.wkw["seed"]) % len(cands)]
        kw = dict(kw)
        if fresh:
            kw["reuse"] = not kw["reuse"]  # same inputs through a fresh / a kept analysis object
        self.step("call", **kw)
        self.do_call(**kw)

    def _vary_rule(self, idx, shift):
        """An earlier entry again with other parameters (and the deep-copy differential): results must depend on the
        parameters of this call, not on what an earlier call with the same objects left behind."""
        _, kw = self.calls[_mix(idx + 31 * self.wkw["seed"]) % len(self.calls)]
        kw = dict(kw, p=kw["p"] + 1 + shift, dup=True)
        self.step("call", **kw)
        self.do_call(**kw)

    # ---- invariants (purity is checked inside run_entry right after the call; here once more for the whole state)
    def check_invariants_now(self):
        if self.w is not None:
            self.w.check_pure("the last step")
        if self.w2 is not None:
            self.w2.check_pure("the last step (deep copy)")

    @invariant()
    def inv(self):
        self.check_invariants_now()


def _add_rules():
    for fam in FAMILIES:
        def mk(fam):
            @precondition(lambda self: self.w is not None and bool(self.fam.get(fam)))
            @rule(**CALL_KW)
            def r(self, which, p, out, reuse, dup):
                self._family_rule(fam, which, p, out, reuse, dup)
            r.__name__ = f"r_{fam}"
            return r
        setattr(PurityMachine, f"r_{fam}", mk(fam))
    for fam in FAMILIES:
        def mkmut(fam):
            @precondition(lambda self: self.w is not None and bool(self.fam.get(fam)))
            @rule(which=st.integers(0, 2 ** 16), p=st.integers(0, 5), out=st.booleans(), seed2=st.integers(0, 2 ** 20))
            def r(self, which, p, out, seed2):
                self._mutres_rule(fam, which, p, out, seed2)
            r.__name__ = f"r_mut_{fam}"
            return r
        setattr(PurityMachine, f"r_mut_{fam}", mkmut(fam))
    for k in range(3):
        def mkrep(k):
            @precondition(lambda self: bool(self.calls))
            @rule(idx=st.integers(0, 9), fresh=st.booleans())
            def r(self, idx, fresh):
                self._repeat_rule(idx, fresh)
            r.__name__ = f"r_repeat{k}"
            return r
        setattr(PurityMachine, f"r_repeat{k}", mkrep(k))
    for k in range(2):
        def mkvar(k):
            @precondition(lambda self: bool(self.calls))
            @rule(idx=st.integers(0, 9), shift=st.integers(0, 2))
            def r(self, idx, shift):
                self._vary_rule(idx, shift)
            r.__name__ = f"r_vary{k}"
            return r
        setattr(PurityMachine, f"r_vary{k}", mkvar(k))


_add_rules()


def describe_machine(log):
    out = []
    for name, kw in log:
        if name == "init":
            out.append(("init", kw))
        elif name == "rebuild":
            out.append(("rebuild",))
        elif name == "mutres":
            out.append(("mutate-and-restore", kw["entry"], CATALOGUE[kw["entry"]].P[kw["p"] % len(CATALOGUE[kw["entry"]].P)]))
        else:
            out.append((kw["entry"], CATALOGUE[kw["entry"]].P[kw["p"] % len(CATALOGUE[kw["entry"]].P)],
                        {k: kw[k] for k in ("out", "reuse", "dup")}))
    return out


# ============================================================================= single-call facets


def _mix(k):
    """Multiplicative hash: Hypothesis favours small and repeated integers; this spreads them over the catalogue."""
    return ((int(k) * 2654435761) >> 8) & 0xFFFFFF


def _pick(draw, seq, salt=0):
    """Near-uniform choice (sampled_from / small integers concentrate on few elements at small case counts)."""
    return seq[_mix(draw(st.integers(0, 2 ** 16)) + salt) % len(seq)]


def single_st(fam):
    @st.composite
    def strat(draw):
        seed, N, T = draw(st.integers(0, 2 ** 20)), draw(st.integers(8, 16)), draw(st.sampled_from([2, 3]))
        K = draw(st.sampled_from([1, 2, 2, 3]))
        salt = 7919 * seed + 31 * N + 5 * T + K
        name = _pick(draw, _names(fam) or FAMILIES[fam], salt)
        fn = CATALOGUE[name]
        d = draw(st.sampled_from(list(fn.dims)))
        cell = draw(st.sampled_from(["ortho", "ortho", "tri"])) if fn.tri else "ortho"
        origin = draw(st.sampled_from(ORIGINS + (("centred", "sumzero") if fam == "voro" else ())))
        # the call made in between: the same entry with other parameters, or another entry of the family (they share
        # analysis objects when `reuse` is drawn)
        others = [n for n in FAMILIES[fam] if d in CATALOGUE[n].dims and (CATALOGUE[n].tri or cell == "ortho")]
        name2 = _pick(draw, [name] + others, salt + 1)
        return {"entry": name, "p": _pick(draw, range(len(fn.P)), salt + 2), "entry2": name2,
                "p2": _pick(draw, range(len(CATALOGUE[name2].P)), salt + 3),
                "out": draw(st.booleans()), "reuse": draw(st.booleans()), "seed2": draw(st.integers(0, 2 ** 20)),
                "rebuild": draw(st.booleans()),
                "world": dict(seed=seed, d=d, N=N, T=T, K=K, origin=origin, cell=cell)}
    return strat()


def check_single(case):
    name, name2 = case["entry"], case.get("entry2", case["entry"])
    fn, fn2 = CATALOGUE[name], CATALOGUE[name2]
    root = tempfile.mkdtemp(prefix="single-", dir=os.getcwd())
    try:
        w = World(root=os.path.join(root, "w"), **case["world"])
        tags = [name, f"d{w.d}", f"origin-{w.origin}", f"cell-{w.cellkind}", f"K{w.K}"]
        if not eligible(fn, w):
            return {"nontrivial": False, "tags": tags + ["not-eligible"], "extra": {"not_eligible": 1}}
        objs = {} if case["reuse"] else None
        key, r1 = run_entry(w, name, case["p"], case["out"], objs, "first call:")
        # something else in between (other parameters or another entry of the family), then the first call again
        key2 = (name2, case["p2"] % len(fn2.P), bool(case["out"] and fn2.has_out))
        between = key2 != key and eligible(fn2, w)
        if between:
            _, rb = run_entry(w, name2, case["p2"], case["out"], objs, "call in between:")
            tags.append("other-params-in-between" if name2 == name else "other-entry-in-between")
        _, r2 = run_entry(w, name, case["p"], case["out"], objs, "second call:")
        m = same(r1, r2, "result")
        if m:
            _fail(f"{label(key)} called twice with the same inputs returned different results: {m}"
                  + (f"; call in between: {label(key2)}" if between else ""))
        # deep copy of all inputs (same values, other object identities), calls in the opposite order
        w2 = World(root=os.path.join(root, "copy"), **case["world"])
        if w2.pristine != w.pristine:
            _fail("harness: world construction is not deterministic")
        if between:
            _, cb = run_entry(w2, name2, case["p2"], case["out"], None, "call on a deep copy:")
            m = same(rb, cb, "result")
            if m:
                _fail(f"{label(key2)} called after {label(key)} on the shared objects differs from the same call made first "
                      f"on a bit-identical deep copy of all inputs: {m}")
        _, r3 = run_entry(w2, name, case["p"], case["out"], None, "call on a deep copy:")
        m = same(r1, r3, "result")
        if m:
            _fail(f"{label(key)} on the shared objects differs from the same call on a bit-identical deep copy of all "
                  f"inputs: {m}")
        # same values in freshly allocated objects: the result must not change
        if case.get("rebuild"):
            w.rebuild()
            w.check_pure("rebuilding the shared objects (harness)")
            _, r4 = run_entry(w, name, case["p"], case["out"], None, "call after re-allocating all inputs:")
            m = same(r1, r4, "result")
            if m:
                _fail(f"{label(key)} differs after every input array was replaced by a value-equal, freshly allocated one: {m}")
            tags.append("rebuild-fresh-objects")
        # other values in the same objects
        if "seed2" in case:
            _, r5 = run_entry(w, name, case["p"], case["out"], None, "call before overwriting the inputs in place:")
            m = same(r1, r5, "result")
            if m:
                _fail(f"{label(key)} called again with the same inputs returned different results: {m}")
            mutate_and_restore(w, name, case["p"], case["out"], case["seed2"], r5, os.path.join(root, "other"), tags.append)
        if key[2]:
            tags.append("with-output-file")
        if case["reuse"]:
            tags.append("object-reuse-allowed")
        return {"nontrivial": True, "tags": tags}
    finally:
        shutil.rmtree(root, ignore_errors=True)


def describe_single(case):
    fn = CATALOGUE[case["entry"]]
    return {"entry": case["entry"], "params": fn.P[case["p"] % len(fn.P)], "between": case.get("entry2"), "out": case["out"],
            "reuse": case["reuse"], "world": case["world"]}


_SINGLE_N = {"pair": (120, 6000), "neigh": (80, 4000), "voro": (60, 1500), "boo": (160, 4000), "dyn": (100, 4000),
             "vec": (120, 5000), "cg": (60, 3000), "order": (100, 4000), "hess": (40, 2000), "misc": (80, 4000)}
_SINGLE_SH = {"pair": 4, "boo": 4, "voro": 2, "dyn": 2, "vec": 2}

FACETS = [
    Facet("machine", machine=PurityMachine, quick=180, thorough=6000, steps=10, describe=describe_machine, shards_quick=6,
          rule="call histories on one shared world (steps: call / repeat / vary parameters / rebuild inputs as fresh objects / "
               "mutate-and-restore); non-trivial = >= 2 different entry points and >= 1 repeated "
               "(entry, params, out) call with another call in between"),
] + [
    Facet(f"single_{fam}", single_st(fam), check_single, quick=_SINGLE_N[fam][0], thorough=_SINGLE_N[fam][1],
          describe=describe_single, shards_quick=_SINGLE_SH.get(fam, 1),
          rule=f"one entry of family '{fam}' ({', '.join(FAMILIES[fam])}): call / purity / another call of the family / call again / "
               f"both calls on a deep copy in the opposite order; non-trivial = the entry is applicable to the drawn world")
    for fam in FAMILIES
]
