"""C19 — header writers, auxiliary readers, GSD/DCD conversion and the LAMMPS log reader agree on the same data.

All oracles are round trips against the record of what was written: the text handed to a reader is parsed by the
independent mini-parsers of `pbt/ref/io19.py` (raw decimal tokens), the expected values are float() of those
tokens.  Where the library *writer* produced the text, the tokens are additionally compared with the numbers given
to the writer (six decimals => half a unit of the sixth decimal).
"""
from __future__ import annotations

import os
import re
import sys
import types as _types

import numpy as np
from hypothesis import strategies as st
from hypothesis.extra import numpy as hnp

from ..gen import fl, frac_st, nice_float
from ..harness import Facet, Violation
from ..ref import io19
from ..util import arr, close, columns, col, equal, require

from PyMatterSim.reader.dump_reader import DumpReader
from PyMatterSim.reader.gsd_reader_helper import read_gsd, read_gsd_dcd, read_gsd_dcd_wrapper, read_gsd_wrapper
from PyMatterSim.reader.lammps_reader_helper import (read_additions, read_lammps_centertype_wrapper,
                                                     read_lammps_vector_wrapper, read_lammps_wrapper)
from PyMatterSim.reader.reader_utils import DumpFileType
from PyMatterSim.reader.simulation_log import read_lammpslog
from PyMatterSim.writer.lammps_writer import write_data_header, write_dump_header

RULE = ("(a) library header writers -> independent ITEM / data-header parser and -> atomistic reader; (b) generated "
        "orthogonal dumps x type maps -> molecule-centre reader; (c) generated dumps x 1-based column lists -> column "
        "reader, x 0-based column -> read_additions; (d) duck-typed HOOMD frame sequences (+ DCD object) -> read_gsd / "
        "read_gsd_dcd and the DumpReader GSD / GSD_DCD dispatch with stand-in gsd / mdtraj modules; (e) generated thermo "
        "logs with 0..4 complete sections (+ interrupted trailing section) -> read_lammpslog.  Every file reader is "
        "also driven through DumpReader(filetype=...).  Non-trivial rules are stated per facet.")
ASSUMPTIONS = [
    "well-formed files only: ITEM headers at column 0, ids a permutation of 1..N in every frame, same column layout in "
    "all frames of a file, orthogonal boxes for the molecule-centre reader, equal N in all frames for read_additions "
    "(it sizes its result from the first frame)",
    "log files: thermo header starts at column 0 with 'Step ' (DESIGN scope decision); text between sections never "
    "starts with 'Step ' / 'Loop time of '; the last line of an interrupted trailing section starts with the "
    "(complete) step number; the file does not end inside leading white space",
    "x style: a coordinate within 1e-9 (relative) of a box face may be returned as either periodic image",
    "expected values are float() of the written decimal tokens; comparison rtol 1e-12 (pandas' fast float parser and "
    "numpy string conversion may differ from float() in the last bit)",
    "gsd / mdtraj are not installed: frames are duck-typed objects with the attributes the HOOMD schema names "
    "(configuration.{step,dimensions,box}, particles.{N,position,typeid}); DCD object = read() -> (xyz, lengths, angles)",
]
# coverage-guided shards (pbt/fuzz.py): the text readers are the branchiest code behind this property
FUZZ = {
    "log": {"quick": 700, "thorough": 40000},
    "log_short_tail": {"quick": 500, "thorough": 20000},
    "log_quoted_text": {"quick": 500, "thorough": 20000},
    "centertype": {"quick": 700, "thorough": 40000},
    "columns": {"quick": 700, "thorough": 40000},
    "header_dump": {"quick": 500, "thorough": 20000},
}

MANIFEST = {
    "text": ("Generated-input round trips for every reader/writer named in C19: dump-header and data-header writers "
             "(facets header_dump, data_header), molecule-centre reader (centertype), column readers (columns), "
             "HOOMD frame conversion incl. DCD (gsd, gsd_dcd_path), LAMMPS log reader (log, log_short_tail); each reader also via "
             "DumpReader dispatch"),
    "note": ("oracle = independent mini-parsers/encoders in pbt/ref/io19.py working on the decimal tokens written; "
             "well-formed files only; log header at column 0; gsd/mdtraj replaced by duck-typed stand-ins; "
             "numpy/pandas trusted"),
    "technique": ("property-based testing (Hypothesis): round trip writer -> independent parser, encoder -> reader, "
                  "model-based comparison on multi-frame / multi-section files"),
}

FORMATS = ["%.17g", "%.6f", "%.10e", "%g", "%.3f"]
FLAGS = ["pp pp pp", "pp ff pp", "ff ff ff", "pp pp fs", "pm pm pp", "fs ss mm"]
EXTRA_NAMES = ["vx", "vy", "vz", "c_pe", "q", "ix", "iy", "radius", "fx", "v_myvar", "mass", "mol", "order", "Q6"]
ADDSON = ["", "order", "order Q6", "vx vy vz", "c_pe", "q radius", None]
SIX = re.compile(r"-?\d+\.\d{6}$")


# ----------------------------------------------------------------------------- generators


@st.composite
def atoms_st(draw, d, style, nextra, N=None, kmax=9):
    if N is None:
        N = draw(st.integers(1, 12))
    ids = np.array(draw(st.permutations(range(1, N + 1))), dtype=int)
    if draw(st.integers(0, 5)) == 0:
        ids = np.arange(1, N + 1)
    types = np.array(draw(st.lists(st.integers(1, kmax), min_size=N, max_size=N)), dtype=int)
    f = draw(frac_st(N, d))
    exc = np.zeros((N, d))
    if style == "x" and draw(st.booleans()):
        exc = draw(hnp.arrays(np.float64, (N, d), elements=st.one_of(st.just(0.0), st.just(0.0), fl(-0.99, 0.99))))
    elif style == "xu":
        exc = draw(hnp.arrays(np.float64, (N, d), elements=st.one_of(st.just(0.0), fl(-5.0, 5.0)))).round(3)
    extras = draw(hnp.arrays(np.float64, (N, nextra), elements=st.one_of(
        fl(-100.0, 100.0), st.integers(-50, 50).map(float), st.sampled_from([0.0, 1e-5, -2.5e7, 1e12]))))
    return {"ids": ids, "types": types, "f": f, "exc": exc, "extras": extras}


@st.composite
def box_st(draw, d, wide=False):
    L = np.array([draw(nice_float(0.5, 50.0)) for _ in range(d)])
    kind = draw(st.sampled_from(["zero", "centred", "arbitrary", "arbitrary"]))
    if kind == "zero":
        lo = np.zeros(d)
    elif kind == "centred":
        lo = -L / 2.0
    else:
        m = 1e4 if (wide and draw(st.booleans())) else 50.0
        lo = np.array([draw(nice_float(-m, m)) for _ in range(d)])
    return lo, L, kind


def steps_st(draw, T):
    t0 = draw(st.one_of(st.just(0), st.integers(0, 10 ** 9)))
    # schedules a simulation can write: increasing (usual); the same step written again (run 0, minimisation,
    # restart); a counter that goes back (reset_timestep).  Every frame is promised whatever its TIMESTEP says.
    sched = draw(st.sampled_from(["increasing", "increasing", "increasing", "repeats", "any-order"])) if T > 1 else "single"
    steps = [t0]
    for _ in range(T - 1):
        if sched == "increasing":
            steps.append(steps[-1] + draw(st.integers(1, 10 ** 6)))
        elif sched == "repeats":
            steps.append(steps[-1] + draw(st.sampled_from([0, 0, 1, 500])))
        else:
            steps.append(draw(st.integers(0, 10 ** 6)))
    return steps


@st.composite
def dump_case_st(draw, styles=("x", "xs", "xu"), frames=(1, 3), tilted=False, kmax=9, maybe_fixed_n=False):
    d = draw(st.sampled_from([2, 3]))
    style = draw(st.sampled_from(list(styles)))
    fmt = draw(st.sampled_from(FORMATS))
    T = draw(st.integers(*frames))
    nextra = draw(st.integers(0, 3))
    names = draw(st.lists(st.sampled_from(EXTRA_NAMES), min_size=nextra, max_size=nextra, unique=True))
    zcol = draw(st.booleans()) if d == 2 else False
    fixed = draw(st.booleans()) if maybe_fixed_n else False
    nfix = draw(st.integers(1, 10)) if fixed else None
    steps = steps_st(draw, T)
    fr = []
    for k in range(T):
        lo, L, okind = draw(box_st(d))
        a = draw(atoms_st(d, style, nextra, N=nfix, kmax=kmax))
        tilt = None
        if tilted and draw(st.booleans()):
            tilt = [draw(nice_float(-0.5, 0.5)) * L[0], draw(nice_float(-0.5, 0.5)) * L[0],
                    draw(nice_float(-0.5, 0.5)) * L[1]]
        a.update(timestep=steps[k], lo=lo, L=L, origin=okind, tilt=tilt, names=names, zcol=zcol,
                 flags=draw(st.sampled_from(FLAGS)))
        fr.append(a)
    return {"d": d, "style": style, "fmt": fmt, "frames": fr, "fixed_n": fixed}


# ----------------------------------------------------------------------------- shared comparison


def parsed(text, what):
    try:
        return io19.parse_dump(text)
    except (ValueError, IndexError, KeyError) as e:
        raise Violation(f"{what}: text is not a sequence of LAMMPS ITEM records ({e}):\n{text[:600]}")


def snaps_ok(tag, snaps, n):
    require(snaps is not None and hasattr(snaps, "nsnapshots") and hasattr(snaps, "snapshots"),
            f"{tag}: result is not a Snapshots object: {snaps!r:.200}")
    require(snaps.nsnapshots == n, f"{tag}: nsnapshots = {snaps.nsnapshots}, {n} frames were written")
    require(len(snaps.snapshots) == n, f"{tag}: {len(snaps.snapshots)} snapshots returned for {n} frames")


def cmp_box(t, s, e):
    scale = max(1.0, np.abs(e["boxbounds"]).max())
    atol = 4e-15 * scale * 8
    close(f"{t}: boxbounds", s.boxbounds, e["boxbounds"], rtol=1e-12, atol=atol)
    close(f"{t}: boxlength", s.boxlength, e["boxlength"], rtol=1e-12, atol=atol)
    close(f"{t}: hmatrix", s.hmatrix, e["hmatrix"], rtol=1e-12, atol=atol)
    return atol


def cmp_positions(t, got, e, atol):
    """positions by id; coordinates flagged ambiguous (on a face, x style) may be either periodic image."""
    want = e["positions"]
    g = arr(f"{t}: positions", got, shape=want.shape)
    if g.size == 0:
        return 0
    tol = atol + 1e-12 * np.abs(want)
    ok = np.abs(g - want) <= tol
    amb = e["ambiguous"]
    if amb.any():
        L = e["boxlength"]
        for alt in (e["raw"], e["raw"] + L, e["raw"] - L):
            ok |= amb & (np.abs(g - alt) <= tol + 1e-12 * np.abs(alt))
    if not ok.all():
        i = tuple(int(v) for v in np.argwhere(~ok)[0])
        raise Violation(f"{t}: positions differ at {i}: got {g[i]!r}, want {want[i]!r} "
                        f"({int((~ok).sum())}/{g.size} entries; max |diff| {np.abs(g - want).max():.3e})")
    return int(amb.sum())


def cmp_frame(t, s, e, box=True):
    require(s is not None, f"{t}: snapshot is None")
    require(int(s.timestep) == e["timestep"], f"{t}: timestep {s.timestep} != {e['timestep']}")
    require(int(s.nparticle) == e["nparticle"], f"{t}: nparticle {s.nparticle} != {e['nparticle']}")
    equal(f"{t}: particle_type", s.particle_type, e["types"])
    atol = cmp_box(t, s, e) if box else 1e-13
    return atol


def frame_tags(case):
    fr = case["frames"]
    tags = [f"d{case['d']}", "style-" + case.get("style", "x"), f"frames{len(fr)}", "fmt" + case.get("fmt", "")]
    shuffled = any(not np.array_equal(f["ids"], np.arange(1, len(f["ids"]) + 1)) for f in fr)
    tags.append("shuffled" if shuffled else "ordered")
    if len({len(f["ids"]) for f in fr}) > 1:
        tags.append("N-varies")
    tags.append("origin" if any(np.any(np.asarray(f["lo"]) != 0) for f in fr) else "origin0")
    return tags, shuffled


# ----------------------------------------------------------------------------- (a) dump header writer


@st.composite
def header_case_st(draw):
    d = draw(st.sampled_from([2, 3]))
    fmt = draw(st.sampled_from(FORMATS))
    T = draw(st.integers(1, 3))
    steps = steps_st(draw, T)
    addson = draw(st.sampled_from(ADDSON))
    nextra = len(addson.split()) if addson else 0
    fr = []
    for k in range(T):
        lo, L, okind = draw(box_st(d, wide=True))
        if draw(st.integers(0, 3)) == 0:  # bounds that carry more than six decimals
            lo = lo + draw(fl(-1.0, 1.0))
            L = L + draw(fl(0.0, 1.0))
        a = draw(atoms_st(d, "x", nextra))
        a.update(timestep=steps[k], lo=lo, L=L, origin=okind)
        fr.append(a)
    return {"d": d, "fmt": fmt, "frames": fr, "addson": addson, "style": "x",
            "container": draw(st.sampled_from(["ndarray", "list", "float32"])),
            "np_int": draw(st.booleans())}


def make_bounds(lo, L, container):
    b = np.stack([lo, lo + L], axis=1)
    if container == "float32":
        b = b.astype(np.float32)
    if container == "list":
        return b.tolist(), b
    if container == "tuple":
        return tuple(tuple(float(v) for v in r) for r in b), b
    return b, b


def check_written_bounds(what, tokens, given):
    """tokens: list of (lo, hi) strings; given: array (k,2) handed to the writer."""
    for ax, (tl, th) in enumerate(tokens):
        for tok, val in ((tl, given[ax][0]), (th, given[ax][1])):
            require(SIX.match(tok) is not None, f"{what}: bound {tok!r} is not printed with six decimals")
            val = float(val)
            require(abs(float(tok) - val) <= 5e-7 * (1 + 1e-9) + 8 * np.spacing(abs(val)),
                    f"{what}: axis {ax} bound written as {tok}, the value given was {val!r}")


def check_header_dump(case):
    d = case["d"]
    text = []
    given = []
    for fr in case["frames"]:
        barg, b = make_bounds(fr["lo"], fr["L"], case["container"])
        N = len(fr["ids"])
        ts = np.int64(fr["timestep"]) if case["np_int"] else int(fr["timestep"])
        kw = dict(timestep=ts, nparticle=N, boxbounds=barg)
        if case["addson"] is not None:
            kw["addson"] = case["addson"]
        head = write_dump_header(**kw)
        require(isinstance(head, str) and head.endswith("\n"), f"write_dump_header returned {head!r:.200}")
        coords = b[:, 0].astype(float) + (fr["f"] + fr["exc"]) * (b[:, 1].astype(float) - b[:, 0].astype(float))
        text.append(head + io19.atom_lines(case["fmt"], fr["ids"], fr["types"], coords, fr["extras"]))
        given.append(b)
    text = "".join(text)
    frames = parsed(text, "write_dump_header + atom lines")
    require(len(frames) == len(case["frames"]), f"{len(frames)} TIMESTEP records in the text of {len(case['frames'])} frames")
    # --- the header itself, read by the independent parser
    for k, (pf, fr, b) in enumerate(zip(frames, case["frames"], given)):
        t = f"header of frame {k}"
        for key in ("natoms", "bound_tokens", "columns"):
            require(key in pf, f"{t}: no {key} record")
        require(pf["timestep"] == fr["timestep"], f"{t}: TIMESTEP {pf['timestep']} != {fr['timestep']}")
        require(pf["natoms"] == len(fr["ids"]), f"{t}: NUMBER OF ATOMS {pf['natoms']} != {len(fr['ids'])}")
        require(not pf["triclinic"] and len(pf["flags"]) == 3, f"{t}: BOX BOUNDS flags {pf['flags']}")
        require(all(len(x) == 2 for x in pf["bound_tokens"]), f"{t}: bounds lines {pf['bound_tokens']}")
        check_written_bounds(t, pf["bound_tokens"][:d], b)
        if d == 2:
            zl, zh = (float(x) for x in pf["bound_tokens"][2])
            require(zl < zh and zl <= 0.0 <= zh, f"{t}: 2D dummy z bounds {pf['bound_tokens'][2]} do not enclose z = 0")
            require((zl, zh) == (-0.5, 0.5), f"{t}: 2D dummy z bounds {pf['bound_tokens'][2]} != -0.5 0.5")
        want_cols = ["id", "type"] + ["x", "y", "z"][:d]
        require(pf["columns"][:2 + d] == want_cols, f"{t}: ATOMS columns {pf['columns']}")
        if case["addson"] is not None:
            require(pf["columns"][2 + d:] == case["addson"].split(), f"{t}: ATOMS columns {pf['columns']} for addson={case['addson']!r}")
    # --- read back
    fn = os.path.join(os.getcwd(), "hdr.dump")
    with open(fn, "w") as f:
        f.write(text)
    namb = 0
    exp = [io19.atomic_expected(pf, d) for pf in frames]
    for tag, get in (("read_lammps_wrapper", lambda: read_lammps_wrapper(fn, d)),
                     ("DumpReader(LAMMPS)", lambda: _dump_reader(fn, d, DumpFileType.LAMMPS))):
        snaps = get()
        snaps_ok(tag, snaps, len(exp))
        for k, (s, e) in enumerate(zip(snaps.snapshots, exp)):
            t = f"{tag} frame {k}"
            atol = cmp_frame(t, s, e)
            # bounds against the numbers given to the writer (six decimals)
            bb = arr(f"{t}: boxbounds", s.boxbounds, shape=(d, 2))
            g = np.asarray(given[k], dtype=float)
            require(np.all(np.abs(bb - g) <= 5e-7 * (1 + 1e-9) + 8 * np.spacing(np.abs(g))),
                    f"{t}: boxbounds {bb.tolist()} differ from the bounds given to the writer {g.tolist()} by more than 5e-7")
            namb += cmp_positions(t, s.positions, e, atol)
    tags, shuffled = frame_tags(case)
    sixdec = all(np.array_equal(np.round(np.asarray(b, float), 6), np.asarray(b, float)) for b in given)
    tags += ["addson-" + ("None" if case["addson"] is None else str(len(case["addson"].split()))),
             "bounds-" + case["container"], "bounds-exact-6dec" if sixdec else "bounds-rounded"]
    if any(np.abs(np.asarray(b)).max() > 100 for b in given):
        tags.append("bounds-wide")
    nontrivial = bool((not sixdec) or d == 2 or len(frames) >= 2)
    return {"nontrivial": nontrivial, "tags": tags, "extra": {"ambiguous_coords": namb}}


def _dump_reader(fn, d, ft, **kw):
    rd = DumpReader(fn, ndim=d, filetype=ft, **kw)
    rd.read_onefile()
    return rd.snapshots


# ----------------------------------------------------------------------------- (a') data header writer


@st.composite
def data_case_st(draw):
    d = draw(st.sampled_from([2, 3]))
    lo, L, okind = draw(box_st(d, wide=True))
    if draw(st.booleans()):
        lo = lo + draw(fl(-1.0, 1.0))
        L = L + draw(fl(0.0, 1.0))
    return {"d": d, "lo": lo, "L": L, "N": draw(st.one_of(st.integers(1, 200), st.integers(1, 10 ** 7))),
            "K": draw(st.integers(1, 20)), "container": draw(st.sampled_from(["ndarray", "list", "float32"])),
            "np_int": draw(st.booleans())}


def check_data_header(case):
    d = case["d"]
    barg, b = make_bounds(case["lo"], case["L"], case["container"])
    N = np.int64(case["N"]) if case["np_int"] else case["N"]
    head = write_data_header(nparticle=N, nparticle_type=case["K"], boxbounds=barg)
    require(isinstance(head, str) and head.endswith("\n"), f"write_data_header returned {head!r:.200}")
    lines = head.split("\n")
    require(lines[0].strip() != "" and len(lines) > 2, f"data header has no title line: {head!r:.200}")
    try:
        p = io19.parse_data_header(head)
    except (ValueError, IndexError) as e:
        raise Violation(f"data header cannot be parsed by the read_data header rules ({e}):\n{head}")
    require(not p["unknown"], f"data header contains lines that are not header lines: {p['unknown']}")
    require(p["counts"] == {"atoms": case["N"], "atom types": case["K"]},
            f"data header counts {p['counts']} != atoms {case['N']}, atom types {case['K']}")
    require(sorted(p["bounds"]) == ["x", "y", "z"], f"data header bounds for axes {sorted(p['bounds'])}")
    check_written_bounds("data header", [p["bound_tokens"][a] for a in "xyz"[:d]], b)
    if d == 2:
        require(p["bounds"]["z"] == (-0.5, 0.5), f"2D data header z bounds {p['bound_tokens']['z']} != -0.5 0.5")
    require("tilt" not in p, "orthogonal data header carries tilt factors")
    require(p["section"] == "Atoms", f"header is not followed by the Atoms section: {p['section']!r}")
    k = lines.index(p["section_line"])
    require(lines[k - 1].strip() == "" and p["after_section"] and p["after_section"][0].strip() == "",
            "the 'Atoms' keyword is not surrounded by blank lines")
    sixdec = np.array_equal(np.round(b.astype(float), 6), b.astype(float))
    return {"nontrivial": bool(d == 2 or not sixdec or len(set(case["L"].tolist())) > 1),
            "tags": [f"d{d}", "bounds-" + case["container"], "bounds-exact-6dec" if sixdec else "bounds-rounded",
                     "N-big" if case["N"] > 200 else "N-small"]}


# ----------------------------------------------------------------------------- (b) molecule-centre reader


@st.composite
def centre_case_st(draw):
    K = draw(st.sampled_from([1, 2, 2, 3, 3, 4, 5, 6]))
    case = draw(dump_case_st(kmax=K))
    keys = draw(st.lists(st.integers(1, K + 1), min_size=1, max_size=max(1, K - 1) if draw(st.integers(0, 3)) else K + 1,
                         unique=True))
    how = draw(st.sampled_from(["arbitrary", "arbitrary", "arbitrary", "shifted", "rank", "identity", "merged",
                                "zero-based", "wide"]))
    if how == "zero-based":
        # molecule types counted from zero / any integers: the map's VALUES are labels, not indices (seeded C19-D used 0
        # as the "not a centre" sentinel of a lookup table and dropped the atoms mapped to 0)
        mol = {k: i for i, k in enumerate(sorted(keys))}
    elif how == "wide":
        mol = {k: draw(st.sampled_from([0, -1, 7, 12, 100, 2**31 - 1])) for k in keys}
    elif how == "identity":
        mol = {k: k for k in keys}
    elif how == "rank":
        mol = {k: i + 1 for i, k in enumerate(sorted(keys))}
    elif how == "merged":
        mol = {k: 1 + len(keys) % 3 for k in keys}
    elif how == "shifted":
        mol = {k: k + 1 for k in keys}
    else:
        mol = {k: 1 + (k + draw(st.integers(0, 4))) % 5 for k in keys}  # offset 4 = unchanged label
    case["moltypes"] = mol
    case["K"] = K
    return case


def check_centertype(case):
    d = case["d"]
    text = io19.encode_dump(case)
    frames = parsed(text, "generated dump")
    fn = os.path.join(os.getcwd(), "mol.dump")
    with open(fn, "w") as f:
        f.write(text)
    mol = dict(case["moltypes"])
    exp = [io19.centres_expected(pf, d, mol) for pf in frames]
    namb = 0
    for tag, get in (("read_lammps_centertype_wrapper", lambda: read_lammps_centertype_wrapper(fn, d, dict(mol))),
                     ("DumpReader(LAMMPSCENTER)", lambda: _dump_reader(fn, d, DumpFileType.LAMMPSCENTER, moltypes=dict(mol)))):
        snaps = get()
        snaps_ok(tag, snaps, len(exp))
        for k, (s, e) in enumerate(zip(snaps.snapshots, exp)):
            t = f"{tag} frame {k} (moltypes={mol}, selected ids {e['selected_ids'].tolist()})"
            atol = cmp_frame(t, s, e)
            namb += cmp_positions(t, s.positions, e, atol)
    tags, shuffled = frame_tags(case)
    nsel = sum(e["nparticle"] for e in exp)
    ntot = sum(pf["natoms"] for pf in frames)
    present = set(int(r[1]) for pf in frames for r in pf["rows"])
    relabel = any(mol[k] != k for k in mol if k in present)
    merged = len({mol[k] for k in mol if k in present}) < len([k for k in mol if k in present])
    tags.append("select-none" if nsel == 0 else "select-all" if nsel == ntot else "select-some")
    tags.append("relabel" if relabel else "relabel-identity")
    if merged:
        tags.append("keys-merged")
    if any(k not in present for k in mol):
        tags.append("key-absent")
    if any(e["nparticle"] == 0 for e in exp) and nsel > 0:
        tags.append("one-frame-empty")
    nontrivial = bool(0 < nsel < ntot and relabel)
    return {"nontrivial": nontrivial, "tags": tags, "extra": {"ambiguous_coords": namb}}


# ----------------------------------------------------------------------------- (c) column readers


@st.composite
def column_case_st(draw):
    case = draw(dump_case_st(frames=(1, 4), tilted=True, maybe_fixed_n=True))
    fr0 = case["frames"][0]
    ncols = 2 + (3 if (case["d"] == 3 or fr0["zcol"]) else 2) + len(fr0["names"])
    first_extra = ncols - len(fr0["names"]) + 1
    pool = st.integers(1, ncols)
    if fr0["names"]:
        pool = st.one_of(st.integers(first_extra, ncols), st.integers(first_extra, ncols), pool)
    case["columnsids"] = draw(st.lists(pool, min_size=1, max_size=4))
    case["ncol0"] = draw(st.one_of(st.integers(0, ncols - 1), st.integers(min(first_extra - 1, ncols - 1), ncols - 1)))
    case["ncols"] = ncols
    case["ids_as"] = "list"  # the documented argument type (List[int])
    return case


def check_columns(case):
    d = case["d"]
    text = io19.encode_dump(case)
    frames = parsed(text, "generated dump")
    fn = os.path.join(os.getcwd(), "vec.dump")
    with open(fn, "w") as f:
        f.write(text)
    cols1 = [int(c) for c in case["columnsids"]]
    arg = {"list": list(cols1), "tuple": tuple(cols1), "ndarray": np.array(cols1)}[case["ids_as"]]
    exp = [io19.columns_expected(pf, cols1) for pf in frames]
    for tag, get in (("read_lammps_vector_wrapper", lambda: read_lammps_vector_wrapper(fn, d, arg)),
                     ("DumpReader(LAMMPSVECTOR)", lambda: _dump_reader(fn, d, DumpFileType.LAMMPSVECTOR, columnsids=arg))):
        snaps = get()
        snaps_ok(tag, snaps, len(exp))
        for k, (s, (vals, typ), pf) in enumerate(zip(snaps.snapshots, exp, frames)):
            t = f"{tag} frame {k} (columnsids={cols1})"
            require(s is not None, f"{t}: snapshot is None")
            require(int(s.timestep) == pf["timestep"], f"{t}: timestep {s.timestep} != {pf['timestep']}")
            require(int(s.nparticle) == pf["natoms"], f"{t}: nparticle {s.nparticle} != {pf['natoms']}")
            equal(f"{t}: particle_type", s.particle_type, typ)
            close(f"{t}: columns (returned as positions)", s.positions, vals, rtol=1e-12, atol=0.0)
            if not pf["triclinic"]:
                lo, hi = io19.frame_bounds(pf, d)
                cmp_box(t, s, {"boxbounds": np.stack([lo, hi], axis=1), "boxlength": hi - lo, "hmatrix": np.diag(hi - lo)})
    tags, shuffled = frame_tags(case)
    if case["fixed_n"]:
        c0 = int(case["ncol0"])
        res = read_additions(fn, c0)
        want = np.array([io19.columns_expected(pf, [c0 + 1])[0][:, 0] for pf in frames])
        close(f"read_additions(ncol={c0})", res, want, rtol=1e-12, atol=0.0)
        tags.append("read_additions")
        tags.append("additions-extra-col" if c0 >= case["ncols"] - len(case["frames"][0]["names"]) else "additions-base-col")
    tags.append(f"ncolumnsids{len(cols1)}")
    tags.append("ids-" + case["ids_as"])
    if any(pf["triclinic"] for pf in frames):
        tags.append("tilted-header")
    if case["d"] == 2 and case["frames"][0]["zcol"]:
        tags.append("2d-with-z-column")
    first_extra = case["ncols"] - len(case["frames"][0]["names"]) + 1
    tags.append("extra-columns" if any(c >= first_extra for c in cols1) and case["frames"][0]["names"] else "base-columns-only")
    nontrivial = bool(shuffled and (len(frames) >= 2 or len(cols1) >= 2))
    return {"nontrivial": nontrivial, "tags": tags}


# ----------------------------------------------------------------------------- (d) HOOMD frames


@st.composite
def gsd_case_st(draw, force_dcd=False):
    d = draw(st.sampled_from([2, 3]))
    T = draw(st.integers(1, 4))
    with_dcd = True if force_dcd else draw(st.booleans())
    K = draw(st.integers(1, 4))
    nfix = draw(st.integers(1, 8))
    f32 = st.floats(-50.0, 50.0, width=32, allow_nan=False)
    steps = steps_st(draw, T)
    fr = []
    for k in range(T):
        N = nfix if (with_dcd or draw(st.booleans())) else draw(st.integers(1, 8))
        box = np.array([draw(st.floats(1.0, 60.0, width=32)) for _ in range(3)] + [0.0, 0.0, 0.0], dtype=np.float32)
        if d == 2:
            box[2] = draw(st.sampled_from([0.0, 1.0]))
        pos = draw(hnp.arrays(np.float32, (N, 3), elements=f32))
        if d == 2 and draw(st.booleans()):
            pos[:, 2] = 0.0
        typeid = np.array(draw(st.lists(st.integers(0, K - 1), min_size=N, max_size=N)), dtype=np.uint32)
        fr.append({"step": steps[k], "box": box, "position": pos, "typeid": typeid})
    dcd = None
    if with_dcd:
        dcd = draw(hnp.arrays(np.float32, (T, nfix, 3), elements=st.floats(-500.0, 500.0, width=32, allow_nan=False)))
    return {"d": d, "frames": fr, "dcd": dcd, "step_type": draw(st.sampled_from(["int", "uint64"])),
            "name_kind": draw(st.sampled_from(["bare", "dot", "sub", "abs"])),
            "stem": draw(st.sampled_from(["traj", "run.1", "a", "dump_T0.45"]))}


class _Trajectory:
    """Stand-in for gsd.hoomd.HOOMDTrajectory: len(), integer indexing, iteration."""

    def __init__(self, frames):
        self._frames = frames

    def __len__(self):
        return len(self._frames)

    def __getitem__(self, k):
        if not isinstance(k, (int, np.integer)):
            raise TypeError("stand-in trajectory supports integer indices only")
        return self._frames[k]

    def __iter__(self):
        return iter(list(self._frames))


class _DCD:
    """Stand-in for mdtraj.formats.DCDTrajectoryFile: read() -> (xyz, cell_lengths, cell_angles)."""

    def __init__(self, xyz):
        self._xyz = xyz
        self.closed = False
        self.reads = 0

    def read(self, n_frames=None, stride=None, atom_indices=None):
        self.reads += 1
        T = self._xyz.shape[0]
        return self._xyz.copy(), np.ones((T, 3), dtype=np.float32), np.full((T, 3), 90.0, dtype=np.float32)

    def close(self):
        self.closed = True


def make_traj(case):
    d = case["d"]
    frames = []
    for fr in case["frames"]:
        step = np.uint64(fr["step"]) if case["step_type"] == "uint64" else int(fr["step"])
        conf = _types.SimpleNamespace(step=step, dimensions=d, box=fr["box"].copy())
        part = _types.SimpleNamespace(N=len(fr["typeid"]), position=fr["position"].copy(), typeid=fr["typeid"].copy(),
                                      types=["A", "B", "C", "D"])
        frames.append(_types.SimpleNamespace(configuration=conf, particles=part))
    return _Trajectory(frames)


class _FakeModules:
    """Installs stand-in `gsd`, `gsd.hoomd`, `mdtraj`, `mdtraj.formats` modules for the duration of one call."""

    NAMES = ("gsd", "gsd.hoomd", "mdtraj", "mdtraj.formats")

    def __init__(self, traj, dcd):
        self.traj, self.dcd = traj, dcd
        self.opened = []
        self.dcd_opened = []

    def __enter__(self):
        self.saved = {n: sys.modules.get(n) for n in self.NAMES}
        gsd = _types.ModuleType("gsd")
        hoomd = _types.ModuleType("gsd.hoomd")

        def _open(name, mode="r", **kw):
            self.opened.append((name, mode))
            return self.traj

        hoomd.open = _open
        gsd.hoomd = hoomd
        md = _types.ModuleType("mdtraj")
        fm = _types.ModuleType("mdtraj.formats")

        def _dcd(name, mode="r", **kw):
            self.dcd_opened.append((name, mode))
            return self.dcd

        fm.DCDTrajectoryFile = _dcd
        md.formats = fm
        sys.modules.update({"gsd": gsd, "gsd.hoomd": hoomd, "mdtraj": md, "mdtraj.formats": fm})
        return self

    def __exit__(self, *a):
        for n, m in self.saved.items():
            if m is None:
                sys.modules.pop(n, None)
            else:
                sys.modules[n] = m
        return False


def _same_file(got, want):
    return isinstance(got, (str, os.PathLike)) and os.path.isfile(got) and os.path.samefile(got, want)


def cmp_gsd(tag, snaps, case, positions):
    d = case["d"]
    fr = case["frames"]
    snaps_ok(tag, snaps, len(fr))
    for k, (s, f) in enumerate(zip(snaps.snapshots, fr)):
        t = f"{tag} frame {k}"
        require(s is not None, f"{t}: snapshot is None")
        require(int(s.timestep) == f["step"], f"{t}: timestep {s.timestep} != configuration.step {f['step']}")
        require(int(s.nparticle) == len(f["typeid"]), f"{t}: nparticle {s.nparticle} != particles.N {len(f['typeid'])}")
        equal(f"{t}: particle_type (typeid + 1)", s.particle_type, f["typeid"].astype(np.int64) + 1)
        equal(f"{t}: positions", s.positions, positions[k][:, :d])
        equal(f"{t}: boxlength", s.boxlength, f["box"][:d])
        equal(f"{t}: hmatrix", s.hmatrix, np.diag(f["box"][:d]))


def _gsd_files(case):
    """File names as callers give them: bare (relative to cwd = scratch dir), './name', 'sub/name', absolute.
    Placeholder files are written; the stand-in modules deliver the content."""
    stem, kind = case["stem"], case["name_kind"]
    folder = {"bare": "", "dot": ".", "sub": "sub", "abs": os.path.join(os.getcwd(), "data")}[kind]
    if folder not in ("", "."):
        os.makedirs(folder, exist_ok=True)
    gsd_name = stem + ".gsd" if kind == "bare" else folder + "/" + stem + ".gsd"
    dcd_written = os.path.join(os.getcwd(), folder, stem + ".dcd")
    for fn_ in (gsd_name, dcd_written):
        with open(fn_, "wb") as f:
            f.write(b"placeholder")
    return gsd_name, dcd_written


def check_gsd_dcd_path(case):
    """Which DCD file is opened for a given GSD file name.  The path assertion is made even when the conversion that
    follows raises, so that it is reported on its own."""
    d = case["d"]
    xyz = case["dcd"]
    gsd_name, dcd_written = _gsd_files(case)
    for tag, get in (("read_gsd_dcd_wrapper", lambda: read_gsd_dcd_wrapper(gsd_name, d)),
                     ("DumpReader(GSD_DCD)", lambda: _dump_reader(gsd_name, d, DumpFileType.GSD_DCD))):
        err = None
        snaps = None
        with _FakeModules(make_traj(case), _DCD(xyz)) as fm:
            try:
                snaps = get()
            except Exception as e:  # noqa: BLE001 - re-raised below, after the path has been looked at
                err = e
        if err is not None and not fm.dcd_opened:
            raise err
        require(len(fm.dcd_opened) == 1, f"{tag}({gsd_name!r}) opened {len(fm.dcd_opened)} DCD files")
        got = fm.dcd_opened[0][0]
        require(_same_file(got, dcd_written),
                f"{tag}({gsd_name!r}) opened the DCD file {got!r}; the DCD file accompanying the GSD file is "
                f"{os.path.relpath(dcd_written)!r} (same folder, same name, extension dcd)")
        require(fm.dcd_opened[0][1] in ("r", "rb"), f"{tag}: DCD file opened with mode {fm.dcd_opened[0][1]!r}")
        if err is not None:
            raise err
        cmp_gsd(tag, snaps, case, xyz)
    return {"nontrivial": case["name_kind"] != "abs" or "." in case["stem"],
            "tags": ["name-" + case["name_kind"], "stem-" + case["stem"], f"d{d}", f"frames{len(case['frames'])}"]}


def check_gsd(case):
    d = case["d"]
    gpos = [f["position"] for f in case["frames"]]
    traj = make_traj(case)
    cmp_gsd("read_gsd", read_gsd(traj, d), case, gpos)
    for fo, f in zip(traj._frames, case["frames"]):  # inputs untouched
        require(np.array_equal(fo.particles.typeid, f["typeid"]) and np.array_equal(fo.particles.position, f["position"]),
                "read_gsd modified the frame objects it was given")
    gsd_name, dcd_written = _gsd_files(case)
    kind = case["name_kind"]
    for tag, get in (("read_gsd_wrapper", lambda: read_gsd_wrapper(gsd_name, d)),
                     ("DumpReader(GSD)", lambda: _dump_reader(gsd_name, d, DumpFileType.GSD))):
        with _FakeModules(make_traj(case), None) as fm:
            snaps = get()
        require(len(fm.opened) == 1 and _same_file(fm.opened[0][0], gsd_name), f"{tag}({gsd_name!r}) opened {fm.opened}")
        cmp_gsd(tag, snaps, case, gpos)
    tags = [f"d{d}", f"frames{len(gpos)}", "dcd" if case["dcd"] is not None else "gsd-only",
            "step-" + case["step_type"], "name-" + kind]
    if len({len(f["typeid"]) for f in case["frames"]}) > 1:
        tags.append("N-varies")
    if d == 2 and any(np.any(f["position"][:, 2] != 0) for f in case["frames"]):
        tags.append("2d-z-nonzero")
    if case["dcd"] is not None:
        xyz = case["dcd"]
        dcd = _DCD(xyz)
        cmp_gsd("read_gsd_dcd", read_gsd_dcd(make_traj(case), dcd, d), case, xyz)
        for tag, get in (("read_gsd_dcd_wrapper", lambda: read_gsd_dcd_wrapper(gsd_name, d)),
                         ("DumpReader(GSD_DCD)", lambda: _dump_reader(gsd_name, d, DumpFileType.GSD_DCD))):
            with _FakeModules(make_traj(case), _DCD(xyz)) as fm:
                snaps = get()
            require(len(fm.opened) == 1 and _same_file(fm.opened[0][0], gsd_name),
                    f"{tag}({gsd_name!r}) opened the GSD file {fm.opened}")
            require(len(fm.dcd_opened) == 1, f"{tag}({gsd_name!r}) opened {len(fm.dcd_opened)} DCD files")
            got = fm.dcd_opened[0][0]
            require(_same_file(got, dcd_written),
                    f"{tag}({gsd_name!r}) opened the DCD file {got!r}; the DCD file accompanying the GSD file is "
                    f"{os.path.relpath(dcd_written)!r} (same folder, same name, extension dcd)")
            cmp_gsd(tag, snaps, case, xyz)
    nontrivial = bool(len(gpos) >= 2 or d == 2 or case["dcd"] is not None)
    return {"nontrivial": nontrivial, "tags": tags}


# ----------------------------------------------------------------------------- (e) log reader

LOG_FORMATS = ["%.8g", "%g", "%.6f", "%.10e", "%.15g"]


@st.composite
def section_st(draw, rows_min, rows_max, step0):
    ncol = draw(st.integers(1, 6))
    cols = ["Step"] + draw(st.lists(st.sampled_from(io19.THERMO_COLS), min_size=ncol, max_size=ncol, unique=True))
    nrows = draw(st.integers(rows_min, rows_max))
    dt = draw(st.sampled_from([1, 10, 100, 1000, 5000]))
    steps = [step0 + k * dt for k in range(nrows)]
    vals = draw(hnp.arrays(np.float64, (nrows, ncol), elements=st.one_of(
        fl(-1e4, 1e4), st.integers(-1000, 1000).map(float), st.sampled_from([0.0, 1e-12, -3.5e9]))))
    return {"columns": cols, "steps": steps, "values": vals, "fmt": draw(st.sampled_from(LOG_FORMATS)),
            "width": draw(st.sampled_from([0, 0, 14, 22])), "loop": draw(st.sampled_from(io19.LOOP_LINES)),
            "post": draw(st.lists(st.sampled_from(io19.POST_LINES), min_size=0, max_size=5))}


@st.composite
def log_case_st(draw, tail_rows=(2, 8), force_tail=False, quotes=False):
    nsec = draw(st.integers(1 if quotes else 0, 4))
    pre = draw(st.lists(st.sampled_from(io19.PRE_LINES), min_size=1, max_size=8))
    secs = []
    step = draw(st.sampled_from([0, 0, 1000, 123456789]))
    for _ in range(nsec):
        s = draw(section_st(1, 8, step))
        secs.append(s)
        step = (s["steps"][-1] if s["steps"] else step) + draw(st.sampled_from([0, 1, 500]))
    tail = None
    last = None
    if force_tail or draw(st.integers(0, 2)) == 0:
        t = draw(section_st(tail_rows[0], tail_rows[1], step))
        t["cut"] = draw(st.sampled_from([0, 0, 0, 1, 3, 40])) if len(t["steps"]) else 0
        t["newline"] = draw(st.booleans())
        tail = t
    else:
        last = draw(st.sampled_from(io19.LAST_LINES))
    if quotes:
        # at least one line with an odd number of double quotes somewhere in front of a complete section
        where = draw(st.integers(0, nsec - 1))
        q = draw(st.lists(st.sampled_from(io19.QUOTE_LINES), min_size=1, max_size=3))
        target = pre if where == 0 else secs[where - 1]["post"]
        at = draw(st.integers(0, len(target)))
        target[at:at] = q
        if draw(st.booleans()):
            secs[-1]["post"] = secs[-1]["post"] + [draw(st.sampled_from(io19.QUOTE_LINES))]
    return {"pre": pre, "sections": secs, "tail": tail, "last": last}


def cmp_section(t, df, cols, rows):
    require(hasattr(df, "columns") and hasattr(df, "shape"), f"{t}: not a DataFrame: {df!r:.200}")
    columns(t, df, cols)
    require(df.shape[0] == len(rows), f"{t}: {df.shape[0]} rows returned, the section has {len(rows)}")
    if rows:
        want = io19.tokens_to_float(rows, len(cols))
        for j, c in enumerate(cols):
            got = col(t, df, c)
            try:
                got = np.asarray(got, dtype=float)
            except (TypeError, ValueError):
                raise Violation(f"{t}: column {c!r} is not numeric: {got!r:.200}")
            close(f"{t}: column {c!r}", got, want[:, j], rtol=1e-12, atol=0.0)


def check_log(case):
    text, complete, tail_rows = io19.encode_log(case)
    fn = os.path.join(os.getcwd(), "log.lammps")
    with open(fn, "w") as f:
        f.write(text)
    res = read_lammpslog(fn)
    require(isinstance(res, (list, tuple)), f"read_lammpslog returned {type(res).__name__}")
    k = len(complete)
    require(len(res) in ((k, k + 1) if tail_rows is not None else (k,)),
            f"{len(res)} sections returned, the log holds {k} complete sections"
            + (" and an interrupted one" if tail_rows is not None else ""))
    for i, (cols, rows) in enumerate(complete):
        cmp_section(f"section {i}", res[i], cols, rows)
    tags = [f"sections{k}"]
    tail_got = 0
    if tail_rows is not None:
        tags.append(f"tail-rows{min(len(case['tail']['steps']), 4)}" + ("+" if len(case["tail"]["steps"]) > 4 else ""))
        tags.append("tail-cut" if case["tail"]["cut"] else ("tail-newline" if case["tail"]["newline"] else "tail-no-newline"))
        if len(res) == k + 1:
            df = res[k]
            require(hasattr(df, "shape") and df.shape[0] <= len(tail_rows),
                    f"interrupted section: {getattr(df, 'shape', None)} rows returned, only {len(tail_rows)} complete rows exist")
            tail_got = df.shape[0]
            cmp_section("interrupted section (row prefix)", df, case["tail"]["columns"], tail_rows[:tail_got])
            tags.append("tail-returned")
        else:
            tags.append("tail-dropped")
    colsets = {tuple(c) for c, _ in complete}
    if len(colsets) > 1:
        tags.append("column-sets-differ")
    if any(len(r) == 1 for _, r in complete):
        tags.append("one-row-section")
    if len({len(r) for _, r in complete}) > 1:
        tags.append("row-counts-differ")
    if any(s["width"] for s in case["sections"]):
        tags.append("right-aligned-rows")
    if any(s["post"] for s in case["sections"][:-1]):
        tags.append("text-between")
    odd = lambda lines: any(ln.count('"') % 2 for ln in lines)  # noqa: E731
    if case["sections"] and odd(case["pre"]):
        tags.append("odd-quotes-before-first-section")
    if any(odd(s["post"]) for s in case["sections"][:-1]):
        tags.append("odd-quotes-between-sections")
    if case["sections"] and odd(case["sections"][-1]["post"]):
        tags.append("odd-quotes-after-last-section")
    nontrivial = bool((k >= 2 and len(colsets) > 1) or tail_rows is not None)
    return {"nontrivial": nontrivial, "tags": tags, "extra": {"tail_rows_returned": tail_got}}


# ----------------------------------------------------------------------------- descriptions


def describe_dump(case):
    out = {"d": case["d"], "style": case.get("style"), "text": io19.encode_dump(case)[:600]}
    for k in ("moltypes", "columnsids", "ncol0"):
        if k in case:
            out[k] = case[k]
    return out


def describe_header(case):
    fr = case["frames"][0]
    return {"d": case["d"], "timestep": fr["timestep"], "N": len(fr["ids"]), "addson": case["addson"],
            "bounds": np.stack([fr["lo"], fr["lo"] + fr["L"]], axis=1).tolist(), "frames": len(case["frames"])}


def describe_data(case):
    return {"d": case["d"], "N": case["N"], "K": case["K"],
            "bounds": np.stack([case["lo"], case["lo"] + case["L"]], axis=1).tolist()}


def describe_gsd(case):
    return {"d": case["d"], "file": case["name_kind"] + ":" + case["stem"] + ".gsd", "frames": len(case["frames"]), "N": [len(f["typeid"]) for f in case["frames"]],
            "dcd": None if case["dcd"] is None else list(case["dcd"].shape), "typeid0": case["frames"][0]["typeid"].tolist()}


def describe_log(case):
    return {"text": io19.encode_log(case)[0][:900]}


FACETS = [
    Facet("header_dump", header_case_st(), check_header_dump, quick=400, thorough=30000, describe=describe_header,
          shards_quick=2,
          rule="write_dump_header(timestep, N, bounds, addson) x {2D,3D} x 1..3 frames x bounds containers "
               "{ndarray,list,float32 ndarray} x origins up to 1e4 x addson {None,'',1..3 names}; header parsed by the "
               "independent ITEM parser, header + atom lines read by read_lammps_wrapper / DumpReader; non-trivial = "
               "bounds need rounding to six decimals, or 2D (dummy z line), or >= 2 frames"),
    Facet("data_header", data_case_st(), check_data_header, quick=400, thorough=30000, describe=describe_data,
          rule="write_data_header(N, K, bounds) x {2D,3D}; parsed by the read_data header rules (counts, bounds, 2D dummy z, "
               "Atoms keyword framed by blank lines); non-trivial = 2D, or bounds need rounding, or unequal edges"),
    Facet("centertype", centre_case_st(), check_centertype, quick=600, thorough=40000, describe=describe_dump,
          shards_quick=3,
          rule="orthogonal dumps {x,xs,xu} x 1..3 frames (N differs, lines shuffled) x type maps (keys subset of 1..K+1, "
               "values arbitrary / merged / identity); non-trivial = some but not all atoms selected and at least one "
               "present key relabelled"),
    Facet("columns", column_case_st(), check_columns, quick=600, thorough=40000, describe=describe_dump, shards_quick=3,
          rule="dumps with 0..3 extra columns (+ optional z column in 2D, tilted headers) x 1..4 frames x columnsids lists "
               "(1-based, any order, repeats) ; read_additions (0-based) on the files with equal N; non-trivial = lines "
               "shuffled and (>= 2 frames or >= 2 columns)"),
    Facet("gsd", gsd_case_st(), check_gsd, quick=400, thorough=30000, describe=describe_gsd, shards_quick=2,
          rule="duck-typed HOOMD frame sequences 1..4 frames x {2D,3D} x typeid 0..K-1 x optional DCD array; read_gsd, "
               "read_gsd_dcd, and read_gsd_wrapper / read_gsd_dcd_wrapper / DumpReader(GSD / GSD_DCD) through stand-in "
               "modules with file names given bare, './name', 'sub/name', absolute (the DCD file opened must be the "
               "sibling of the GSD file); non-trivial = >= 2 frames or 2D or DCD"),
    Facet("gsd_dcd_path", gsd_case_st(force_dcd=True), check_gsd_dcd_path, quick=200, thorough=10000, describe=describe_gsd,
          rule="GSD file name given bare / './name' / 'sub/name' / absolute x stems with and without inner dots; the DCD "
               "file opened by read_gsd_dcd_wrapper / DumpReader(GSD_DCD) must be the existing sibling <stem>.dcd (asserted "
               "before any later failure of the conversion); non-trivial = relative name or a stem with a dot"),
    Facet("log", log_case_st(), check_log, quick=500, thorough=30000, describe=describe_log, shards_quick=3,
          rule="logs with 0..4 complete sections (different column sets / row counts 1..8, right-aligned or plain rows, "
               "text between) + optional interrupted section with >= 2 lines; non-trivial = >= 2 complete sections "
               "with different column sets, or an interrupted section present"),
    Facet("log_short_tail", log_case_st(tail_rows=(0, 1), force_tail=True), check_log, quick=300, thorough=20000,
          describe=describe_log, shards_quick=2,
          rule="as log, but the interrupted trailing section holds only its header or header + one (possibly partial) "
               "line; the complete sections must still be returned in full; non-trivial = always (interrupted section)"),
    Facet("log_quoted_text", log_case_st(quotes=True), check_log, quick=300, thorough=20000, describe=describe_log,
          shards_quick=2,
          rule="as log with >= 1 complete section and >= 1 echoed input line carrying an odd number of double quotes "
               "(LAMMPS triple-quote strings, cut print commands) in front of a section; non-trivial as log"),
]
