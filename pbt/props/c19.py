"""C19 — header writers, auxiliary readers, GSD/DCD conversion and the LAMMPS log reader agree on the same data.

All oracles are round trips against the record of what was written: the text handed to a reader is parsed by the
independent mini-parsers of `pbt/ref/io19.py` (raw decimal tokens), the expected values are float() of those
tokens.  Where the library *writer* produced the text, the tokens are additionally compared with the numbers given
to the writer (six decimals => half a unit of the sixth decimal).

CLAUSES (statement / quantifier axis -> facet; deciding assertion; populated class tags)
  a1 dump-header writer + atom lines read back: same timestep        -> header_dump; exact integers; ts-small / ts-ge-2^31 /
       ts-ge-2^53 (to 2^63-1-1e8), ints-python / ints-numpy
  a2 ... same particle count                                          -> header_dump; N 1..12, N1, size-boundary-<N> (seeded atoms
       around block sizes 32..256); data_header: N-small / N-big (to 1e12)
  a3 ... same box bounds, 2D and 3D                                   -> header_dump, data_header; tokens six decimals and within 5e-7
       of the numbers given, read back through read_lammps_wrapper / DumpReader; bounds-ndarray / -list / -tuple /
       -float32 / -int64 / -int-list (hand-built integer boxes), bounds-wide, bounds-rounded / -exact-6dec; d2 (dummy z) / d3
  a4 additional-column names                                          -> header_dump: addson-None / -0 / -1..3 / -4+ (any names incl.
       brackets, up to 8, one or two blanks between them); addson-columns-read-back: the named columns fetched from the
       writer's frames by read_lammps_vector_wrapper / read_additions (writer -> auxiliary reader loop)
  b  molecule-centre reader: exactly the atoms whose type is a key, relabelled by the values, id order kept
       -> centertype (+ reader_sizes, aux_sequence); select-none / -some / -all, one-centre-selected, key-absent, keys-merged,
       relabel / relabel-identity, zero-based / wide values, labels-1..K / labels-sparse (atom types {1, 7, 40, 999}: the
       reader only looks labels up), map-int / map-np.int64 / map-np.int32-values, style x / xs / xu, wrap-inside /
       -mixed / -all-low / -all-high
  c1 column reader: requested columns by atom id for every frame      -> columns (+ reader_sizes, aux_sequence); ncolumnsids1..8,
       columns-not-ascending, column-repeated, column-id-two-digits (up to 12 trailing columns), base / extra columns,
       extra-element (a non-numeric trailing column shifting the others), ids-list / -tuple / -int64 / -int32 /
       -float64 / -list-np-int (value-equal arguments the unchanged reader accepts), tilted-header, 2d-with-z-column
  c2 read_additions (0-based column, equal N)                         -> columns; additions-base-col / -extra-col, -ncol-np-int64
  bc text layer of the dump readers                                   -> layout-plain / -lammps / -mixed, eol-crlf, sep-double / -tab /
       -mixed / -pad, trail-blank, no-final-newline, fmt* (scientific), name-abs / -bare / -sub / -space
  bc sizes                                                            -> reader_sizes: size-boundary-<N>, frames-boundary-<T>, N1,
       long-file-*; reader_sizes_large (thorough: B to 1024, N = 5000 / 20000)
  bc results handed out earlier stay what they were; state between calls -> aux_sequence (re-used file names, same reader
       with other arguments, shapes-shared), every result copied at return and examined again after the last call
  d1 HOOMD frames: types + 1, positions cut to the dimension           -> gsd; typeid-uint32 / -int32 / -int64, position-float32 /
       -float64, d2 with z != 0, frames1..4, frames-boundary-<T>, size-boundary-<N>, step-int / -uint64
  d2 DCD positions frame by frame                                     -> gsd (dcd), gsd_dcd_path (which file is opened)
  d3 second evaluation of one trajectory object, results kept          -> gsd: every result re-examined after all calls
  e  log reader: every complete thermodynamic section in full          -> log, log_short_tail, log_quoted_text, log_sizes, log_sequence;
       sections0..4, sections-boundary-<k> (to 129 quick / 257 thorough), rows-boundary-<n> (to 257 quick / 2049
       thorough), columns-12+ (20 columns), step-small / step-ge-2^31 / step-ge-2^53 (integer Step columns compared as
       integers), eol-crlf, trail-blank (older LAMMPS ends thermo lines with a blank), right-aligned rows, text
       between, odd quotes, interrupted tail; log_sequence: the same file name rewritten, all DataFrames kept
Not in the domain: indented thermo headers (DESIGN scope decision), WARNING lines inside a section, multi-line thermo
output, empty log files, non-numeric columns requested from the column readers, blank lines after the last frame
of a dump, nested lists / float scalars as column ids (the unchanged readers raise).
"""
from __future__ import annotations

import os
import re
import sys
import zlib
import types as _types

import numpy as np
from hypothesis import strategies as st
from hypothesis.extra import numpy as hnp

from ..gen import fl, frac_st, nice_float
from ..harness import Facet, Violation
from ..ref import io19
from ..util import arr, close, columns, col, equal, require

from PyMatterSim.reader.dump_reader import DumpReader
from PyMatterSim.reader.gsd_reader_helper import read_gsd, read_gsd_dcd, read_gsd_dcd_wrapper, read_gsd_wrapper
from PyMatterSim.reader.lammps_reader_helper import (read_additions, read_lammps_centertype_wrapper,
                                                     read_lammps_vector_wrapper, read_lammps_wrapper)
from PyMatterSim.reader.reader_utils import DumpFileType
from PyMatterSim.reader.simulation_log import read_lammpslog
from PyMatterSim.writer.lammps_writer import write_data_header, write_dump_header

RULE = ("(a) library header writers -> independent ITEM / data-header parser and -> atomistic reader; (b) generated "
        "orthogonal dumps x type maps -> molecule-centre reader; (c) generated dumps x 1-based column lists -> column "
        "reader, x 0-based column -> read_additions; (d) duck-typed HOOMD frame sequences (+ DCD object) -> read_gsd / "
        "read_gsd_dcd and the DumpReader GSD / GSD_DCD dispatch with stand-in gsd / mdtraj modules; (e) generated thermo "
        "logs with 0..4 complete sections (+ interrupted trailing section) -> read_lammpslog.  Every file reader is "
        "also driven through DumpReader(filetype=...).  Round 3: text layouts (LF / CRLF, blanks / tabs / padded columns, "
        "trailing blanks, no final newline, LAMMPS' own number formats), file-name forms, value-equal argument "
        "representations, sparse type labels, size-boundary classes (atoms, frames, rows, sections around block sizes; "
        "seeded synthesis), timesteps / step numbers to 2^63, call sequences with every result kept and re-examined.  "
        "Non-trivial rules are stated per facet.")
ASSUMPTIONS = [
    "well-formed files only: ITEM headers at column 0, ids a permutation of 1..N in every frame, same column layout in "
    "all frames of a file, orthogonal boxes for the molecule-centre reader, equal N in all frames for read_additions "
    "(it sizes its result from the first frame)",
    "log files: thermo header starts at column 0 with 'Step ' (DESIGN scope decision); text between sections never "
    "starts with 'Step ' / 'Loop time of '; the last line of an interrupted trailing section starts with the "
    "(complete) step number; the file does not end inside leading white space",
    "x style: a coordinate within 1e-9 (relative) of a box face may be returned as either periodic image",
    "expected values are float() of the written decimal tokens; comparison rtol 1e-12 (pandas' fast float parser and "
    "numpy string conversion may differ from float() in the last bit)",
    "size-boundary classes are built by numpy's Generator from a Hypothesis-drawn seed; only numeric columns are "
    "requested from the column readers; integer Step columns are compared as integers, float ones with rtol 1e-12",
    "gsd / mdtraj are not installed: frames are duck-typed objects with the attributes the HOOMD schema names "
    "(configuration.{step,dimensions,box}, particles.{N,position,typeid}); DCD object = read() -> (xyz, lengths, angles)",
]
# coverage-guided shards (pbt/fuzz.py): the text readers are the branchiest code behind this property
FUZZ = {
    "log": {"quick": 700, "thorough": 40000},
    "log_short_tail": {"quick": 500, "thorough": 20000},
    "log_quoted_text": {"quick": 500, "thorough": 20000},
    "centertype": {"quick": 700, "thorough": 40000},
    "columns": {"quick": 700, "thorough": 40000},
    "header_dump": {"quick": 500, "thorough": 20000},
    "aux_sequence": {"quick": 400, "thorough": 20000},
}

MANIFEST = {
    "text": ("Generated-input round trips for every reader/writer named in C19: dump-header and data-header writers "
             "(facets header_dump, data_header), molecule-centre reader (centertype), column readers (columns), "
             "HOOMD frame conversion incl. DCD (gsd, gsd_dcd_path), LAMMPS log reader (log, log_short_tail, log_quoted_text, "
             "log_sizes, log_sequence); size-boundary classes (reader_sizes, log_sizes) and call sequences with results kept "
             "alive (aux_sequence, log_sequence); text layouts incl. CRLF / tabs / LAMMPS' own formats; each reader also via "
             "DumpReader dispatch"),
    "note": ("oracle = independent mini-parsers/encoders in pbt/ref/io19.py working on the decimal tokens written; "
             "well-formed files only; log header at column 0; gsd/mdtraj replaced by duck-typed stand-ins; "
             "numpy/pandas trusted"),
    "technique": ("property-based testing (Hypothesis): round trip writer -> independent parser, encoder -> reader, "
                  "model-based comparison on multi-frame / multi-section files"),
}

FORMATS = ["%.17g", "%.6f", "%.10e", "%g", "%.3f"]
ELEMENTS = ["Si", "O", "H", "C", "Fe", "Cu", "Zr"]
BIG_STEPS = [2**31 - 1, 2**31, 2**32 + 7, 2**53 - 1, 2**53 + 1, 2**62 + 12345, 2**63 - 1 - 10**8]
BLOCKS_QUICK = [32, 64, 100, 128, 256]
BLOCKS_ALL = [32, 50, 64, 100, 128, 200, 256, 500, 512, 1000, 1024]
FLAGS = ["pp pp pp", "pp ff pp", "ff ff ff", "pp pp fs", "pm pm pp", "fs ss mm"]
EXTRA_NAMES = ["vx", "vy", "vz", "c_pe", "q", "ix", "iy", "radius", "fx", "v_myvar", "mass", "mol", "order", "Q6"]
ADDSON = ["", "order", "order Q6", "vx vy vz", "c_pe", "q radius", None]
ADDSON_NAMES = EXTRA_NAMES + ["c_pe[1]", "v_x2", "f_ave[3]", "i_flag", "d_rho", "c_sna[12]", "proc", "element_id"]
SIX = re.compile(r"-?\d+\.\d{6}$")


# ----------------------------------------------------------------------------- generators


def boundary_sizes(blocks):
    out = []
    for B in blocks:
        out += [B - 1, B, B + 1, 2 * B - 1, 2 * B + 1, B + B // 3]
    return sorted(set(out))


def spread(items, *entropy):
    """Element of `items` chosen by a hash of everything else drawn for the case (Hypothesis re-uses parts of earlier
    examples, so sizes drawn with sampled_from come in runs and whole boundary classes stay empty in a short run)."""
    return items[zlib.crc32(repr(entropy).encode()) % len(items)]


@st.composite
def layout_st(draw, eols=("\n", "\r\n")):
    """Text layout of a generated dump: plain (one blank, LF) | exactly what LAMMPS prints (bounds %.16e, a trailing
    blank after the ATOMS header and every atom line) | mixed (CRLF as in the repository's sample files, two blanks,
    tabs, right-aligned columns, no newline after the last line)."""
    kind = draw(st.sampled_from(["plain", "plain", "lammps", "mixed", "mixed"]))
    if kind == "plain":
        lay = dict(io19.LAYOUT_PLAIN)
    elif kind == "lammps":
        lay = dict(io19.LAYOUT_LAMMPS)
        lay["eol"] = draw(st.sampled_from(["\n"] + list(eols)))
    else:
        lay = {"eol": draw(st.sampled_from(list(eols))), "sep": draw(st.sampled_from(["1", "2", "tab", "mixed", "pad"])),
               "trail": draw(st.booleans()), "final_newline": draw(st.sampled_from([True, True, False])),
               "bfmt": draw(st.sampled_from([None, "%.16e", "%g"])), "kind": "mixed"}
    return lay


def layout_tags(lay):
    tags = ["layout-" + lay.get("kind", "plain")]
    if lay["eol"] == "\r\n":
        tags.append("eol-crlf")
    if lay["sep"] != "1":
        tags.append("sep-" + {"2": "double", "tab": "tab", "mixed": "mixed", "pad": "pad"}[lay["sep"]])
    if lay["trail"]:
        tags.append("trail-blank")
    if not lay["final_newline"]:
        tags.append("no-final-newline")
    return tags


def file_name(kind, stem):
    """File-name forms callers use (cwd = scratch directory of the shard): absolute, bare, in a sub-folder, with blanks."""
    if kind == "abs":
        return os.path.join(os.getcwd(), stem)
    if kind == "bare":
        return stem
    rel = os.path.join("sub/run.1", stem) if kind == "sub" else "my " + stem.replace(".", " file.", 1)
    if os.path.dirname(rel):
        os.makedirs(os.path.dirname(rel), exist_ok=True)
    return rel


NAME_KINDS = ["abs", "abs", "bare", "sub", "space"]


def write_text(fn, text):
    with open(fn, "w", newline="") as f:     # byte for byte: CRLF stays CRLF
        f.write(text)


@st.composite
def atoms_st(draw, d, style, nextra, N=None, kmax=9, labels=None):
    if N is None:
        N = draw(st.integers(1, 12))
    ids = np.array(draw(st.permutations(range(1, N + 1))), dtype=int)
    if draw(st.integers(0, 5)) == 0:
        ids = np.arange(1, N + 1)
    tpool = st.integers(1, kmax) if labels is None else st.sampled_from(list(labels))
    types = np.array(draw(st.lists(tpool, min_size=N, max_size=N)), dtype=np.int64)
    f = draw(frac_st(N, d))
    exc = np.zeros((N, d))
    wrapmode = draw(st.sampled_from(["inside", "inside", "mixed", "mixed", "all-low", "all-high"])) if style == "x" else None
    if wrapmode == "mixed":
        exc = draw(hnp.arrays(np.float64, (N, d), elements=st.one_of(st.just(0.0), st.just(0.0), fl(-0.99, 0.99))))
    elif wrapmode in ("all-low", "all-high") and N:
        # every coordinate of every atom outside the box on the same side (batch-level short-cuts)
        u = draw(hnp.arrays(np.float64, (N, d), elements=fl(0.001, 0.98)))
        exc = (-u - f) if wrapmode == "all-low" else (1.0 + u - f)
    elif style == "xu":
        exc = draw(hnp.arrays(np.float64, (N, d), elements=st.one_of(st.just(0.0), fl(-5.0, 5.0)))).round(3)
    extras = draw(hnp.arrays(np.float64, (N, nextra), elements=st.one_of(
        fl(-100.0, 100.0), st.integers(-50, 50).map(float), st.sampled_from([0.0, 1e-5, -2.5e7, 1e12]))))
    return {"ids": ids, "types": types, "f": f, "exc": exc, "extras": extras, "wrapmode": wrapmode}


@st.composite
def box_st(draw, d, wide=False):
    L = np.array([draw(nice_float(0.5, 50.0)) for _ in range(d)])
    kind = draw(st.sampled_from(["zero", "centred", "arbitrary", "arbitrary"]))
    if kind == "zero":
        lo = np.zeros(d)
    elif kind == "centred":
        lo = -L / 2.0
    else:
        m = 1e4 if (wide and draw(st.booleans())) else 50.0
        lo = np.array([draw(nice_float(-m, m)) for _ in range(d)])
    return lo, L, kind


def steps_st(draw, T):
    t0 = draw(st.one_of(st.just(0), st.integers(0, 10 ** 9), st.integers(0, 10 ** 9), st.sampled_from(BIG_STEPS)))
    # schedules a simulation can write: increasing (usual); the same step written again (run 0, minimisation,
    # restart); a counter that goes back (reset_timestep).  Every frame is promised whatever its TIMESTEP says.
    sched = draw(st.sampled_from(["increasing", "increasing", "increasing", "repeats", "any-order"])) if T > 1 else "single"
    steps = [t0]
    for _ in range(T - 1):
        if sched == "increasing":
            steps.append(steps[-1] + draw(st.integers(1, 10 ** 6)))
        elif sched == "repeats":
            steps.append(steps[-1] + draw(st.sampled_from([0, 0, 1, 500])))
        else:
            steps.append(draw(st.integers(0, 10 ** 6)))
    return steps


@st.composite
def dump_case_st(draw, styles=("x", "xs", "xu"), frames=(1, 3), tilted=False, kmax=9, maybe_fixed_n=False, labels=None,
                 many_extras=False):
    d = draw(st.sampled_from([2, 3]))
    style = draw(st.sampled_from(list(styles)))
    fmt = draw(st.sampled_from(FORMATS))
    T = draw(st.integers(*frames))
    nextra = draw(st.integers(0, 3))
    if many_extras and draw(st.integers(0, 4)) == 0:
        nextra = draw(st.integers(4, 12))       # two-digit column numbers
    names = draw(st.lists(st.sampled_from(EXTRA_NAMES), min_size=nextra, max_size=nextra, unique=True))
    zcol = draw(st.booleans()) if d == 2 else False
    fixed = draw(st.booleans()) if maybe_fixed_n else False
    nfix = draw(st.one_of(st.integers(1, 10), st.integers(1, 2))) if fixed else None
    steps = steps_st(draw, T)
    # a non-numeric trailing column (dump custom ... element), before or after the numeric ones, in every frame
    with_elem = draw(st.integers(0, 3)) == 0
    elem_first = draw(st.booleans())
    fr = []
    for k in range(T):
        lo, L, okind = draw(box_st(d))
        a = draw(atoms_st(d, style, nextra, N=nfix, kmax=kmax, labels=labels))
        tilt = None
        if tilted and draw(st.booleans()):
            tilt = [draw(nice_float(-0.5, 0.5)) * L[0], draw(nice_float(-0.5, 0.5)) * L[0],
                    draw(nice_float(-0.5, 0.5)) * L[1]]
        elem = None
        if with_elem:
            elem = {"values": draw(st.lists(st.sampled_from(ELEMENTS), min_size=len(a["ids"]), max_size=len(a["ids"]))),
                    "first": elem_first}
        a.update(timestep=steps[k], lo=lo, L=L, origin=okind, tilt=tilt, names=names, zcol=zcol,
                 flags=draw(st.sampled_from(FLAGS)), elem=elem)
        fr.append(a)
    return {"d": d, "style": style, "fmt": fmt, "frames": fr, "fixed_n": fixed, "layout": draw(layout_st()),
            "fname": draw(st.sampled_from(NAME_KINDS))}


# ----------------------------------------------------------------------------- shared comparison


def parsed(text, what):
    try:
        return io19.parse_dump(text)
    except (ValueError, IndexError, KeyError) as e:
        raise Violation(f"{what}: text is not a sequence of LAMMPS ITEM records ({e}):\n{text[:600]}")


def snaps_ok(tag, snaps, n):
    require(snaps is not None and hasattr(snaps, "nsnapshots") and hasattr(snaps, "snapshots"),
            lambda: f"{tag}: result is not a Snapshots object: {snaps!r:.200}")
    require(snaps.nsnapshots == n, f"{tag}: nsnapshots = {snaps.nsnapshots}, {n} frames were written")
    require(len(snaps.snapshots) == n, f"{tag}: {len(snaps.snapshots)} snapshots returned for {n} frames")


def cmp_box(t, s, e):
    scale = max(1.0, np.abs(e["boxbounds"]).max())
    atol = 4e-15 * scale * 8
    close(f"{t}: boxbounds", s.boxbounds, e["boxbounds"], rtol=1e-12, atol=atol)
    close(f"{t}: boxlength", s.boxlength, e["boxlength"], rtol=1e-12, atol=atol)
    close(f"{t}: hmatrix", s.hmatrix, e["hmatrix"], rtol=1e-12, atol=atol)
    return atol


def cmp_positions(t, got, e, atol):
    """positions by id; coordinates flagged ambiguous (on a face, x style) may be either periodic image."""
    want = e["positions"]
    g = arr(f"{t}: positions", got, shape=want.shape)
    if g.size == 0:
        return 0
    tol = atol + 1e-12 * np.abs(want)
    ok = np.abs(g - want) <= tol
    amb = e["ambiguous"]
    if amb.any():
        L = e["boxlength"]
        for alt in (e["raw"], e["raw"] + L, e["raw"] - L):
            ok |= amb & (np.abs(g - alt) <= tol + 1e-12 * np.abs(alt))
    if not ok.all():
        i = tuple(int(v) for v in np.argwhere(~ok)[0])
        raise Violation(f"{t}: positions differ at {i}: got {g[i]!r}, want {want[i]!r} "
                        f"({int((~ok).sum())}/{g.size} entries; max |diff| {np.abs(g - want).max():.3e})")
    return int(amb.sum())


def cmp_frame(t, s, e, box=True):
    require(s is not None, f"{t}: snapshot is None")
    require(int(s.timestep) == e["timestep"], f"{t}: timestep {s.timestep} != {e['timestep']}")
    require(int(s.nparticle) == e["nparticle"], f"{t}: nparticle {s.nparticle} != {e['nparticle']}")
    equal(f"{t}: particle_type", s.particle_type, e["types"])
    atol = cmp_box(t, s, e) if box else 1e-13
    return atol


def frame_tags(case):
    fr = case["frames"]
    tags = [f"d{case['d']}", "style-" + case.get("style", "x"), f"frames{len(fr)}" if len(fr) <= 4 else "frames5+",
            "fmt" + case.get("fmt", "")]
    shuffled = any(not np.array_equal(f["ids"], np.arange(1, len(f["ids"]) + 1)) for f in fr)
    tags.append("shuffled" if shuffled else "ordered")
    if len({len(f["ids"]) for f in fr}) > 1:
        tags.append("N-varies")
    tags.append("origin" if any(np.any(np.asarray(f["lo"]) != 0) for f in fr) else "origin0")
    if "layout" in case:
        tags += layout_tags(case["layout"])
    if "fname" in case:
        tags.append("name-" + case["fname"])
    if any(f.get("elem") is not None for f in fr):
        tags.append("extra-element")
    if any(len(f["ids"]) == 1 for f in fr):
        tags.append("N1")
    for m in sorted({f.get("wrapmode") for f in fr if f.get("wrapmode")}):
        tags.append("wrap-" + m)
    tmax = max(int(f["timestep"]) for f in fr)
    tags.append("ts-ge-2^53" if tmax >= 2**53 else "ts-ge-2^31" if tmax >= 2**31 else "ts-small")
    return tags, shuffled


# ----------------------------------------------------------------------------- (a) dump header writer


@st.composite
def header_case_st(draw):
    d = draw(st.sampled_from([2, 3]))
    fmt = draw(st.sampled_from(FORMATS))
    T = draw(st.integers(1, 3))
    steps = steps_st(draw, T)
    addson = draw(st.sampled_from(ADDSON))
    if draw(st.integers(0, 2)) == 0:      # any additional-column names, any number of them
        addson = draw(st.sampled_from([" ", "  "])).join(
            draw(st.lists(st.sampled_from(ADDSON_NAMES), min_size=1, max_size=8, unique=True)))
    nextra = len(addson.split()) if addson else 0
    container = draw(st.sampled_from(["ndarray", "ndarray", "list", "float32", "tuple", "int64", "int-list"]))
    # particle numbers around block sizes (seeded atom arrays) as their own class
    big = draw(st.integers(0, 7)) == 0
    fr = []
    for k in range(T):
        lo, L, okind = draw(box_st(d, wide=True))
        if draw(st.integers(0, 3)) == 0:  # bounds that carry more than six decimals
            lo = lo + draw(fl(-1.0, 1.0))
            L = L + draw(fl(0.0, 1.0))
        if container in ("int64", "int-list"):   # a hand-built integer box: np.array([[0, 10], [0, 10], [0, 10]])
            lo, L = np.round(lo), np.maximum(1.0, np.round(L))
        if big and k == 0:
            N = draw(st.sampled_from(boundary_sizes(BLOCKS_QUICK)))
            rng = np.random.default_rng(draw(st.integers(0, 2**32 - 1)))
            a = {"ids": (rng.permutation(N) + 1).astype(int), "types": rng.integers(1, 4, N).astype(np.int64),
                 "f": rng.random((N, d)), "exc": np.zeros((N, d)), "extras": rng.uniform(-100, 100, (N, nextra))}
        else:
            a = draw(atoms_st(d, "x", nextra))
        a.update(timestep=steps[k], lo=lo, L=L, origin=okind)
        fr.append(a)
    lay = draw(layout_st(eols=("\n",)))       # the writer's own lines end in LF; the atom lines follow suit
    lay["final_newline"] = True
    return {"d": d, "fmt": fmt, "frames": fr, "addson": addson, "style": "x", "container": container,
            "np_int": draw(st.booleans()), "layout": lay, "fname": draw(st.sampled_from(NAME_KINDS)), "big": big}


def make_bounds(lo, L, container):
    b = np.stack([lo, lo + L], axis=1)
    if container == "float32":
        b = b.astype(np.float32)
    if container == "int64":
        b = b.astype(np.int64)
    if container == "int-list":
        return [[int(v) for v in r] for r in b], b
    if container == "list":
        return b.tolist(), b
    if container == "tuple":
        return tuple(tuple(float(v) for v in r) for r in b), b
    return b, b


def check_written_bounds(what, tokens, given):
    """tokens: list of (lo, hi) strings; given: array (k,2) handed to the writer."""
    for ax, (tl, th) in enumerate(tokens):
        for tok, val in ((tl, given[ax][0]), (th, given[ax][1])):
            require(SIX.match(tok) is not None, f"{what}: bound {tok!r} is not printed with six decimals")
            val = float(val)
            require(abs(float(tok) - val) <= 5e-7 * (1 + 1e-9) + 8 * np.spacing(abs(val)),
                    f"{what}: axis {ax} bound written as {tok}, the value given was {val!r}")


def check_header_dump(case):
    d = case["d"]
    text = []
    given = []
    for fr in case["frames"]:
        barg, b = make_bounds(fr["lo"], fr["L"], case["container"])
        N = len(fr["ids"])
        ts = np.int64(fr["timestep"]) if case["np_int"] else int(fr["timestep"])
        kw = dict(timestep=ts, nparticle=np.int64(N) if case["np_int"] else N, boxbounds=barg)
        if case["addson"] is not None:
            kw["addson"] = case["addson"]
        head = write_dump_header(**kw)
        require(isinstance(head, str) and head.endswith("\n"), f"write_dump_header returned {head!r:.200}")
        coords = b[:, 0].astype(float) + (fr["f"] + fr["exc"]) * (b[:, 1].astype(float) - b[:, 0].astype(float))
        text.append(head + io19.atom_lines(case["fmt"], fr["ids"], fr["types"], coords, fr["extras"], lay=case.get("layout")))
        given.append(b)
    text = "".join(text)
    frames = parsed(text, "write_dump_header + atom lines")
    require(len(frames) == len(case["frames"]), f"{len(frames)} TIMESTEP records in the text of {len(case['frames'])} frames")
    # --- the header itself, read by the independent parser
    for k, (pf, fr, b) in enumerate(zip(frames, case["frames"], given)):
        t = f"header of frame {k}"
        for key in ("natoms", "bound_tokens", "columns"):
            require(key in pf, f"{t}: no {key} record")
        require(pf["timestep"] == fr["timestep"], f"{t}: TIMESTEP {pf['timestep']} != {fr['timestep']}")
        require(pf["natoms"] == len(fr["ids"]), f"{t}: NUMBER OF ATOMS {pf['natoms']} != {len(fr['ids'])}")
        require(not pf["triclinic"] and len(pf["flags"]) == 3, f"{t}: BOX BOUNDS flags {pf['flags']}")
        require(all(len(x) == 2 for x in pf["bound_tokens"]), f"{t}: bounds lines {pf['bound_tokens']}")
        check_written_bounds(t, pf["bound_tokens"][:d], b)
        if d == 2:
            zl, zh = (float(x) for x in pf["bound_tokens"][2])
            require(zl < zh and zl <= 0.0 <= zh, f"{t}: 2D dummy z bounds {pf['bound_tokens'][2]} do not enclose z = 0")
            require((zl, zh) == (-0.5, 0.5), f"{t}: 2D dummy z bounds {pf['bound_tokens'][2]} != -0.5 0.5")
        want_cols = ["id", "type"] + ["x", "y", "z"][:d]
        require(pf["columns"][:2 + d] == want_cols, f"{t}: ATOMS columns {pf['columns']}")
        if case["addson"] is not None:
            require(pf["columns"][2 + d:] == case["addson"].split(), f"{t}: ATOMS columns {pf['columns']} for addson={case['addson']!r}")
    # --- read back
    fn = file_name(case.get("fname", "abs"), "hdr.dump")
    write_text(fn, text)
    namb = 0
    exp = [io19.atomic_expected(pf, d) for pf in frames]
    for tag, get in (("read_lammps_wrapper", lambda: read_lammps_wrapper(fn, d)),
                     ("DumpReader(LAMMPS)", lambda: _dump_reader(fn, d, DumpFileType.LAMMPS))):
        snaps = get()
        snaps_ok(tag, snaps, len(exp))
        for k, (s, e) in enumerate(zip(snaps.snapshots, exp)):
            t = f"{tag} frame {k}"
            atol = cmp_frame(t, s, e)
            # bounds against the numbers given to the writer (six decimals)
            bb = arr(f"{t}: boxbounds", s.boxbounds, shape=(d, 2))
            g = np.asarray(given[k], dtype=float)
            require(np.all(np.abs(bb - g) <= 5e-7 * (1 + 1e-9) + 8 * np.spacing(np.abs(g))),
                    f"{t}: boxbounds {bb.tolist()} differ from the bounds given to the writer {g.tolist()} by more than 5e-7")
            namb += cmp_positions(t, s.positions, e, atol)
    tags, shuffled = frame_tags(case)
    nadd = len(case["addson"].split()) if case["addson"] else 0
    if nadd:
        # the additional columns named in the header, fetched by the column readers (writer -> auxiliary reader loop)
        cols1 = list(range(2 + d + 1, 2 + d + nadd + 1))
        cexp = [io19.columns_expected(pf, cols1) for pf in frames]
        _cmp_vector(f"read_lammps_vector_wrapper(columnsids={cols1}) on the writer's frames", read_lammps_vector_wrapper(fn, d, cols1),
                    cexp, frames)
        if len({pf["natoms"] for pf in frames}) == 1:
            want = np.array([v[:, -1] for v, _ in cexp])
            close(f"read_additions(ncol={cols1[-1] - 1}) on the writer's frames", read_additions(fn, cols1[-1] - 1), want,
                  rtol=1e-12, atol=0.0)
            tags.append("addson-read_additions")
        tags.append("addson-columns-read-back")
    sixdec = all(np.array_equal(np.round(np.asarray(b, float), 6), np.asarray(b, float)) for b in given)
    tags += ["addson-" + ("None" if case["addson"] is None else str(min(len(case["addson"].split()), 4))),
             "bounds-" + case["container"], "bounds-exact-6dec" if sixdec else "bounds-rounded"]
    if any(np.abs(np.asarray(b)).max() > 100 for b in given):
        tags.append("bounds-wide")
    if case.get("big"):
        tags.append(f"size-boundary-{len(case['frames'][0]['ids'])}")
    if case["addson"] is not None and len(case["addson"].split()) > 3:
        tags.append("addson-4+")
    tags.append("ints-numpy" if case["np_int"] else "ints-python")
    nontrivial = bool((not sixdec) or d == 2 or len(frames) >= 2)
    return {"nontrivial": nontrivial, "tags": tags, "extra": {"ambiguous_coords": namb}}


def _dump_reader(fn, d, ft, **kw):
    rd = DumpReader(fn, ndim=d, filetype=ft, **kw)
    rd.read_onefile()
    return rd.snapshots


# ----------------------------------------------------------------------------- (a') data header writer


@st.composite
def data_case_st(draw):
    d = draw(st.sampled_from([2, 3]))
    lo, L, okind = draw(box_st(d, wide=True))
    if draw(st.booleans()):
        lo = lo + draw(fl(-1.0, 1.0))
        L = L + draw(fl(0.0, 1.0))
    container = draw(st.sampled_from(["ndarray", "ndarray", "list", "float32", "tuple", "int64", "int-list"]))
    if container in ("int64", "int-list"):
        lo, L = np.round(lo), np.maximum(1.0, np.round(L))
    return {"d": d, "lo": lo, "L": L,
            "N": draw(st.one_of(st.integers(1, 200), st.integers(1, 10 ** 7), st.sampled_from([2**31 - 1, 2**31, 10**12]))),
            "K": draw(st.one_of(st.integers(1, 20), st.sampled_from([100, 1000]))), "container": container,
            "np_int": draw(st.booleans())}


def check_data_header(case):
    d = case["d"]
    barg, b = make_bounds(case["lo"], case["L"], case["container"])
    N = np.int64(case["N"]) if case["np_int"] else case["N"]
    head = write_data_header(nparticle=N, nparticle_type=np.int64(case["K"]) if case["np_int"] else case["K"], boxbounds=barg)
    require(isinstance(head, str) and head.endswith("\n"), f"write_data_header returned {head!r:.200}")
    lines = head.split("\n")
    require(lines[0].strip() != "" and len(lines) > 2, f"data header has no title line: {head!r:.200}")
    try:
        p = io19.parse_data_header(head)
    except (ValueError, IndexError) as e:
        raise Violation(f"data header cannot be parsed by the read_data header rules ({e}):\n{head}")
    require(not p["unknown"], f"data header contains lines that are not header lines: {p['unknown']}")
    require(p["counts"] == {"atoms": case["N"], "atom types": case["K"]},
            f"data header counts {p['counts']} != atoms {case['N']}, atom types {case['K']}")
    require(sorted(p["bounds"]) == ["x", "y", "z"], f"data header bounds for axes {sorted(p['bounds'])}")
    check_written_bounds("data header", [p["bound_tokens"][a] for a in "xyz"[:d]], b)
    if d == 2:
        require(p["bounds"]["z"] == (-0.5, 0.5), f"2D data header z bounds {p['bound_tokens']['z']} != -0.5 0.5")
    require("tilt" not in p, "orthogonal data header carries tilt factors")
    require(p["section"] == "Atoms", f"header is not followed by the Atoms section: {p['section']!r}")
    k = lines.index(p["section_line"])
    require(lines[k - 1].strip() == "" and p["after_section"] and p["after_section"][0].strip() == "",
            "the 'Atoms' keyword is not surrounded by blank lines")
    sixdec = np.array_equal(np.round(b.astype(float), 6), b.astype(float))
    return {"nontrivial": bool(d == 2 or not sixdec or len(set(case["L"].tolist())) > 1),
            "tags": [f"d{d}", "bounds-" + case["container"], "bounds-exact-6dec" if sixdec else "bounds-rounded",
                     "N-big" if case["N"] > 200 else "N-small"]}


# ----------------------------------------------------------------------------- (b) molecule-centre reader


@st.composite
def centre_case_st(draw):
    K = draw(st.sampled_from([1, 2, 2, 3, 3, 4, 5, 6]))
    # the atom types of a molecular dump need not be 1..K: the reader only looks labels up in the map
    sparse = draw(st.integers(0, 3)) == 0
    labels = sorted(draw(st.lists(st.sampled_from([1, 2, 3, 5, 7, 12, 40, 99, 100, 250, 999]), min_size=K, max_size=K,
                                  unique=True))) if sparse else list(range(1, K + 1))
    case = draw(dump_case_st(kmax=K, labels=labels if sparse else None))
    absent = [v for v in (labels[-1] + 1, 4, 1000) if v not in labels][:1]
    keys = draw(st.lists(st.sampled_from(labels + absent), min_size=1,
                         max_size=max(1, K - 1) if draw(st.integers(0, 3)) else K + 1, unique=True))
    how = draw(st.sampled_from(["arbitrary", "arbitrary", "arbitrary", "shifted", "rank", "identity", "merged",
                                "zero-based", "wide"]))
    if how == "zero-based":
        # molecule types counted from zero / any integers: the map's VALUES are labels, not indices (seeded C19-D used 0
        # as the "not a centre" sentinel of a lookup table and dropped the atoms mapped to 0)
        mol = {k: i for i, k in enumerate(sorted(keys))}
    elif how == "wide":
        mol = {k: draw(st.sampled_from([0, -1, 7, 12, 100, 2**31 - 1])) for k in keys}
    elif how == "identity":
        mol = {k: k for k in keys}
    elif how == "rank":
        mol = {k: i + 1 for i, k in enumerate(sorted(keys))}
    elif how == "merged":
        mol = {k: 1 + len(keys) % 3 for k in keys}
    elif how == "shifted":
        mol = {k: k + 1 for k in keys}
    else:
        mol = {k: 1 + (k + draw(st.integers(0, 4))) % 5 for k in keys}  # offset 4 = unchanged label
    case["moltypes"] = mol
    case["K"] = K
    case["values_how"] = how
    case["sparse"] = sparse
    # the same map as numpy integers (keys taken from np.unique(types), values from an integer array)
    case["map_as"] = draw(st.sampled_from(["int", "int", "np.int64", "np.int32-values"]))
    return case


def check_centertype(case):
    case = materialise(case)
    d = case["d"]
    text = case.get("_text") or io19.encode_dump(case)
    frames = parsed(text, "generated dump")
    fn = file_name(case.get("fname", "abs"), "mol.dump")
    write_text(fn, text)
    mol = dict(case["moltypes"])
    exp = [io19.centres_expected(pf, d, mol) for pf in frames]
    namb = 0
    how = case.get("map_as", "int")

    def marg():
        if how == "np.int64":
            return {np.int64(k): np.int64(v) for k, v in mol.items()}
        if how == "np.int32-values":
            return {k: np.int32(v) for k, v in mol.items()}
        return dict(mol)

    for tag, get in (("read_lammps_centertype_wrapper", lambda: read_lammps_centertype_wrapper(fn, d, marg())),
                     ("DumpReader(LAMMPSCENTER)", lambda: _dump_reader(fn, d, DumpFileType.LAMMPSCENTER, moltypes=marg()))):
        snaps = get()
        snaps_ok(tag, snaps, len(exp))
        for k, (s, e) in enumerate(zip(snaps.snapshots, exp)):
            t = f"{tag} frame {k} (moltypes={mol}, selected ids {e['selected_ids'].tolist()})"
            atol = cmp_frame(t, s, e)
            namb += cmp_positions(t, s.positions, e, atol)
    tags, shuffled = frame_tags(case)
    nsel = sum(e["nparticle"] for e in exp)
    ntot = sum(pf["natoms"] for pf in frames)
    present = set(int(r[1]) for pf in frames for r in pf["rows"])
    relabel = any(mol[k] != k for k in mol if k in present)
    merged = len({mol[k] for k in mol if k in present}) < len([k for k in mol if k in present])
    tags.append("select-none" if nsel == 0 else "select-all" if nsel == ntot else "select-some")
    tags.append("relabel" if relabel else "relabel-identity")
    if merged:
        tags.append("keys-merged")
    if any(k not in present for k in mol):
        tags.append("key-absent")
    if any(e["nparticle"] == 0 for e in exp) and nsel > 0:
        tags.append("one-frame-empty")
    if any(e["nparticle"] == 1 for e in exp):
        tags.append("one-centre-selected")
    tags.append("labels-sparse" if case.get("sparse") else "labels-1..K")
    if case.get("values_how"):
        tags.append("values-" + case["values_how"])
    if any(v <= 0 for v in mol.values()):
        tags.append("value-zero-or-negative")
    tags.append("map-" + how)
    nontrivial = bool(0 < nsel < ntot and relabel)
    return {"nontrivial": nontrivial, "tags": tags, "extra": {"ambiguous_coords": namb}}


# ----------------------------------------------------------------------------- (c) column readers


@st.composite
def column_case_st(draw):
    case = draw(dump_case_st(frames=(1, 4), tilted=True, maybe_fixed_n=True, many_extras=True))
    case.update(column_choice(draw, case))
    return case


def column_choice(draw, case):
    """Draws the column arguments for a dump case: 1-based `columnsids`, 0-based `ncol0`; only numeric columns are
    requested (the non-numeric element column, when present, merely shifts the others)."""
    fr0 = case["frames"][0]
    nbase = 2 + (3 if (case["d"] == 3 or fr0["zcol"]) else 2)
    elem = fr0.get("elem")
    ntrail = len(fr0["names"]) + (1 if elem is not None else 0)
    ncols = nbase + ntrail
    elem_col = None if elem is None else (nbase + 1 if elem["first"] else ncols)
    numeric = [c for c in range(1, ncols + 1) if c != elem_col]
    extra = [c for c in numeric if c > nbase]
    pool = st.sampled_from(numeric)
    if extra:
        pool = st.one_of(st.sampled_from(extra), st.sampled_from(extra), pool)
    out = {}
    out["columnsids"] = draw(st.lists(pool, min_size=1, max_size=draw(st.sampled_from([4, 4, 8]))))
    out["ncol0"] = draw(st.one_of(st.sampled_from(numeric), st.sampled_from(extra or numeric))) - 1
    out["ncols"] = ncols
    out["nbase"] = nbase
    # the documented argument type is List[int]; value-equal arguments the unchanged reader accepts with the same result:
    # tuple, integer arrays (int64 / int32), a float64 array (what np.loadtxt returns), a list of numpy integers
    out["ids_as"] = draw(st.sampled_from(["list", "list", "list", "tuple", "int64", "int32", "float64", "list-np-int"]))
    out["ncol_as"] = draw(st.sampled_from(["int", "int", "np.int64"]))
    return out


def check_columns(case):
    case = materialise(case)
    d = case["d"]
    text = case.get("_text") or io19.encode_dump(case)
    frames = parsed(text, "generated dump")
    fn = file_name(case.get("fname", "abs"), "vec.dump")
    write_text(fn, text)
    cols1 = [int(c) for c in case["columnsids"]]
    arg = {"list": list(cols1), "tuple": tuple(cols1), "ndarray": np.array(cols1), "int64": np.array(cols1, dtype=np.int64),
           "int32": np.array(cols1, dtype=np.int32), "float64": np.array(cols1, dtype=np.float64),
           "list-np-int": [np.int64(c) for c in cols1]}[case["ids_as"]]
    exp = [io19.columns_expected(pf, cols1) for pf in frames]
    for tag, get in (("read_lammps_vector_wrapper", lambda: read_lammps_vector_wrapper(fn, d, arg)),
                     ("DumpReader(LAMMPSVECTOR)", lambda: _dump_reader(fn, d, DumpFileType.LAMMPSVECTOR, columnsids=arg))):
        snaps = get()
        snaps_ok(tag, snaps, len(exp))
        for k, (s, (vals, typ), pf) in enumerate(zip(snaps.snapshots, exp, frames)):
            t = f"{tag} frame {k} (columnsids={cols1})"
            require(s is not None, f"{t}: snapshot is None")
            require(int(s.timestep) == pf["timestep"], f"{t}: timestep {s.timestep} != {pf['timestep']}")
            require(int(s.nparticle) == pf["natoms"], f"{t}: nparticle {s.nparticle} != {pf['natoms']}")
            equal(f"{t}: particle_type", s.particle_type, typ)
            close(f"{t}: columns (returned as positions)", s.positions, vals, rtol=1e-12, atol=0.0)
            if not pf["triclinic"]:
                lo, hi = io19.frame_bounds(pf, d)
                cmp_box(t, s, {"boxbounds": np.stack([lo, hi], axis=1), "boxlength": hi - lo, "hmatrix": np.diag(hi - lo)})
    tags, shuffled = frame_tags(case)
    if case["fixed_n"]:
        c0 = int(case["ncol0"])
        res = read_additions(fn, np.int64(c0) if case.get("ncol_as") == "np.int64" else c0)
        want = np.array([io19.columns_expected(pf, [c0 + 1])[0][:, 0] for pf in frames])
        close(f"read_additions(ncol={c0})", res, want, rtol=1e-12, atol=0.0)
        tags.append("read_additions")
        tags.append("additions-extra-col" if c0 >= case.get("nbase", case["ncols"] - len(case["frames"][0]["names"])) else "additions-base-col")
        if case.get("ncol_as") == "np.int64":
            tags.append("additions-ncol-np-int64")
    tags.append(f"ncolumnsids{len(cols1)}")
    tags.append("ids-" + case["ids_as"])
    if any(pf["triclinic"] for pf in frames):
        tags.append("tilted-header")
    if case["d"] == 2 and case["frames"][0]["zcol"]:
        tags.append("2d-with-z-column")
    first_extra = case.get("nbase", case["ncols"] - len(case["frames"][0]["names"])) + 1
    tags.append("extra-columns" if any(c >= first_extra for c in cols1) and case["frames"][0]["names"] else "base-columns-only")
    if any(c >= 10 for c in cols1):
        tags.append("column-id-two-digits")
    if len(set(cols1)) < len(cols1):
        tags.append("column-repeated")
    if cols1 != sorted(cols1):
        tags.append("columns-not-ascending")
    nontrivial = bool(shuffled and (len(frames) >= 2 or len(cols1) >= 2))
    return {"nontrivial": nontrivial, "tags": tags}


# ----------------------------------------------------------------------------- (b, c) size classes and call sequences


def synth_frames(spec):
    """Frames of an orthogonal dump with many atoms / many frames: the per-atom arrays come from numpy's Generator under a
    Hypothesis-drawn seed (thousands of values do not fit a Hypothesis buffer); everything else is in `spec`."""
    rng = np.random.default_rng(spec["seed"])
    d, style = spec["d"], spec["style"]
    nextra = len(spec["names"])
    out = []
    for k, N in enumerate(spec["Ns"]):
        if spec["order"] == "ordered":
            ids = np.arange(1, N + 1)
        elif spec["order"] == "reversed":
            ids = np.arange(N, 0, -1)
        else:
            ids = rng.permutation(N) + 1
        types = rng.integers(1, spec["kmax"] + 1, N).astype(np.int64)
        f = rng.random((N, d))
        exc = np.zeros((N, d))
        if style == "x":
            zone = rng.integers(-1, 2, (N, d)) * (rng.random((N, d)) < 0.3)
            u = rng.uniform(0.001, 0.98, (N, d))
            exc = np.where(zone < 0, -u - f, np.where(zone > 0, 1.0 + u - f, 0.0))
        elif style == "xu":
            exc = np.round(rng.uniform(-5.0, 5.0, (N, d)), 3)
        L = np.round(rng.uniform(0.5, 50.0, d), 2) + 0.5
        lo = np.round(rng.uniform(-50.0, 50.0, d), 2) * int(rng.integers(0, 2))
        elem = None
        if spec["with_elem"]:
            elem = {"values": [ELEMENTS[int(i)] for i in rng.integers(0, len(ELEMENTS), N)], "first": spec["elem_first"]}
        out.append({"ids": ids.astype(int), "types": types, "f": f, "exc": exc,
                    "extras": np.where(rng.random((N, nextra)) < 0.2, np.round(rng.uniform(-50, 50, (N, nextra))),
                                       rng.uniform(-100.0, 100.0, (N, nextra))),
                    "timestep": spec["steps"][k], "lo": lo, "L": L, "origin": "arbitrary" if lo.any() else "zero",
                    "tilt": None, "names": list(spec["names"]), "zcol": spec["zcol"], "flags": spec["flags"], "elem": elem})
    return out


def materialise(case):
    if "frames" in case:
        return case
    out = dict(case)
    out["frames"] = synth_frames(case["synth"])
    return out


@st.composite
def reader_sizes_st(draw, blocks, frame_blocks, long_n=()):
    """Every Hypothesis draw is made first; the size itself is `spread` over the hash of all of them."""
    d = draw(st.sampled_from([2, 3]))
    style = draw(st.sampled_from(["x", "xs", "xu"]))
    kind = draw(st.sampled_from(["atoms", "atoms", "frames"] + (["long"] if long_n else [])))
    nextra = draw(st.integers(0, 3))
    kmax = draw(st.integers(1, 5))
    t0 = draw(st.one_of(st.integers(0, 10**9), st.sampled_from(BIG_STEPS)))
    dt = draw(st.sampled_from([0, 1, 1000]))
    seed = draw(st.integers(0, 2**32 - 1))
    spec = {"seed": seed, "d": d, "style": style, "kmax": kmax,
            "order": draw(st.sampled_from(["random", "random", "ordered", "reversed"])),
            "names": draw(st.lists(st.sampled_from(EXTRA_NAMES), min_size=nextra, max_size=nextra, unique=True)),
            "zcol": draw(st.booleans()) if d == 2 else False, "flags": draw(st.sampled_from(FLAGS)),
            "with_elem": draw(st.integers(0, 3)) == 0, "elem_first": draw(st.booleans())}
    fmt = draw(st.sampled_from(FORMATS))
    lay = draw(layout_st())
    fname = draw(st.sampled_from(NAME_KINDS))
    case = {"d": d, "style": style, "fmt": fmt, "layout": lay, "fname": fname, "K": kmax, "sparse": False}
    head = {"d": d, "frames": [{"names": spec["names"], "zcol": spec["zcol"],
                                "elem": {"first": spec["elem_first"]} if spec["with_elem"] else None}]}
    case.update(column_choice(draw, head))
    keys = draw(st.lists(st.integers(1, kmax + 1), min_size=1, max_size=kmax + 1, unique=True))
    case["moltypes"] = {k: draw(st.sampled_from([0, 1, 2, 3, 7, k])) for k in keys}
    case["map_as"] = draw(st.sampled_from(["int", "int", "np.int64"]))
    T = draw(st.sampled_from([1, 1, 2, 3]))
    vary = draw(st.integers(0, 2)) == 0
    others = [draw(st.sampled_from(["one", "minus", "plus"])) for _ in range(2)]
    n0 = draw(st.sampled_from([1, 1, 2, 3, 4]))
    const = draw(st.integers(0, 2)) > 0          # equal N in two cases out of three (read_additions needs it)
    tlong = draw(st.integers(1, 3))
    ent = (sorted(spec.items()), kind, t0, dt, sorted((k, repr(v)) for k, v in case.items()), T, vary, others, n0, const, tlong)
    if kind == "atoms":
        N = spread(boundary_sizes(blocks), ent)
        Ns = [N] * T
        if T > 1 and vary:
            Ns = [N] + [{"one": 1, "minus": N - 1, "plus": N + 1}[o] for o in others[: T - 1]]
        tag = f"size-boundary-{N}"
    elif kind == "frames":
        T = spread(boundary_sizes(frame_blocks), ent)
        Ns = [n0] * T if const else [int(v) for v in np.random.default_rng(seed ^ 0x5A5A5A5A).integers(0, 5, T)]
        tag = f"frames-boundary-{T}"
    else:
        N = spread(list(long_n), ent)
        Ns = [N] * tlong
        tag = f"long-N{N}"
    spec["Ns"] = Ns
    spec["steps"] = [t0 + k * dt for k in range(len(Ns))]
    case.update(synth=spec, fixed_n=len(set(Ns)) == 1, size_tag=tag)
    return case


def check_reader_sizes(case):
    case = materialise(case)
    case["_text"] = io19.encode_dump(case)
    a = check_centertype(case)
    b = check_columns(case)
    tags = sorted(set(a["tags"]) | set(b["tags"])) + [case["size_tag"]]
    kib = len(case["_text"]) / 1024.0
    for lim in (1024, 64, 8):
        if kib > lim:
            tags.append(f"long-file-{lim}KiB")
            break
    return {"nontrivial": True, "tags": tags, "extra": a.get("extra")}


def describe_sizes(case):
    return {"d": case["d"], "style": case["style"], "size": case["size_tag"], "Ns": case["synth"]["Ns"][:6],
            "moltypes": case["moltypes"], "columnsids": case["columnsids"], "ncol0": case["ncol0"]}


@st.composite
def aux_sequence_st(draw):
    """Several auxiliary-reader calls on two small files under re-used file names; every result is kept."""
    share = draw(st.booleans())
    files = []
    for k in range(2):
        fc = draw(dump_case_st(frames=(1, 3), kmax=4, maybe_fixed_n=True))
        fc["fname"] = "abs"
        files.append(fc)
    if share:
        # equal N and frame count in both files: a buffer keyed on the shape would be shared
        files[1]["d"] = files[0]["d"]
        n = len(files[0]["frames"][0]["ids"])
        T = len(files[0]["frames"])
        proto = draw(dump_case_st(frames=(T, T), kmax=4))
        fr = []
        for j in range(T):
            a = draw(atoms_st(files[0]["d"], proto["style"], len(files[0]["frames"][0]["names"]), N=n, kmax=4))
            lo, L, okind = draw(box_st(files[0]["d"]))
            a.update(timestep=proto["frames"][j]["timestep"], lo=lo, L=L, origin=okind, tilt=None,
                     names=files[0]["frames"][0]["names"], zcol=files[0]["frames"][0]["zcol"], flags="pp pp pp", elem=None)
            fr.append(a)
        for f0 in files[0]["frames"]:
            if len(f0["ids"]) != n:
                share = False
        files[1] = {"d": files[0]["d"], "style": proto["style"], "fmt": proto["fmt"], "frames": fr,
                    "fixed_n": True, "layout": proto["layout"], "fname": "abs"}
    plan = []
    for _ in range(draw(st.integers(3, 7))):
        k = draw(st.integers(0, 1))
        fc = files[k]
        kinds = ["centre", "centre", "vector", "vector"]
        if fc["fixed_n"] or len({len(f["ids"]) for f in fc["frames"]}) == 1:
            kinds.append("additions")
        kind = draw(st.sampled_from(kinds))
        stp = {"file": k, "slot": draw(st.integers(0, 1)), "kind": kind, "via": draw(st.sampled_from(["wrapper", "reader"]))}
        if kind == "centre":
            keys = draw(st.lists(st.integers(1, 5), min_size=1, max_size=4, unique=True))
            stp["mol"] = {key: draw(st.integers(0, 5)) for key in keys}
        else:
            cc = column_choice(draw, fc)
            stp["cols"] = cc["columnsids"]
            stp["ncol0"] = cc["ncol0"]
        plan.append(stp)
    return {"files": files, "plan": plan, "name_kind": draw(st.sampled_from(["abs", "bare"])), "share": share}


def _cmp_centre(tag, snaps, exp):
    snaps_ok(tag, snaps, len(exp))
    for k, (s, e) in enumerate(zip(snaps.snapshots, exp)):
        t = f"{tag} frame {k}"
        atol = cmp_frame(t, s, e)
        cmp_positions(t, s.positions, e, atol)


def _cmp_vector(tag, snaps, exp, frames):
    snaps_ok(tag, snaps, len(exp))
    for k, (s, (vals, typ), pf) in enumerate(zip(snaps.snapshots, exp, frames)):
        t = f"{tag} frame {k}"
        require(s is not None, f"{t}: snapshot is None")
        require(int(s.timestep) == pf["timestep"], f"{t}: timestep {s.timestep} != {pf['timestep']}")
        require(int(s.nparticle) == pf["natoms"], f"{t}: nparticle {s.nparticle} != {pf['natoms']}")
        equal(f"{t}: particle_type", s.particle_type, typ)
        close(f"{t}: columns (returned as positions)", s.positions, vals, rtol=1e-12, atol=0.0)


def _bits(x):
    """A comparable deep copy of a reader result (Snapshots or ndarray)."""
    if isinstance(x, np.ndarray):
        return x.copy()
    out = []
    for s_ in x.snapshots:
        out.append((int(s_.timestep), int(s_.nparticle), np.array(s_.particle_type, copy=True), np.array(s_.positions, copy=True),
                    np.array(s_.boxlength, copy=True), np.array(s_.boxbounds, copy=True), np.array(s_.hmatrix, copy=True)))
    return (x.nsnapshots, out)


def _bits_equal(a, b):
    if isinstance(a, np.ndarray):
        return isinstance(b, np.ndarray) and np.array_equal(a, b, equal_nan=True)
    if a[0] != b[0] or len(a[1]) != len(b[1]):
        return False
    for fa, fb in zip(a[1], b[1]):
        if fa[0] != fb[0] or fa[1] != fb[1]:
            return False
        if not all(x.shape == y.shape and np.array_equal(x, y) for x, y in zip(fa[2:], fb[2:])):
            return False
    return True


def _reader_twice(fn, d, ft, held, label, cmp, **kw):
    """One DumpReader object evaluated twice; the first result is kept alive, the second is returned."""
    rd = DumpReader(fn, ndim=d, filetype=ft, **kw)
    rd.read_onefile()
    first = rd.snapshots
    cmp(label + " (first evaluation)", first)
    held.append((label + " (first evaluation of the reader object)", first, _bits(first), cmp))
    rd.read_onefile()
    return rd.snapshots


def check_aux_sequence(case):
    texts = [io19.encode_dump(fc) for fc in case["files"]]
    parsed_ = [parsed(t, "generated dump") for t in texts]
    slots = [file_name(case["name_kind"], f"slot{k}.dump") for k in (0, 1)]
    in_slot = {}
    held = []
    rewrites = 0
    kinds = set()
    for n, stp in enumerate(case["plan"]):
        k, slot = stp["file"], stp["slot"]
        fc, frames, fn = case["files"][k], parsed_[k], slots[slot]
        d = fc["d"]
        if in_slot.get(slot) != k:
            rewrites += slot in in_slot
            write_text(fn, texts[k])
            in_slot[slot] = k
        label = f"call {n}: {stp['kind']} via {stp['via']} on file {k} in slot {slot}"
        kinds.add(stp["kind"])
        if stp["kind"] == "centre":
            mol = dict(stp["mol"])
            exp = [io19.centres_expected(pf, d, mol) for pf in frames]
            cmp = (lambda lab, r, exp=exp, mol=mol: _cmp_centre(lab + f" (moltypes={mol})", r, exp))
            res = read_lammps_centertype_wrapper(fn, d, dict(mol)) if stp["via"] == "wrapper" else \
                _reader_twice(fn, d, DumpFileType.LAMMPSCENTER, held, label, cmp, moltypes=dict(mol))
        elif stp["kind"] == "vector":
            cols1 = [int(c) for c in stp["cols"]]
            exp = [io19.columns_expected(pf, cols1) for pf in frames]
            cmp = (lambda lab, r, exp=exp, frames=frames, cols1=cols1: _cmp_vector(lab + f" (columnsids={cols1})", r, exp, frames))
            res = read_lammps_vector_wrapper(fn, d, list(cols1)) if stp["via"] == "wrapper" else \
                _reader_twice(fn, d, DumpFileType.LAMMPSVECTOR, held, label, cmp, columnsids=list(cols1))
        else:
            c0 = int(stp["ncol0"])
            want = np.array([io19.columns_expected(pf, [c0 + 1])[0][:, 0] for pf in frames])
            res = read_additions(fn, c0)
            cmp = (lambda lab, r, want=want: close(lab + f" (ncol={c0})", r, want, rtol=1e-12, atol=0.0))
        cmp(label, res)
        held.append((label, res, _bits(res), cmp))
    for label, res, cp, cmp in held:
        require(_bits_equal(_bits(res), cp), f"{label}: a result handed out earlier was modified by a later call")
        cmp(label + " re-examined after all calls", res)
    tags = [f"calls{len(case['plan'])}", "name-" + case["name_kind"], "shapes-shared" if case["share"] else "shapes-differ",
            "slot-rewritten" if rewrites else "slot-written-once"] + ["kind-" + k for k in sorted(kinds)]
    rep = {}
    for stp in case["plan"]:
        rep.setdefault((stp["kind"], stp["file"]), set()).add(repr(stp.get("mol") or stp.get("cols") or stp.get("ncol0")))
    if any(len(v) > 1 for v in rep.values()):
        tags.append("same-reader-same-file-different-arguments")
    return {"nontrivial": bool(rewrites or len(rep) > 1), "tags": tags}


def describe_aux_sequence(case):
    return {"plan": case["plan"], "files": [{"d": fc["d"], "style": fc["style"], "text": io19.encode_dump(fc)[:300]}
                                            for fc in case["files"]]}


# ----------------------------------------------------------------------------- (d) HOOMD frames


@st.composite
def gsd_case_st(draw, force_dcd=False):
    d = draw(st.sampled_from([2, 3]))
    T = draw(st.integers(1, 4))
    with_dcd = True if force_dcd else draw(st.booleans())
    K = draw(st.integers(1, 4))
    nfix = draw(st.integers(1, 8))
    f32 = st.floats(-50.0, 50.0, width=32, allow_nan=False)
    # size classes (seeded arrays): frames / particles around block sizes
    size = "small" if force_dcd else draw(st.sampled_from(["small"] * 8 + ["frames", "atoms"]))
    size_tag = None
    rng = None
    step_type = draw(st.sampled_from(["int", "uint64"]))
    name_kind = draw(st.sampled_from(["bare", "dot", "sub", "abs"]))
    stem = draw(st.sampled_from(["traj", "run.1", "a", "dump_T0.45"]))
    tdtype = draw(st.sampled_from([np.uint32, np.uint32, np.int32, np.int64]))
    pdtype = draw(st.sampled_from([np.float32, np.float32, np.float64]))
    tbig0 = draw(st.integers(0, 10**9))
    if size != "small":
        # seeded arrays; the size is spread over the hash of every draw of the case
        gseed = draw(st.integers(0, 2**32 - 1))
        rng = np.random.default_rng(gseed)
        ent = (gseed, d, T, K, nfix, with_dcd, step_type, name_kind, stem, np.dtype(tdtype).name, np.dtype(pdtype).name, tbig0)
        if size == "frames":
            T = spread(boundary_sizes([32, 64]), ent)
            size_tag = f"frames-boundary-{T}"
        else:
            nfix = spread(boundary_sizes(BLOCKS_QUICK), ent)
            size_tag = f"size-boundary-{nfix}"
    steps = steps_st(draw, T) if rng is None else [tbig0 + 100 * k for k in range(T)]
    fr = []
    for k in range(T):
        if rng is not None:
            N = nfix
            box = np.array(list(rng.uniform(1.0, 60.0, 3)) + [0.0, 0.0, 0.0], dtype=np.float32)
            if d == 2:
                box[2] = float(rng.integers(0, 2))
            pos = rng.uniform(-50.0, 50.0, (N, 3)).astype(np.float32)
            if d == 2 and rng.integers(0, 2):
                pos[:, 2] = 0.0
            typeid = rng.integers(0, K, N).astype(tdtype)
        else:
            N = nfix if (with_dcd or draw(st.booleans())) else draw(st.integers(1, 8))
            box = np.array([draw(st.floats(1.0, 60.0, width=32)) for _ in range(3)] + [0.0, 0.0, 0.0], dtype=np.float32)
            if d == 2:
                box[2] = draw(st.sampled_from([0.0, 1.0]))
            pos = draw(hnp.arrays(np.float32, (N, 3), elements=f32))
            if d == 2 and draw(st.booleans()):
                pos[:, 2] = 0.0
            typeid = np.array(draw(st.lists(st.integers(0, K - 1), min_size=N, max_size=N)), dtype=tdtype)
        fr.append({"step": steps[k], "box": box, "position": pos.astype(pdtype), "typeid": typeid})
    dcd = None
    if with_dcd:
        if rng is not None:
            dcd = rng.uniform(-500.0, 500.0, (T, nfix, 3)).astype(np.float32)
        else:
            dcd = draw(hnp.arrays(np.float32, (T, nfix, 3), elements=st.floats(-500.0, 500.0, width=32, allow_nan=False)))
    return {"d": d, "frames": fr, "dcd": dcd, "step_type": step_type, "size_tag": size_tag, "name_kind": name_kind, "stem": stem}


class _Trajectory:
    """Stand-in for gsd.hoomd.HOOMDTrajectory: len(), integer indexing, iteration."""

    def __init__(self, frames):
        self._frames = frames

    def __len__(self):
        return len(self._frames)

    def __getitem__(self, k):
        if not isinstance(k, (int, np.integer)):
            raise TypeError("stand-in trajectory supports integer indices only")
        return self._frames[k]

    def __iter__(self):
        return iter(list(self._frames))


class _DCD:
    """Stand-in for mdtraj.formats.DCDTrajectoryFile: read() -> (xyz, cell_lengths, cell_angles)."""

    def __init__(self, xyz):
        self._xyz = xyz
        self.closed = False
        self.reads = 0

    def read(self, n_frames=None, stride=None, atom_indices=None):
        self.reads += 1
        T = self._xyz.shape[0]
        return self._xyz.copy(), np.ones((T, 3), dtype=np.float32), np.full((T, 3), 90.0, dtype=np.float32)

    def close(self):
        self.closed = True


def make_traj(case):
    d = case["d"]
    frames = []
    for fr in case["frames"]:
        step = np.uint64(fr["step"]) if case["step_type"] == "uint64" else int(fr["step"])
        conf = _types.SimpleNamespace(step=step, dimensions=d, box=fr["box"].copy())
        part = _types.SimpleNamespace(N=len(fr["typeid"]), position=fr["position"].copy(), typeid=fr["typeid"].copy(),
                                      types=["A", "B", "C", "D"])
        frames.append(_types.SimpleNamespace(configuration=conf, particles=part))
    return _Trajectory(frames)


class _FakeModules:
    """Installs stand-in `gsd`, `gsd.hoomd`, `mdtraj`, `mdtraj.formats` modules for the duration of one call."""

    NAMES = ("gsd", "gsd.hoomd", "mdtraj", "mdtraj.formats")

    def __init__(self, traj, dcd):
        self.traj, self.dcd = traj, dcd
        self.opened = []
        self.dcd_opened = []

    def __enter__(self):
        self.saved = {n: sys.modules.get(n) for n in self.NAMES}
        gsd = _types.ModuleType("gsd")
        hoomd = _types.ModuleType("gsd.hoomd")

        def _open(name, mode="r", **kw):
            self.opened.append((name, mode))
            return self.traj

        hoomd.open = _open
        gsd.hoomd = hoomd
        md = _types.ModuleType("mdtraj")
        fm = _types.ModuleType("mdtraj.formats")

        def _dcd(name, mode="r", **kw):
            self.dcd_opened.append((name, mode))
            return self.dcd

        fm.DCDTrajectoryFile = _dcd
        md.formats = fm
        sys.modules.update({"gsd": gsd, "gsd.hoomd": hoomd, "mdtraj": md, "mdtraj.formats": fm})
        return self

    def __exit__(self, *a):
        for n, m in self.saved.items():
            if m is None:
                sys.modules.pop(n, None)
            else:
                sys.modules[n] = m
        return False


def _same_file(got, want):
    return isinstance(got, (str, os.PathLike)) and os.path.isfile(got) and os.path.samefile(got, want)


def cmp_gsd(tag, snaps, case, positions):
    d = case["d"]
    fr = case["frames"]
    snaps_ok(tag, snaps, len(fr))
    for k, (s, f) in enumerate(zip(snaps.snapshots, fr)):
        t = f"{tag} frame {k}"
        require(s is not None, f"{t}: snapshot is None")
        require(int(s.timestep) == f["step"], f"{t}: timestep {s.timestep} != configuration.step {f['step']}")
        require(int(s.nparticle) == len(f["typeid"]), f"{t}: nparticle {s.nparticle} != particles.N {len(f['typeid'])}")
        equal(f"{t}: particle_type (typeid + 1)", s.particle_type, f["typeid"].astype(np.int64) + 1)
        equal(f"{t}: positions", s.positions, positions[k][:, :d])
        equal(f"{t}: boxlength", s.boxlength, f["box"][:d])
        equal(f"{t}: hmatrix", s.hmatrix, np.diag(f["box"][:d]))


def _gsd_files(case):
    """File names as callers give them: bare (relative to cwd = scratch dir), './name', 'sub/name', absolute.
    Placeholder files are written; the stand-in modules deliver the content."""
    stem, kind = case["stem"], case["name_kind"]
    folder = {"bare": "", "dot": ".", "sub": "sub", "abs": os.path.join(os.getcwd(), "data")}[kind]
    if folder not in ("", "."):
        os.makedirs(folder, exist_ok=True)
    gsd_name = stem + ".gsd" if kind == "bare" else folder + "/" + stem + ".gsd"
    dcd_written = os.path.join(os.getcwd(), folder, stem + ".dcd")
    for fn_ in (gsd_name, dcd_written):
        with open(fn_, "wb") as f:
            f.write(b"placeholder")
    return gsd_name, dcd_written


def check_gsd_dcd_path(case):
    """Which DCD file is opened for a given GSD file name.  The path assertion is made even when the conversion that
    follows raises, so that it is reported on its own."""
    d = case["d"]
    xyz = case["dcd"]
    gsd_name, dcd_written = _gsd_files(case)
    for tag, get in (("read_gsd_dcd_wrapper", lambda: read_gsd_dcd_wrapper(gsd_name, d)),
                     ("DumpReader(GSD_DCD)", lambda: _dump_reader(gsd_name, d, DumpFileType.GSD_DCD))):
        err = None
        snaps = None
        with _FakeModules(make_traj(case), _DCD(xyz)) as fm:
            try:
                snaps = get()
            except Exception as e:  # noqa: BLE001 - re-raised below, after the path has been looked at
                err = e
        if err is not None and not fm.dcd_opened:
            raise err
        require(len(fm.dcd_opened) == 1, f"{tag}({gsd_name!r}) opened {len(fm.dcd_opened)} DCD files")
        got = fm.dcd_opened[0][0]
        require(_same_file(got, dcd_written),
                f"{tag}({gsd_name!r}) opened the DCD file {got!r}; the DCD file accompanying the GSD file is "
                f"{os.path.relpath(dcd_written)!r} (same folder, same name, extension dcd)")
        require(fm.dcd_opened[0][1] in ("r", "rb"), f"{tag}: DCD file opened with mode {fm.dcd_opened[0][1]!r}")
        if err is not None:
            raise err
        cmp_gsd(tag, snaps, case, xyz)
    return {"nontrivial": case["name_kind"] != "abs" or "." in case["stem"],
            "tags": ["name-" + case["name_kind"], "stem-" + case["stem"], f"d{d}", f"frames{len(case['frames'])}"]}


def check_gsd(case):
    d = case["d"]
    gpos = [f["position"] for f in case["frames"]]
    traj = make_traj(case)
    held = []            # every result is kept and examined again after the last call

    def keep(tag, snaps, positions):
        cmp_gsd(tag, snaps, case, positions)
        held.append((tag, snaps, positions))
        return snaps

    keep("read_gsd", read_gsd(traj, d), gpos)
    keep("read_gsd (second evaluation of the same trajectory object)", read_gsd(traj, d), gpos)
    for fo, f in zip(traj._frames, case["frames"]):  # inputs untouched
        require(np.array_equal(fo.particles.typeid, f["typeid"]) and np.array_equal(fo.particles.position, f["position"]),
                "read_gsd modified the frame objects it was given")
    gsd_name, dcd_written = _gsd_files(case)
    kind = case["name_kind"]
    for tag, get in (("read_gsd_wrapper", lambda: read_gsd_wrapper(gsd_name, d)),
                     ("DumpReader(GSD)", lambda: _dump_reader(gsd_name, d, DumpFileType.GSD))):
        with _FakeModules(make_traj(case), None) as fm:
            snaps = get()
        require(len(fm.opened) == 1 and _same_file(fm.opened[0][0], gsd_name), f"{tag}({gsd_name!r}) opened {fm.opened}")
        keep(tag, snaps, gpos)
    tags = [f"d{d}", f"frames{len(gpos)}" if len(gpos) <= 4 else "frames5+", "dcd" if case["dcd"] is not None else "gsd-only",
            "step-" + case["step_type"], "name-" + kind]
    if len({len(f["typeid"]) for f in case["frames"]}) > 1:
        tags.append("N-varies")
    if d == 2 and any(np.any(f["position"][:, 2] != 0) for f in case["frames"]):
        tags.append("2d-z-nonzero")
    if case["dcd"] is not None:
        xyz = case["dcd"]
        dcd = _DCD(xyz)
        keep("read_gsd_dcd", read_gsd_dcd(make_traj(case), dcd, d), xyz)
        keep("read_gsd_dcd (same trajectory object as read_gsd before)", read_gsd_dcd(traj, _DCD(xyz), d), xyz)
        for tag, get in (("read_gsd_dcd_wrapper", lambda: read_gsd_dcd_wrapper(gsd_name, d)),
                         ("DumpReader(GSD_DCD)", lambda: _dump_reader(gsd_name, d, DumpFileType.GSD_DCD))):
            with _FakeModules(make_traj(case), _DCD(xyz)) as fm:
                snaps = get()
            require(len(fm.opened) == 1 and _same_file(fm.opened[0][0], gsd_name),
                    f"{tag}({gsd_name!r}) opened the GSD file {fm.opened}")
            require(len(fm.dcd_opened) == 1, f"{tag}({gsd_name!r}) opened {len(fm.dcd_opened)} DCD files")
            got = fm.dcd_opened[0][0]
            require(_same_file(got, dcd_written),
                    f"{tag}({gsd_name!r}) opened the DCD file {got!r}; the DCD file accompanying the GSD file is "
                    f"{os.path.relpath(dcd_written)!r} (same folder, same name, extension dcd)")
            keep(tag, snaps, xyz)
    for tag, snaps, positions in held:
        cmp_gsd(tag + " re-examined after all calls", snaps, case, positions)
    if case.get("size_tag"):
        tags.append(case["size_tag"])
    tags.append("typeid-" + np.dtype(case["frames"][0]["typeid"].dtype).name)
    tags.append("position-" + np.dtype(case["frames"][0]["position"].dtype).name)
    nontrivial = bool(len(gpos) >= 2 or d == 2 or case["dcd"] is not None)
    return {"nontrivial": nontrivial, "tags": tags}


# ----------------------------------------------------------------------------- (e) log reader

LOG_FORMATS = ["%.8g", "%g", "%.6f", "%.10e", "%.15g"]


@st.composite
def section_st(draw, rows_min, rows_max, step0, nrows=None):
    ncol = draw(st.sampled_from([1, 2, 3, 4, 5, 6, 1, 2, 3, 4, 5, 6, 12, 20]))
    cols = ["Step"] + draw(st.lists(st.sampled_from(io19.THERMO_COLS), min_size=ncol, max_size=ncol, unique=True))
    dt = draw(st.sampled_from([1, 10, 100, 1000, 5000]))
    if nrows is None:
        nrows = draw(st.integers(rows_min, rows_max))
        vals = draw(hnp.arrays(np.float64, (nrows, ncol), elements=st.one_of(
            fl(-1e4, 1e4), st.integers(-1000, 1000).map(float), st.sampled_from([0.0, 1e-12, -3.5e9]))))
    else:
        # a long section (hundreds of rows): values from numpy's Generator under a drawn seed
        rng = np.random.default_rng(draw(st.integers(0, 2**32 - 1)))
        vals = np.where(rng.random((nrows, ncol)) < 0.2, np.round(rng.uniform(-1000, 1000, (nrows, ncol))),
                        rng.uniform(-1e4, 1e4, (nrows, ncol)))
    steps = [step0 + k * dt for k in range(nrows)]
    return {"columns": cols, "steps": steps, "values": vals, "fmt": draw(st.sampled_from(LOG_FORMATS)),
            "width": draw(st.sampled_from([0, 0, 14, 22])), "loop": draw(st.sampled_from(io19.LOOP_LINES)),
            "post": draw(st.lists(st.sampled_from(io19.POST_LINES), min_size=0, max_size=5))}


def _rng_section(rng, step, nrows=None):
    """A thermo section built by numpy's Generator (column set, row count 1-3 unless given, values, text after it)."""
    ncol = int(rng.integers(1, 7))
    cols = ["Step"] + [io19.THERMO_COLS[int(i)] for i in rng.permutation(len(io19.THERMO_COLS))[:ncol]]
    if nrows is None:
        nrows = int(rng.integers(1, 4))
    dt = int(rng.choice([1, 10, 100, 1000]))
    return {"columns": cols, "steps": [step + j * dt for j in range(nrows)],
            "values": np.where(rng.random((nrows, ncol)) < 0.3, np.round(rng.uniform(-1000, 1000, (nrows, ncol))),
                               rng.uniform(-1e4, 1e4, (nrows, ncol))),
            "fmt": LOG_FORMATS[int(rng.integers(0, len(LOG_FORMATS)))], "width": int(rng.choice([0, 0, 14, 22])),
            "loop": io19.LOOP_LINES[int(rng.integers(0, len(io19.LOOP_LINES)))],
            "post": [io19.POST_LINES[int(i)] for i in rng.integers(0, len(io19.POST_LINES), int(rng.integers(0, 4)))]}


@st.composite
def log_case_st(draw, tail_rows=(2, 8), force_tail=False, quotes=False, sizes=None):
    """sizes: None | list of block sizes -> one class of the size axis per case: a section with a row count around a
    block size, or a number of sections around a block size (1-3 rows each).  The small log is drawn first; the size is
    `spread` over the hash of all draws and the long section / the many sections are then added by numpy's Generator."""
    nsec = draw(st.integers(1 if quotes else 0, 4 if sizes is None else 2))
    pre = draw(st.lists(st.sampled_from(io19.PRE_LINES), min_size=1, max_size=8))
    lay = {"eol": draw(st.sampled_from(["\n", "\n", "\r\n"])), "trail": draw(st.sampled_from([False, False, True]))}
    fname = draw(st.sampled_from(NAME_KINDS))
    secs = []
    step = draw(st.sampled_from([0, 0, 1000, 123456789, 2**31 - 5, 2**40, 2**53 + 1]))
    for k in range(nsec):
        s = draw(section_st(1, 8, step))
        secs.append(s)
        step = (s["steps"][-1] if s["steps"] else step) + draw(st.sampled_from([0, 1, 500]))
    tail = None
    last = None
    if force_tail or draw(st.integers(0, 2)) == 0:
        t = draw(section_st(tail_rows[0], tail_rows[1], step + 10**6))
        t["cut"] = draw(st.sampled_from([0, 0, 0, 1, 3, 40])) if len(t["steps"]) else 0
        t["newline"] = draw(st.booleans())
        tail = t
    else:
        last = draw(st.sampled_from(io19.LAST_LINES))
    if quotes:
        # at least one line with an odd number of double quotes somewhere in front of a complete section
        where = draw(st.integers(0, nsec - 1))
        q = draw(st.lists(st.sampled_from(io19.QUOTE_LINES), min_size=1, max_size=3))
        target = pre if where == 0 else secs[where - 1]["post"]
        at = draw(st.integers(0, len(target)))
        target[at:at] = q
        if draw(st.booleans()):
            secs[-1]["post"] = secs[-1]["post"] + [draw(st.sampled_from(io19.QUOTE_LINES))]
    size_tag = None
    if sizes is not None:
        seed = draw(st.integers(0, 2**32 - 1))
        rows_kind = draw(st.booleans())
        which = draw(st.integers(0, 3))
        with np.printoptions(threshold=100000):
            ent = repr((seed, rows_kind, which, pre, secs, tail, last, sorted(lay.items()), fname))
        rng = np.random.default_rng(seed)
        if rows_kind:
            n = spread(boundary_sizes(sizes), ent)
            big = _rng_section(rng, step, nrows=n)
            if secs and which:
                secs[which % len(secs)] = big
            else:
                secs.append(big)
            size_tag = f"rows-boundary-{n}"
        else:
            k = spread(boundary_sizes([b for b in sizes if b <= (64 if len(sizes) <= 5 else 256)]), ent)
            while len(secs) < k:
                secs.insert(int(rng.integers(0, len(secs) + 1)), _rng_section(rng, int(rng.integers(0, 10**7))))
            size_tag = f"sections-boundary-{k}"
    return {"pre": pre, "sections": secs, "tail": tail, "last": last, "layout": lay, "size_tag": size_tag, "fname": fname}


def cmp_section(t, df, cols, rows):
    require(hasattr(df, "columns") and hasattr(df, "shape"), lambda: f"{t}: not a DataFrame: {df!r:.200}")
    columns(t, df, cols)
    require(df.shape[0] == len(rows), f"{t}: {df.shape[0]} rows returned, the section has {len(rows)}")
    if rows:
        want = io19.tokens_to_float(rows, len(cols))
        for j, c in enumerate(cols):
            got = col(t, df, c)
            if j == 0 and np.asarray(got).dtype.kind in "iu":
                # step numbers returned as integers are compared as integers (2^53 + 1 is not a double)
                gi, wi = [int(v) for v in np.asarray(got).tolist()], [int(r[0]) for r in rows]
                require(gi == wi, f"{t}: column {c!r} (integers): got {gi[:6]}..., want {wi[:6]}... "
                                  f"({sum(a != b for a, b in zip(gi, wi))}/{len(wi)} entries differ)")
                continue
            try:
                got = np.asarray(got, dtype=float)
            except (TypeError, ValueError):
                raise Violation(f"{t}: column {c!r} is not numeric: {got!r:.200}")
            close(f"{t}: column {c!r}", got, want[:, j], rtol=1e-12, atol=0.0)


def check_log(case):
    text, complete, tail_rows = io19.encode_log(case)
    fn = file_name(case.get("fname", "abs"), "log.lammps")
    write_text(fn, text)
    res = read_lammpslog(fn)
    require(isinstance(res, (list, tuple)), f"read_lammpslog returned {type(res).__name__}")
    k = len(complete)
    require(len(res) in ((k, k + 1) if tail_rows is not None else (k,)),
            f"{len(res)} sections returned, the log holds {k} complete sections"
            + (" and an interrupted one" if tail_rows is not None else ""))
    for i, (cols, rows) in enumerate(complete):
        cmp_section(f"section {i}", res[i], cols, rows)
    tags = [f"sections{k}" if k <= 4 else "sections5+"]
    tail_got = 0
    if tail_rows is not None:
        tags.append(f"tail-rows{min(len(case['tail']['steps']), 4)}" + ("+" if len(case["tail"]["steps"]) > 4 else ""))
        tags.append("tail-cut" if case["tail"]["cut"] else ("tail-newline" if case["tail"]["newline"] else "tail-no-newline"))
        if len(res) == k + 1:
            df = res[k]
            require(hasattr(df, "shape") and df.shape[0] <= len(tail_rows),
                    f"interrupted section: {getattr(df, 'shape', None)} rows returned, only {len(tail_rows)} complete rows exist")
            tail_got = df.shape[0]
            cmp_section("interrupted section (row prefix)", df, case["tail"]["columns"], tail_rows[:tail_got])
            tags.append("tail-returned")
        else:
            tags.append("tail-dropped")
    colsets = {tuple(c) for c, _ in complete}
    if len(colsets) > 1:
        tags.append("column-sets-differ")
    if any(len(r) == 1 for _, r in complete):
        tags.append("one-row-section")
    if len({len(r) for _, r in complete}) > 1:
        tags.append("row-counts-differ")
    if any(s["width"] for s in case["sections"]):
        tags.append("right-aligned-rows")
    if any(s["post"] for s in case["sections"][:-1]):
        tags.append("text-between")
    odd = lambda lines: any(ln.count('"') % 2 for ln in lines)  # noqa: E731
    if case["sections"] and odd(case["pre"]):
        tags.append("odd-quotes-before-first-section")
    if any(odd(s["post"]) for s in case["sections"][:-1]):
        tags.append("odd-quotes-between-sections")
    if case["sections"] and odd(case["sections"][-1]["post"]):
        tags.append("odd-quotes-after-last-section")
    lay = case.get("layout") or {}
    if lay.get("eol") == "\r\n":
        tags.append("eol-crlf")
    if lay.get("trail"):
        tags.append("trail-blank")
    if case.get("size_tag"):
        tags.append(case["size_tag"])
    if "fname" in case:
        tags.append("name-" + case["fname"])
    if any(len(c) > 10 for c, _ in complete):
        tags.append("columns-12+")
    smax = max([int(r[0]) for _, rows in complete for r in rows] or [0])
    tags.append("step-ge-2^53" if smax >= 2**53 else "step-ge-2^31" if smax >= 2**31 else "step-small")
    nontrivial = bool((k >= 2 and len(colsets) > 1) or tail_rows is not None)
    return {"nontrivial": nontrivial, "tags": tags, "extra": {"tail_rows_returned": tail_got}}


@st.composite
def log_sequence_st(draw):
    logs = [draw(log_case_st()) for _ in range(draw(st.integers(2, 3)))]
    for lg in logs:
        lg["fname"] = "abs"
    plan = [draw(st.integers(0, len(logs) - 1)) for _ in range(draw(st.integers(3, 6)))]
    return {"logs": logs, "plan": plan, "name_kind": draw(st.sampled_from(["abs", "bare"]))}


def _cmp_log(label, res, complete, tail_rows, tail_cols):
    require(isinstance(res, (list, tuple)), f"{label}: read_lammpslog returned {type(res).__name__}")
    k = len(complete)
    require(len(res) in ((k, k + 1) if tail_rows is not None else (k,)),
            f"{label}: {len(res)} sections returned, the log holds {k} complete sections")
    for i, (cols, rows) in enumerate(complete):
        cmp_section(f"{label} section {i}", res[i], cols, rows)
    if len(res) == k + 1:
        df = res[k]
        require(hasattr(df, "shape") and df.shape[0] <= len(tail_rows), f"{label}: interrupted section has too many rows")
        cmp_section(f"{label} interrupted section (row prefix)", df, tail_cols, tail_rows[: df.shape[0]])


def check_log_sequence(case):
    """The same file name holds one log after the other (a running simulation's log is re-read; a script loops over
    runs writing to log.lammps); all DataFrames handed out are kept and examined again at the end."""
    enc = [io19.encode_log(lg) for lg in case["logs"]]
    fn = file_name(case["name_kind"], "log.lammps")
    held = []
    prev = None
    rewrites = 0
    for n, k in enumerate(case["plan"]):
        text, complete, tail_rows = enc[k]
        if prev != k:
            rewrites += prev is not None
            write_text(fn, text)
            prev = k
        res = read_lammpslog(fn)
        label = f"read {n} (log {k})"
        tail_cols = case["logs"][k]["tail"]["columns"] if case["logs"][k]["tail"] is not None else None
        _cmp_log(label, res, complete, tail_rows, tail_cols)
        held.append((label, res, [df.copy(deep=True) for df in res], complete, tail_rows, tail_cols))
    for label, res, cps, complete, tail_rows, tail_cols in held:
        require(len(res) == len(cps) and all(a.equals(b) and list(a.columns) == list(b.columns) for a, b in zip(res, cps)),
                f"{label}: a DataFrame handed out earlier was modified by a later read")
        _cmp_log(label + " re-examined after all reads", res, complete, tail_rows, tail_cols)
    tags = [f"reads{len(case['plan'])}", f"logs{len(case['logs'])}", "name-" + case["name_kind"],
            "file-rewritten" if rewrites else "file-written-once"]
    if len(case["plan"]) > len(set(case["plan"])):
        tags.append("same-log-read-again")
    return {"nontrivial": bool(rewrites), "tags": tags}


def describe_log_sequence(case):
    return {"plan": case["plan"], "logs": [io19.encode_log(lg)[0][:400] for lg in case["logs"]]}


# ----------------------------------------------------------------------------- descriptions


def describe_dump(case):
    out = {"d": case["d"], "style": case.get("style"), "text": io19.encode_dump(case)[:600]}
    for k in ("moltypes", "columnsids", "ncol0"):
        if k in case:
            out[k] = case[k]
    return out


def describe_header(case):
    fr = case["frames"][0]
    return {"d": case["d"], "timestep": fr["timestep"], "N": len(fr["ids"]), "addson": case["addson"],
            "bounds": np.stack([fr["lo"], fr["lo"] + fr["L"]], axis=1).tolist(), "frames": len(case["frames"])}


def describe_data(case):
    return {"d": case["d"], "N": case["N"], "K": case["K"],
            "bounds": np.stack([case["lo"], case["lo"] + case["L"]], axis=1).tolist()}


def describe_gsd(case):
    return {"d": case["d"], "file": case["name_kind"] + ":" + case["stem"] + ".gsd", "frames": len(case["frames"]), "N": [len(f["typeid"]) for f in case["frames"]],
            "dcd": None if case["dcd"] is None else list(case["dcd"].shape), "typeid0": case["frames"][0]["typeid"].tolist()}


def describe_log(case):
    return {"text": io19.encode_log(case)[0][:900]}


FACETS = [
    Facet("header_dump", header_case_st(), check_header_dump, quick=400, thorough=30000, describe=describe_header,
          shards_quick=2,
          rule="write_dump_header(timestep, N, bounds, addson) x {2D,3D} x 1..3 frames x bounds containers "
               "{ndarray,list,float32 ndarray} x origins up to 1e4 x addson {None,'',1..3 names}; header parsed by the "
               "independent ITEM parser, header + atom lines read by read_lammps_wrapper / DumpReader; non-trivial = "
               "bounds need rounding to six decimals, or 2D (dummy z line), or >= 2 frames"),
    Facet("data_header", data_case_st(), check_data_header, quick=400, thorough=30000, describe=describe_data,
          rule="write_data_header(N, K, bounds) x {2D,3D}; parsed by the read_data header rules (counts, bounds, 2D dummy z, "
               "Atoms keyword framed by blank lines); non-trivial = 2D, or bounds need rounding, or unequal edges"),
    Facet("centertype", centre_case_st(), check_centertype, quick=600, thorough=40000, describe=describe_dump,
          shards_quick=3,
          rule="orthogonal dumps {x,xs,xu} x 1..3 frames (N differs, lines shuffled) x type maps (keys subset of 1..K+1, "
               "values arbitrary / merged / identity); non-trivial = some but not all atoms selected and at least one "
               "present key relabelled"),
    Facet("columns", column_case_st(), check_columns, quick=600, thorough=40000, describe=describe_dump, shards_quick=3,
          rule="dumps with 0..3 extra columns (+ optional z column in 2D, tilted headers) x 1..4 frames x columnsids lists "
               "(1-based, any order, repeats) ; read_additions (0-based) on the files with equal N; non-trivial = lines "
               "shuffled and (>= 2 frames or >= 2 columns)"),
    Facet("reader_sizes", reader_sizes_st(BLOCKS_QUICK, [32, 64]), check_reader_sizes, quick=180, thorough=0,
          describe=describe_sizes, shards_quick=3, quick_budget_s=240.0,
          rule="size-boundary classes for the molecule-centre reader, the column reader and read_additions on one seeded "
               "orthogonal dump: atoms per frame B-1, B, B+1, 2B-1, 2B+1, B+B//3 for B in {32, 64, 100, 128, 256}, frames per "
               "file around B in {32, 64}; all layouts; non-trivial = always"),
    Facet("reader_sizes_large", reader_sizes_st(BLOCKS_ALL, BLOCKS_ALL, long_n=(5000, 20000)), check_reader_sizes, quick=0,
          thorough=1600, describe=describe_sizes,
          rule="thorough tier only: as reader_sizes with B up to 1024 (N, frames up to 2049) and long files (N = 5000, 20000)"),
    Facet("aux_sequence", aux_sequence_st(), check_aux_sequence, quick=200, thorough=12000, describe=describe_aux_sequence,
          shards_quick=2, quick_budget_s=240.0,
          rule="3-7 calls of the molecule-centre reader / column reader / read_additions with different arguments on two "
               "small files under two re-used file names; each result compared at return, copied, and ALL results examined "
               "again (oracle + bit-for-bit) after the last call; non-trivial = a name re-used for other contents or "
               ">= 2 different (reader, file) pairs"),
    Facet("gsd", gsd_case_st(), check_gsd, quick=400, thorough=30000, describe=describe_gsd, shards_quick=2,
          rule="duck-typed HOOMD frame sequences 1..4 frames x {2D,3D} x typeid 0..K-1 x optional DCD array; read_gsd, "
               "read_gsd_dcd, and read_gsd_wrapper / read_gsd_dcd_wrapper / DumpReader(GSD / GSD_DCD) through stand-in "
               "modules with file names given bare, './name', 'sub/name', absolute (the DCD file opened must be the "
               "sibling of the GSD file); non-trivial = >= 2 frames or 2D or DCD"),
    Facet("gsd_dcd_path", gsd_case_st(force_dcd=True), check_gsd_dcd_path, quick=200, thorough=10000, describe=describe_gsd,
          rule="GSD file name given bare / './name' / 'sub/name' / absolute x stems with and without inner dots; the DCD "
               "file opened by read_gsd_dcd_wrapper / DumpReader(GSD_DCD) must be the existing sibling <stem>.dcd (asserted "
               "before any later failure of the conversion); non-trivial = relative name or a stem with a dot"),
    Facet("log", log_case_st(), check_log, quick=500, thorough=30000, describe=describe_log, shards_quick=3,
          rule="logs with 0..4 complete sections (different column sets / row counts 1..8, right-aligned or plain rows, "
               "text between) + optional interrupted section with >= 2 lines; non-trivial = >= 2 complete sections "
               "with different column sets, or an interrupted section present"),
    Facet("log_short_tail", log_case_st(tail_rows=(0, 1), force_tail=True), check_log, quick=300, thorough=20000,
          describe=describe_log, shards_quick=2,
          rule="as log, but the interrupted trailing section holds only its header or header + one (possibly partial) "
               "line; the complete sections must still be returned in full; non-trivial = always (interrupted section)"),
    Facet("log_sizes", log_case_st(sizes=BLOCKS_QUICK), check_log, quick=120, thorough=0, quick_budget_s=240.0, describe=describe_log,
          shards_quick=2,
          rule="size-boundary classes of the log reader: one section with B-1, B, B+1, 2B-1, 2B+1, B+B//3 rows for B in "
               "{32, 64, 100, 128, 256} (seeded values), or that many sections for B in {32, 64} with 1-3 rows each (seeded)"),
    Facet("log_sizes_large", log_case_st(sizes=BLOCKS_ALL), check_log, quick=0, thorough=1600, describe=describe_log,
          rule="thorough tier only: as log_sizes with B up to 1024 (rows up to 2049, sections up to 257)"),
    Facet("log_sequence", log_sequence_st(), check_log_sequence, quick=60, thorough=8000, quick_budget_s=240.0, describe=describe_log_sequence,
          rule="2-3 logs written one after the other under the same file name x 3-6 reads; every list of DataFrames is "
               "compared at return, copied, and examined again after the last read; non-trivial = the file was rewritten"),
    Facet("log_quoted_text", log_case_st(quotes=True), check_log, quick=300, thorough=20000, describe=describe_log,
          shards_quick=2,
          rule="as log with >= 1 complete section and >= 1 echoed input line carrying an odd number of double quotes "
               "(LAMMPS triple-quote strings, cut print commands) in front of a section; non-trivial as log"),
]
